//! DWARF synthesis and read-back (gimli 0.32).  Never depends on walrus.
pub fn minimal_sections(_wasm: &[u8]) -> Vec<(String, Vec<u8>)> {
    vec![]
}
