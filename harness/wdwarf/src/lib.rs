//! DWARF synthesis and read-back with gimli 0.32 (never depends on walrus or gimli 0.26).
//!
//! Conventions (LLVM's for wasm): code addresses are offsets from the first byte of the code
//! section *contents* (the function-count LEB); one DW_TAG_subprogram per function; one
//! line-table row per instruction whose **line number is the global ordinal of that
//! instruction** (1-based), so a row identifies the instruction it claims to describe.

use gimli::write::{Address, AttributeValue, DwarfUnit, EndianVec, LineProgram, LineString, Sections};
use gimli::{Encoding, Format, LineEncoding, LittleEndian};
use std::collections::BTreeMap;
use wmodel::WModule;

#[derive(Clone, Copy, Debug, PartialEq, Eq)]
pub enum LowPc {
    /// first byte of the body (after the size LEB), high_pc = body length
    Body,
    /// first byte of the code entry (the size LEB), high_pc = entry length
    Entry,
}

#[derive(Clone, Copy, Debug)]
pub struct Opts {
    pub version: u16,
    pub one_sequence: bool,
    /// DWARF 5 only: rows name file 0 (the unit's primary file) or file 1
    pub file_index: u8,
    pub low_pc: LowPc,
    pub range_form: RangeForm,
    /// give every subprogram children (a formal parameter, and a lexical block holding a
    /// variable): the DIE tree is then three levels deep instead of flat
    pub nested: bool,
}

/// how function ends are written
#[derive(Clone, Copy, Debug, PartialEq, Eq)]
pub enum RangeForm {
    /// DW_AT_high_pc as an offset from low_pc (what LLVM emits for subprograms)
    Offset,
    /// DW_AT_high_pc as an address (DW_FORM_addr)
    Addr,
    /// DW_AT_high_pc as an offset in the fixed-size form DW_FORM_data4 (what clang emits)
    OffsetData4,
    /// offset-form subprograms plus a DW_AT_ranges list on the unit with one (begin, end) address
    /// pair per function (what LLVM emits for multi-function units)
    UnitRanges,
}

/// ordinal (line number) of operator #k of local function #f (input function index)
pub fn ordinal_table(m: &WModule) -> BTreeMap<(u32, usize), u64> {
    let mut t = BTreeMap::new();
    let mut n = 0u64;
    for (fi, f) in m.funcs.iter().enumerate() {
        if let Some(b) = &f.body {
            for k in 0..b.ops.len() {
                n += 1;
                t.insert((fi as u32, k), n);
            }
        }
    }
    t
}

pub fn synthesize(m: &WModule, o: Opts) -> Result<Vec<(String, Vec<u8>)>, String> {
    let base = m.code_contents_start.ok_or("no code section")?;
    let encoding = Encoding { format: Format::Dwarf32, version: o.version, address_size: 4 };
    let mut dwarf = DwarfUnit::new(encoding);
    let comp_dir = LineString::new(&b"/src"[..], encoding, &mut dwarf.line_strings);
    let comp_file = LineString::new(&b"main.c"[..], encoding, &mut dwarf.line_strings);
    let mut program = LineProgram::new(encoding, LineEncoding::default(), comp_dir, None, comp_file.clone(), None);
    let dir = program.default_directory();
    let file0 = program.add_file(comp_file, dir, None);
    let file = if o.version >= 5 && o.file_index == 1 {
        let other = LineString::new(&b"other.c"[..], encoding, &mut dwarf.line_strings);
        program.add_file(other, dir, None)
    } else {
        file0
    };
    let ords = ordinal_table(m);
    let locals: Vec<(u32, &wmodel::Body)> = m.funcs.iter().enumerate().filter_map(|(i, f)| f.body.as_ref().map(|b| (i as u32, b))).collect();
    if locals.is_empty() {
        return Err("no local functions".into());
    }
    let first_low = locals[0].1.body.start - base;
    if o.one_sequence {
        program.begin_sequence(Some(Address::Constant(first_low)));
    }
    for (fi, b) in &locals {
        let low = b.body.start - base;
        if !o.one_sequence {
            program.begin_sequence(Some(Address::Constant(low)));
        }
        let seq_base = if o.one_sequence { first_low } else { low };
        for (k, (_, off)) in b.ops.iter().enumerate() {
            let row = program.row();
            row.address_offset = (off - base) - seq_base;
            row.file = file;
            row.line = ords[&(*fi, k)];
            row.column = 1 + (k as u64 % 7);
            program.generate_row();
        }
        if !o.one_sequence {
            program.end_sequence((b.body.end - base) - seq_base);
        }
    }
    if o.one_sequence {
        program.end_sequence((locals[locals.len() - 1].1.body.end - base) - first_low);
    }
    dwarf.unit.line_program = program;
    let root = dwarf.unit.root();
    {
        let name = dwarf.strings.add(&b"main.c"[..]);
        let cd = dwarf.strings.add(&b"/src"[..]);
        let r = dwarf.unit.get_mut(root);
        r.set(gimli::DW_AT_name, AttributeValue::StringRef(name));
        r.set(gimli::DW_AT_comp_dir, AttributeValue::StringRef(cd));
        r.set(gimli::DW_AT_stmt_list, AttributeValue::LineProgramRef);
        r.set(gimli::DW_AT_low_pc, AttributeValue::Address(Address::Constant(0)));
    }
    if o.range_form == RangeForm::UnitRanges {
        use gimli::write::{Range, RangeList};
        let list: Vec<Range> = locals.iter().map(|(_, b)| Range::StartEnd { begin: Address::Constant(b.body.start - base), end: Address::Constant(b.body.end - base) }).collect();
        let id = dwarf.unit.ranges.add(RangeList(list));
        dwarf.unit.get_mut(root).set(gimli::DW_AT_ranges, AttributeValue::RangeListRef(id));
    }
    for (fi, b) in &locals {
        let id = dwarf.unit.add(root, gimli::DW_TAG_subprogram);
        let name = dwarf.strings.add(format!("fn{}", fi).into_bytes());
        let (low, len) = match o.low_pc {
            LowPc::Body => (b.body.start - base, b.body.end - b.body.start),
            LowPc::Entry => (b.entry.start - base, b.entry.end - b.entry.start),
        };
        let e = dwarf.unit.get_mut(id);
        e.set(gimli::DW_AT_name, AttributeValue::StringRef(name));
        e.set(gimli::DW_AT_low_pc, AttributeValue::Address(Address::Constant(low)));
        if o.range_form == RangeForm::Addr {
            e.set(gimli::DW_AT_high_pc, AttributeValue::Address(Address::Constant(low + len)));
        } else if o.range_form == RangeForm::OffsetData4 {
            e.set(gimli::DW_AT_high_pc, AttributeValue::Data4(len as u32));
        } else {
            e.set(gimli::DW_AT_high_pc, AttributeValue::Udata(len));
        }
        if o.nested {
            let pn = dwarf.strings.add(format!("arg{}", fi).into_bytes());
            let p = dwarf.unit.add(id, gimli::DW_TAG_formal_parameter);
            dwarf.unit.get_mut(p).set(gimli::DW_AT_name, AttributeValue::StringRef(pn));
            let lb = dwarf.unit.add(id, gimli::DW_TAG_lexical_block);
            let vn = dwarf.strings.add(format!("tmp{}", fi).into_bytes());
            let v = dwarf.unit.add(lb, gimli::DW_TAG_variable);
            dwarf.unit.get_mut(v).set(gimli::DW_AT_name, AttributeValue::StringRef(vn));
        }
    }
    let mut sections = Sections::new(EndianVec::new(LittleEndian));
    dwarf.write(&mut sections).map_err(|e| format!("gimli write: {}", e))?;
    let mut out = vec![];
    sections
        .for_each(|id, data| -> Result<(), ()> {
            if !data.slice().is_empty() {
                out.push((id.name().to_string(), data.slice().to_vec()));
            }
            Ok(())
        })
        .map_err(|_| "for_each")?;
    Ok(out)
}

/// DWARF that describes data only (a base type and a variable of that type): no line program, no
/// code address anywhere.  What a data-only object file carries
pub fn data_only_sections() -> Vec<(String, Vec<u8>)> {
    let encoding = Encoding { format: Format::Dwarf32, version: 4, address_size: 4 };
    let mut dwarf = DwarfUnit::new(encoding);
    let root = dwarf.unit.root();
    let name = dwarf.strings.add(&b"data.c"[..]);
    dwarf.unit.get_mut(root).set(gimli::DW_AT_name, AttributeValue::StringRef(name));
    let bt = dwarf.unit.add(root, gimli::DW_TAG_base_type);
    let n = dwarf.strings.add(&b"int"[..]);
    {
        let e = dwarf.unit.get_mut(bt);
        e.set(gimli::DW_AT_name, AttributeValue::StringRef(n));
        e.set(gimli::DW_AT_byte_size, AttributeValue::Udata(4));
        e.set(gimli::DW_AT_encoding, AttributeValue::Encoding(gimli::DW_ATE_signed));
    }
    let var = dwarf.unit.add(root, gimli::DW_TAG_variable);
    let vn = dwarf.strings.add(&b"counter"[..]);
    {
        let e = dwarf.unit.get_mut(var);
        e.set(gimli::DW_AT_name, AttributeValue::StringRef(vn));
        e.set(gimli::DW_AT_type, AttributeValue::UnitRef(bt));
    }
    let mut sections = Sections::new(EndianVec::new(LittleEndian));
    if dwarf.write(&mut sections).is_err() {
        return vec![];
    }
    let mut out = vec![];
    let _ = sections.for_each(|id, data| -> Result<(), ()> {
        if !data.slice().is_empty() {
            out.push((id.name().to_string(), data.slice().to_vec()));
        }
        Ok(())
    });
    out
}

/// a minimal well-formed DWARF for C14's "input has DWARF" dimension
pub fn minimal_sections(wasm: &[u8]) -> Vec<(String, Vec<u8>)> {
    match wmodel::decode(wasm) {
        Ok(m) => synthesize(&m, Opts { version: 4, one_sequence: false, file_index: 0, low_pc: LowPc::Body, range_form: RangeForm::Offset, nested: false }).unwrap_or_default(),
        Err(_) => vec![],
    }
}

#[derive(Clone, Debug, PartialEq, Eq)]
pub struct Row {
    pub address: u64,
    pub line: u64,
    pub file: u64,
    pub file_name: String,
    pub column: u64,
    pub end_sequence: bool,
}

#[derive(Clone, Debug, Default)]
pub struct ReadBack {
    pub rows: Vec<Row>,
    /// (name, low_pc, high_pc as length)
    pub subprograms: Vec<(String, u64, u64)>,
    pub version: u16,
    /// the unit's DW_AT_ranges list as (begin, end), raw (tombstoned and empty pairs included);
    /// Err = the list is malformed
    pub unit_ranges: Option<Result<Vec<(u64, u64)>, String>>,
}

pub fn read_back(sections: &BTreeMap<String, Vec<u8>>) -> Result<ReadBack, String> {
    use gimli::read::{AttributeValue as AV, Dwarf, EndianSlice};
    let empty: Vec<u8> = vec![];
    let load = |id: gimli::SectionId| -> Result<EndianSlice<'_, LittleEndian>, gimli::Error> {
        Ok(EndianSlice::new(sections.get(id.name()).unwrap_or(&empty), LittleEndian))
    };
    let dwarf = Dwarf::load(load).map_err(|e| e.to_string())?;
    let mut rb = ReadBack::default();
    let mut units = dwarf.units();
    while let Some(h) = units.next().map_err(|e| format!("unit header: {}", e))? {
        rb.version = h.version();
        let unit = dwarf.unit(h).map_err(|e| format!("unit: {}", e))?;
        if let Some(p) = unit.line_program.clone() {
            let mut rows = p.rows();
            while let Some((hdr, row)) = rows.next_row().map_err(|e| format!("line row: {}", e))? {
                let file_name = match row.file(hdr) {
                    Some(f) => match dwarf.attr_string(&unit, f.path_name()) {
                        Ok(s) => String::from_utf8_lossy(s.slice()).to_string(),
                        Err(_) => "?".to_string(),
                    },
                    None => "<no such file>".to_string(),
                };
                rb.rows.push(Row {
                    address: row.address(),
                    line: row.line().map(|l| l.get()).unwrap_or(0),
                    file: row.file_index(),
                    file_name,
                    column: match row.column() {
                        gimli::ColumnType::LeftEdge => 0,
                        gimli::ColumnType::Column(c) => c.get(),
                    },
                    end_sequence: row.end_sequence(),
                });
            }
        }
        {
            let mut cur = unit.entries();
            if let Ok(Some((_, root))) = cur.next_dfs() {
                if let Ok(Some(AV::RangeListsRef(off))) = root.attr_value(gimli::DW_AT_ranges) {
                    let off = dwarf.ranges_offset_from_raw(&unit, off);
                    let mut v = vec![];
                    let mut err = None;
                    match dwarf.raw_ranges(&unit, off) {
                        Ok(mut it) => loop {
                            match it.next() {
                                Ok(Some(gimli::read::RawRngListEntry::AddressOrOffsetPair { begin, end }))
                                | Ok(Some(gimli::read::RawRngListEntry::OffsetPair { begin, end }))
                                | Ok(Some(gimli::read::RawRngListEntry::StartEnd { begin, end })) => v.push((begin, end)),
                                Ok(Some(gimli::read::RawRngListEntry::StartLength { begin, length })) => v.push((begin, begin + length)),
                                Ok(Some(_)) => {}
                                Ok(None) => break,
                                Err(e) => {
                                    err = Some(e.to_string());
                                    break;
                                }
                            }
                        },
                        Err(e) => err = Some(e.to_string()),
                    }
                    rb.unit_ranges = Some(match err {
                        Some(e) => Err(e),
                        None => Ok(v),
                    });
                }
            }
        }
        let mut entries = unit.entries();
        while let Some((_, e)) = entries.next_dfs().map_err(|e| format!("entries: {}", e))? {
            if e.tag() != gimli::DW_TAG_subprogram {
                continue;
            }
            let mut name = String::new();
            let mut low = None;
            let mut high = None;
            let mut attrs = e.attrs();
            while let Some(a) = attrs.next().map_err(|e| e.to_string())? {
                match a.name() {
                    gimli::DW_AT_name => {
                        if let Ok(s) = dwarf.attr_string(&unit, a.value()) {
                            name = String::from_utf8_lossy(s.slice()).to_string();
                        }
                    }
                    gimli::DW_AT_low_pc => {
                        if let AV::Addr(x) = a.value() {
                            low = Some(x);
                        }
                    }
                    gimli::DW_AT_high_pc => match a.value() {
                        AV::Udata(x) => high = Some(x),
                        AV::Data1(x) => high = Some(x as u64),
                        AV::Data2(x) => high = Some(x as u64),
                        AV::Data4(x) => high = Some(x as u64),
                        AV::Data8(x) => high = Some(x),
                        AV::Addr(x) => high = Some(x.wrapping_sub(low.unwrap_or(0))),
                        _ => {}
                    },
                    _ => {}
                }
            }
            rb.subprograms.push((name, low.unwrap_or(u64::MAX), high.unwrap_or(u64::MAX)));
        }
    }
    Ok(rb)
}

pub fn debug_sections_of(m: &WModule) -> BTreeMap<String, Vec<u8>> {
    m.customs.iter().filter(|c| c.name.starts_with(".debug")).map(|c| (c.name.clone(), c.data.clone())).collect()
}
