//! Generic bounded-exhaustive sweep: run `check` on every case (all of them, in parallel),
//! collect violations and coverage counters.

use crate::core::*;
use serde_json::json;
use std::collections::{BTreeMap, HashSet};
use std::time::{Duration, Instant};

#[derive(Default)]
pub struct CaseResult {
    pub violations: Vec<Violation>,
    /// the reference validator accepted the input (members it rejects are counted, not judged)
    pub valid_input: bool,
    /// walrus changed something (renumbered / reordered / elided / re-encoded)
    pub nontrivial: bool,
    /// digest(s) of observations made (distinct digests = distinct states)
    pub digests: Vec<u64>,
    /// number of real walrus operations executed
    pub transitions: u32,
    pub note: Option<String>,
}

pub fn run_sweep(args: &Args, ev: &mut Ev, cases: &[Case], check: &(dyn Fn(&Case) -> CaseResult + Sync)) -> Vec<Violation> {
    let deadline = Instant::now() + Duration::from_secs_f64(args.budget_s);
    let t_sweep = Instant::now();
    let (res, done) = pmap(cases, args.threads, Some(deadline), |c| check(c));
    if std::env::var("WCHECK_TIMING").is_ok() {
        eprintln!("timing: case construction done at {:.2}s, sweep of {} cases took {:.2}s", ev.t0.elapsed().as_secs_f64() - t_sweep.elapsed().as_secs_f64(), cases.len(), t_sweep.elapsed().as_secs_f64());
    }
    if done < cases.len() {
        ev.cap_hit = true;
        ev.note(format!("wall cap {}s hit: {} of {} cases explored", args.budget_s, done, cases.len()));
    }
    let mut viol = vec![];
    let mut states: HashSet<u64> = HashSet::new();
    let mut fam: BTreeMap<String, (u64, u64, u64)> = BTreeMap::new();
    let mut nontrivial_inputs: HashSet<u64> = HashSet::new();
    for (c, r) in cases.iter().zip(res.into_iter()) {
        let r = match r {
            Some(r) => r,
            None => continue,
        };
        ev.evaluations += 1;
        ev.transitions += r.transitions as u64;
        let f = fam.entry(c.family.clone()).or_insert((0, 0, 0));
        f.0 += 1;
        if !r.valid_input {
            f.1 += 1;
        }
        if r.nontrivial {
            f.2 += 1;
            nontrivial_inputs.insert(wmodel::fnv(&c.wasm) ^ wmodel::fnv(c.cfg.to_string().as_bytes()));
        }
        for d in r.digests {
            states.insert(d);
        }
        if let Some(n) = r.note {
            ev.note(n);
        }
        viol.extend(r.violations);
    }
    ev.states += states.len() as u64;
    ev.nontrivial += nontrivial_inputs.len() as u64;
    for (k, (m, inv, nt)) in fam {
        ev.families.insert(k, json!({"members": m, "rejected_by_reference_validator": inv, "nontrivial": nt}));
    }
    // samples: first, middle, last case
    if !cases.is_empty() {
        for i in [0, cases.len() / 2, cases.len() - 1] {
            let c = &cases[i];
            ev.sample(json!({"family": c.family, "coords": c.coords, "config": c.cfg, "input_hex": wmodel::hex(&c.wasm[..c.wasm.len().min(400)])}));
        }
    }
    viol
}
