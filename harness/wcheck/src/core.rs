//! Driver plumbing shared by every property: cases, violations, known findings, replay files,
//! evidence, parallel map.

use serde_json::{json, Value};
use std::collections::BTreeMap;
use std::path::{Path, PathBuf};
use std::sync::atomic::{AtomicUsize, Ordering};
use std::time::Instant;

#[derive(Clone, Copy, Debug, PartialEq, Eq)]
pub enum Tier {
    Quick,
    Thorough,
}
impl Tier {
    pub fn s(self) -> &'static str {
        match self {
            Tier::Quick => "quick",
            Tier::Thorough => "thorough",
        }
    }
    pub fn g(self) -> wgen::Tier {
        match self {
            Tier::Quick => wgen::Tier::Quick,
            Tier::Thorough => wgen::Tier::Thorough,
        }
    }
}

pub struct Args {
    pub id: String,
    pub tier: Tier,
    pub seed: u64,
    pub repo: PathBuf,
    pub verif: PathBuf,
    pub replay: Option<PathBuf>,
    pub threads: usize,
    /// wall budget in seconds for the exploration part (a cap; reported when hit)
    pub budget_s: f64,
}

/// One explored case in self-contained form (also the content of a replay file).
#[derive(Clone, Debug)]
pub struct Case {
    pub family: String,
    pub coords: String,
    pub wasm: Vec<u8>,
    /// property-specific configuration / history
    pub cfg: Value,
}

impl Case {
    pub fn of(m: &wgen::Member) -> Case {
        Case { family: m.family.to_string(), coords: m.coords.clone(), wasm: m.wasm.clone(), cfg: json!({}) }
    }
    pub fn with(mut self, cfg: Value) -> Case {
        self.cfg = cfg;
        self
    }
}

#[derive(Clone, Debug)]
pub struct Violation {
    pub property: String,
    pub signature: String,
    pub detail: String,
    pub case: Case,
}

impl Violation {
    pub fn new(p: &str, sig: impl Into<String>, detail: impl Into<String>, case: &Case) -> Violation {
        Violation { property: p.to_string(), signature: sig.into(), detail: detail.into(), case: case.clone() }
    }
}

#[derive(Clone, Debug)]
pub struct KnownFinding {
    pub property: String,
    pub signature: String,
    pub prefix: bool,
    pub status: String,
    pub what_fails: String,
}

pub fn load_known(verif: &Path) -> Result<Vec<KnownFinding>, String> {
    let p = verif.join("known_findings.json");
    let txt = match std::fs::read_to_string(&p) {
        Ok(t) => t,
        Err(_) => return Ok(vec![]),
    };
    let v: Value = serde_json::from_str(&txt).map_err(|e| format!("known_findings.json: {}", e))?;
    let mut out = vec![];
    for e in v.as_array().ok_or("known_findings.json: not a list")? {
        out.push(KnownFinding {
            property: e["property"].as_str().unwrap_or("").to_string(),
            signature: e["signature"].as_str().unwrap_or("").to_string(),
            prefix: e["match"].as_str() == Some("prefix"),
            status: e["status"].as_str().unwrap_or("").to_string(),
            what_fails: e["what_fails"].as_str().unwrap_or("").to_string(),
        });
    }
    Ok(out)
}

pub struct Ev {
    pub property: String,
    pub level: &'static str,
    pub t0: Instant,
    pub evaluations: u64,
    pub states: u64,
    pub transitions: u64,
    pub nontrivial: u64,
    pub exhaustive: bool,
    pub cap_hit: bool,
    pub rule: String,
    pub bounds: Value,
    pub families: BTreeMap<String, Value>,
    pub samples: Vec<Value>,
    pub notes: Vec<String>,
    pub assumptions: Vec<String>,
    pub extra: BTreeMap<String, Value>,
    pub max_depth: u64,
}

impl Ev {
    pub fn new(p: &str) -> Ev {
        Ev {
            property: p.to_string(),
            level: "model_checking",
            t0: Instant::now(),
            evaluations: 0,
            states: 0,
            transitions: 0,
            nontrivial: 0,
            exhaustive: true,
            cap_hit: false,
            rule: String::new(),
            bounds: json!({}),
            families: BTreeMap::new(),
            samples: vec![],
            notes: vec![],
            assumptions: vec![],
            extra: BTreeMap::new(),
            max_depth: 0,
        }
    }
    pub fn note(&mut self, s: impl Into<String>) {
        let s = s.into();
        if self.notes.len() < 40 && !self.notes.contains(&s) {
            self.notes.push(s);
        }
    }
    pub fn sample(&mut self, v: Value) {
        if self.samples.len() < 8 {
            self.samples.push(v);
        }
    }
}

pub struct Outcome {
    pub violations: Vec<Violation>,
}

static PANICS: AtomicUsize = AtomicUsize::new(0);

pub fn silence_panics() {
    let verbose = std::env::var("WCHECK_PANIC_VERBOSE").is_ok();
    std::panic::set_hook(Box::new(move |info| {
        PANICS.fetch_add(1, Ordering::Relaxed);
        let loc = info.location().map(|l| format!("{}:{}", l.file(), l.line())).unwrap_or_default();
        // panics raised inside the harness itself (not inside walrus or its dependencies) are
        // machinery failures and must be loud
        let ours = loc.contains("wcheck/src") || loc.contains("wmodel/src") || loc.contains("wgen/src") || loc.contains("wdwarf/src");
        if verbose || ours {
            eprintln!("PANIC at {}: {}", loc, info);
        }
    }));
}
pub fn panics_seen() -> usize {
    PANICS.load(Ordering::Relaxed)
}

pub fn panic_msg(e: Box<dyn std::any::Any + Send>) -> String {
    if let Some(s) = e.downcast_ref::<&str>() {
        s.to_string()
    } else if let Some(s) = e.downcast_ref::<String>() {
        s.clone()
    } else {
        "non-string panic".to_string()
    }
}

/// Parallel map over items with `threads` workers, preserving order, with a wall cap.
/// Returns (results for the items that were processed, number processed).
pub fn pmap<T: Sync, R: Send>(items: &[T], threads: usize, deadline: Option<Instant>, f: impl Fn(&T) -> R + Sync) -> (Vec<Option<R>>, usize) {
    let next = AtomicUsize::new(0);
    let n = items.len();
    let mut slots: Vec<Option<R>> = Vec::with_capacity(n);
    for _ in 0..n {
        slots.push(None);
    }
    let slots_ptr = std::sync::Mutex::new(&mut slots);
    let done = AtomicUsize::new(0);
    std::thread::scope(|s| {
        for _ in 0..threads.max(1) {
            s.spawn(|| {
                let mut local: Vec<(usize, R)> = vec![];
                loop {
                    if let Some(d) = deadline {
                        if Instant::now() > d {
                            break;
                        }
                    }
                    // grab a small batch (single items when there are few, heavy ones)
                    let bs = if n < 4096 { 1 } else { 16 };
                    let start = next.fetch_add(bs, Ordering::Relaxed);
                    if start >= n {
                        break;
                    }
                    for i in start..(start + bs).min(n) {
                        local.push((i, f(&items[i])));
                    }
                    if local.len() >= 256 {
                        let mut g = slots_ptr.lock().unwrap();
                        for (i, r) in local.drain(..) {
                            g[i] = Some(r);
                            done.fetch_add(1, Ordering::Relaxed);
                        }
                    }
                }
                let mut g = slots_ptr.lock().unwrap();
                for (i, r) in local.drain(..) {
                    g[i] = Some(r);
                    done.fetch_add(1, Ordering::Relaxed);
                }
            });
        }
    });
    let d = done.load(Ordering::Relaxed);
    (slots, d)
}

/// Shrink + dedup + known-findings matching + replay files + evidence + exit code.
pub fn finish(
    args: &Args,
    mut ev: Ev,
    violations: Vec<Violation>,
    recheck: &dyn Fn(&Case) -> Vec<Violation>,
) -> i32 {
    let known = match load_known(&args.verif) {
        Ok(k) => k,
        Err(e) => {
            eprintln!("MACHINERY: {}", e);
            return 2;
        }
    };
    // group by signature, keep the smallest case per signature
    let mut by_sig: BTreeMap<String, (Violation, usize)> = BTreeMap::new();
    for v in violations {
        let e = by_sig.entry(v.signature.clone()).or_insert_with(|| (v.clone(), 0));
        e.1 += 1;
        if v.case.wasm.len() < e.0.case.wasm.len() {
            e.0 = v;
        }
    }
    let mut n_viol = 0;
    let mut known_seen = vec![];
    let mut lines = vec![];
    let dir = args.verif.join("replays").join(&args.id);
    let mut machinery_fail = false;
    for (k, (sig, (v, count))) in by_sig.iter().enumerate() {
        // re-execute from the self-contained case: the same input must fail the same way
        let again = recheck(&v.case);
        let reproduced = again.iter().any(|w| &w.signature == sig);
        if !reproduced {
            eprintln!(
                "MACHINERY: violation {} did not reproduce on re-execution (flaky oracle); case {}:{}",
                sig, v.case.family, v.case.coords
            );
            ev.note(format!("non-reproducible candidate violation {} dropped as machinery error", sig));
            machinery_fail = true;
            continue;
        }
        let kf = known.iter().find(|f| {
            f.property == v.property && f.status == "known" && (if f.prefix { sig.starts_with(&f.signature) } else { &f.signature == sig })
        });
        if let Some(f) = kf {
            lines.push(format!("KNOWN-FINDING: property={} {} [signature {}; {} case(s)]", v.property, f.what_fails, sig, count));
            known_seen.push(sig.clone());
            continue;
        }
        n_viol += 1;
        let _ = std::fs::create_dir_all(&dir);
        let path = dir.join(format!("{}.json", k));
        let rec = json!({
            "property": v.property, "signature": sig, "detail": v.detail,
            "family": v.case.family, "coords": v.case.coords, "config": v.case.cfg,
            "input_hex": wmodel::hex(&v.case.wasm), "occurrences": count, "reproduced": true,
            "tier": args.tier.s(), "seed": args.seed,
        });
        let _ = std::fs::write(&path, serde_json::to_string_pretty(&rec).unwrap());
        let rel = path.strip_prefix(&args.verif).unwrap_or(&path).display().to_string();
        lines.push(format!("VIOLATION property={} replay={}", v.property, rel));
        eprintln!("  signature: {}\n  detail: {}\n  case: {}:{}", sig, v.detail, v.case.family, v.case.coords);
    }
    let wall = ev.t0.elapsed().as_secs_f64();
    let mut cov = serde_json::Map::new();
    cov.insert("states".into(), json!(ev.states.max(1)));
    cov.insert("transitions".into(), json!(ev.transitions.max(1)));
    cov.insert("traces_validated_against_impl".into(), json!(ev.evaluations));
    cov.insert("evaluations".into(), json!(ev.evaluations));
    cov.insert("distinct_nontrivial".into(), json!(ev.nontrivial));
    cov.insert("exhaustive".into(), json!(ev.exhaustive && !ev.cap_hit));
    cov.insert("cap_hit".into(), json!(ev.cap_hit));
    cov.insert("rule".into(), json!(ev.rule));
    cov.insert("bounds".into(), ev.bounds.clone());
    cov.insert("families".into(), json!(ev.families));
    cov.insert("max_depth".into(), json!(ev.max_depth));
    cov.insert("known_findings_seen".into(), json!(known_seen));
    cov.insert("machinery_notes".into(), json!(ev.notes));
    cov.insert("panics_caught".into(), json!(panics_seen()));
    if ev.samples.is_empty() {
        ev.samples.push(json!("no case explored"));
    }
    cov.insert("samples".into(), json!(ev.samples));
    for (k, v) in &ev.extra {
        cov.insert(k.clone(), v.clone());
    }
    let evidence = json!({
        "property_id": ev.property, "tier": args.tier.s(), "seed": args.seed, "level": ev.level,
        "coverage": Value::Object(cov), "assumptions": ev.assumptions, "wall_s": wall, "violations": n_viol,
    });
    let evdir = args.verif.join("evidence");
    let _ = std::fs::create_dir_all(&evdir);
    if args.replay.is_none() {
        if let Err(e) = std::fs::write(evdir.join(format!("{}.json", ev.property)), serde_json::to_string_pretty(&evidence).unwrap()) {
            eprintln!("MACHINERY: cannot write evidence: {}", e);
            return 2;
        }
    }
    for l in &lines {
        println!("{}", l);
    }
    println!(
        "{} {}: evaluations={} states={} transitions={} nontrivial={} exhaustive={} wall={:.1}s violations={} known={}",
        ev.property,
        args.tier.s(),
        ev.evaluations,
        ev.states,
        ev.transitions,
        ev.nontrivial,
        ev.exhaustive && !ev.cap_hit,
        wall,
        n_viol,
        known_seen.len()
    );
    if n_viol > 0 {
        1
    } else if machinery_fail {
        2
    } else {
        0
    }
}

pub fn read_replay(p: &Path) -> Result<(Case, String), String> {
    let txt = std::fs::read_to_string(p).map_err(|e| e.to_string())?;
    let v: Value = serde_json::from_str(&txt).map_err(|e| e.to_string())?;
    Ok((
        Case {
            family: v["family"].as_str().unwrap_or("").to_string(),
            coords: v["coords"].as_str().unwrap_or("").to_string(),
            wasm: wmodel::unhex(v["input_hex"].as_str().unwrap_or("")),
            cfg: v["config"].clone(),
        },
        v["signature"].as_str().unwrap_or("").to_string(),
    ))
}
