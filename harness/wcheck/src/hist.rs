//! Explicit-state exploration of operation histories over a real object (DESIGN §3.4).
//! A state is the history that produced it; successors are built by *replay* on a fresh object
//! (live walrus modules cannot be cloned); states are de-duplicated on a canonical observation;
//! the oracle is evaluated in every state.  Breadth-first, level-synchronous, so the first
//! violation has the shortest history.

use std::collections::HashSet;
use std::fmt::Debug;
use std::panic::{catch_unwind, AssertUnwindSafe};

pub trait Subject {
    type Op: Clone + Debug;
    type Obj;
    /// a fresh object in the initial state
    fn fresh(&self) -> Result<Self::Obj, String>;
    /// operations enabled after `hist`
    fn ops(&self, hist: &[Self::Op]) -> Vec<Self::Op>;
    /// apply one operation (panics are caught by the explorer)
    fn apply(&self, obj: &mut Self::Obj, op: &Self::Op, at: usize) -> Result<(), Finding>;
    /// canonical observation of the state reached by `hist` (may consume / mutate `obj`: the
    /// explorer never reuses it) plus oracle verdicts for this state
    fn observe(&self, obj: Self::Obj, hist: &[Self::Op]) -> (u64, Vec<Finding>);
}

#[derive(Clone, Debug)]
pub struct Finding {
    pub sig: String,
    pub detail: String,
}

#[derive(Default, Debug, Clone)]
pub struct Stats {
    pub states: u64,
    pub transitions: u64,
    pub max_depth: u64,
    pub merged: u64,
}

pub struct Found<Op> {
    pub hist: Vec<Op>,
    pub finding: Finding,
}

/// replay `hist` on a fresh object and observe; Err = a finding raised while replaying
pub fn replay<S: Subject>(s: &S, hist: &[S::Op]) -> Result<(u64, Vec<Finding>), Finding> {
    let r = catch_unwind(AssertUnwindSafe(|| -> Result<(u64, Vec<Finding>), Finding> {
        let mut obj = s.fresh().map_err(|e| Finding { sig: "fresh-failed".into(), detail: e })?;
        for (i, op) in hist.iter().enumerate() {
            s.apply(&mut obj, op, i)?;
        }
        Ok(s.observe(obj, hist))
    }));
    match r {
        Ok(x) => x,
        Err(p) => {
            let msg = crate::core::panic_msg(p);
            Err(Finding { sig: format!("panic:{}", crate::pipe::norm_panic(&msg)), detail: format!("panic while replaying {:?}: {}", hist, msg) })
        }
    }
}

pub fn explore<S: Subject>(s: &S, depth: usize) -> (Stats, Vec<Found<S::Op>>) {
    let mut st = Stats::default();
    let mut found = vec![];
    let mut seen: HashSet<u64> = HashSet::new();
    let mut frontier: Vec<Vec<S::Op>> = vec![];
    // initial state
    match replay(s, &[]) {
        Ok((d, fs)) => {
            seen.insert(d);
            st.states = 1;
            for f in fs {
                found.push(Found { hist: vec![], finding: f });
            }
            frontier.push(vec![]);
        }
        Err(f) => {
            found.push(Found { hist: vec![], finding: f });
            return (st, found);
        }
    }
    for level in 0..depth {
        let mut next = vec![];
        for h in &frontier {
            for op in s.ops(h) {
                let mut h2 = h.clone();
                h2.push(op);
                st.transitions += 1;
                match replay(s, &h2) {
                    Ok((d, fs)) => {
                        let new = seen.insert(d);
                        if new {
                            st.states += 1;
                            st.max_depth = st.max_depth.max(level as u64 + 1);
                        } else {
                            st.merged += 1;
                        }
                        // findings may belong to the *transition* (raised while applying the
                        // operation), so they are reported even when the resulting state was
                        // seen before; only the expansion is skipped for merged states
                        for f in fs {
                            found.push(Found { hist: h2.clone(), finding: f });
                        }
                        if new {
                            next.push(h2);
                        }
                    }
                    Err(f) => {
                        // the transition itself failed (panic / refusal): a terminal state
                        found.push(Found { hist: h2, finding: f });
                    }
                }
            }
        }
        frontier = next;
        if frontier.is_empty() {
            break;
        }
    }
    (st, found)
}
