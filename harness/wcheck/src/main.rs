mod core;
mod hist;
mod pipe;
mod props;
mod sweep;

use crate::core::*;
use std::path::PathBuf;

fn main() {
    let av: Vec<String> = std::env::args().collect();
    if av.len() < 2 {
        eprintln!("usage: wcheck <ID> [--tier quick|thorough] [--seed N] [--repo PATH] [--verif PATH] [--replay FILE]");
        std::process::exit(2);
    }
    let mut args = Args {
        id: av[1].clone(),
        tier: Tier::Quick,
        seed: 0,
        repo: PathBuf::from("/repo"),
        verif: PathBuf::from("/verif"),
        replay: None,
        threads: std::thread::available_parallelism().map(|n| n.get()).unwrap_or(8).min(16),
        budget_s: 0.0,
    };
    let mut i = 2;
    while i < av.len() {
        match av[i].as_str() {
            "--tier" => {
                args.tier = if av[i + 1] == "thorough" { Tier::Thorough } else { Tier::Quick };
                i += 1;
            }
            "--seed" => {
                args.seed = av[i + 1].parse().unwrap_or(0);
                i += 1;
            }
            "--repo" => {
                args.repo = PathBuf::from(&av[i + 1]);
                i += 1;
            }
            "--verif" => {
                args.verif = PathBuf::from(&av[i + 1]);
                i += 1;
            }
            "--replay" => {
                let p = PathBuf::from(&av[i + 1]);
                args.replay = Some(if p.is_absolute() { p } else { args.verif.join(p) });
                i += 1;
            }
            "--threads" => {
                args.threads = av[i + 1].parse().unwrap_or(8);
                i += 1;
            }
            "--budget" => {
                args.budget_s = av[i + 1].parse().unwrap_or(0.0);
                i += 1;
            }
            x => {
                eprintln!("unknown argument {}", x);
                std::process::exit(2);
            }
        }
        i += 1;
    }
    if args.budget_s == 0.0 {
        args.budget_s = if args.tier == Tier::Quick { 120.0 } else { 1500.0 };
    }
    silence_panics();
    let code = match args.id.as_str() {
        "C03" => props::structural::run("C03", &args),
        "C04" => props::structural::run("C04", &args),
        "C05" => props::gate::run(&args),
        "C05-worker" => {
            let lo = std::env::var("C05_LO").ok().and_then(|x| x.parse().ok()).unwrap_or(0);
            let hi = std::env::var("C05_HI").ok().and_then(|x| x.parse().ok()).unwrap_or(0);
            props::gate::worker(&args, lo, hi, std::env::var("C05_ANNOUNCE").is_ok())
        }
        "C05-one" => props::gate::one(&std::env::var("C05_FILE").unwrap_or_default()),
        "C10" => props::dwarf::run(&args),
        "C11" => props::codemap::run(&args),
        "C09" => props::parallel::run(&args),
        "C18" => props::replace::run(&args),
        "C01" => props::bisim::run_c01(&args),
        "C06" => props::gcprops::run("C06", &args),
        "C07" => props::gcprops::run("C07", &args),
        "C16" => props::traverse::run(&args),
        "C16-depth-worker" => props::traverse::depth_worker(),
        "C15" => props::builder::run(&args),
        "C17" => props::ids::run(&args),
        "C14" => props::config::run(&args),
        "C13" => props::names::run(&args),
        "C19" => props::indexmaps::run(&args),
        "C02" => props::c02::run(&args),
        "C20" => props::features::run(&args),
        "C08" => props::modhist::run("C08", &args),
        "C12" => props::modhist::run("C12", &args),
        other => {
            eprintln!("MACHINERY: no check for {}", other);
            2
        }
    };
    std::process::exit(code);
}
