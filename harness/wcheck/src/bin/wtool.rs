//! small debugging tool: wtool struct <coords> | validate <hexfile>
use wmodel::*;
fn main() {
    let av: Vec<String> = std::env::args().collect();
    match av[1].as_str() {
        "struct" => {
            let w = wgen::families::struct_from_coords(&av[2]);
            println!("input valid214: {:?}", validate214(&w, FeatureSet::DEFAULT));
            println!("input valid259: {:?}", validate259(&w, FeatureSet::DEFAULT));
            let mut m = match walrus::Module::from_buffer(&w) { Ok(m) => m, Err(e) => { println!("walrus rejects: {:#}", e); return; } };
            if av.len() > 3 && av[3] == "gc" { walrus::passes::gc::run(&mut m); }
            let out = m.emit_wasm();
            println!("output valid214: {:?}", validate214(&out, FeatureSet::DEFAULT));
            let (a, b) = (decode(&w).unwrap(), decode(&out).unwrap());
            println!("iso: {:?}", iso(&a, &b, IsoMode::RoundTrip).map(|m| m.renumbered()));
            println!("in : {}", hex(&w));
            println!("out: {}", hex(&out));
        }
        "censusrt" => {
            let (entries, _) = wgen::opcensus::census(false, Some(2), 16);
            for e in &entries { if e.op.contains(&av[2]) { println!("{}", e.coords()); println!("{}", hex(&e.module())); } }
        }
        "census" => {
            let (entries, rep) = wgen::opcensus::census(false, Some(2), 16);
            for e in &entries { if av.len() < 3 || e.op.contains(&av[2]) { println!("{}", e.coords()); } }
            println!("{} names; unexplained {:?}", rep.accepted_names.len(), rep.unexplained);
            if av.len() > 3 { for (k, v) in &rep.not_accepted { println!("  {} : {}", k, v); } }
        }
        "rt" => {
            let w = unhex(&av[2]);
            println!("input valid214: {:?}", validate214(&w, FeatureSet::DEFAULT));
            let mut m = match walrus::Module::from_buffer(&w) { Ok(m) => m, Err(e) => { println!("walrus rejects: {:#}", e); return; } };
            if av.len() > 3 && av[3] == "gc" { walrus::passes::gc::run(&mut m); }
            let out = m.emit_wasm();
            println!("output valid214: {:?}", validate214(&out, FeatureSet::DEFAULT));
            let (a, b) = (decode(&w).unwrap(), decode(&out).unwrap());
            println!("iso: {:?}", iso(&a, &b, IsoMode::RoundTrip).map(|m| m.renumbered()));
            println!("out: {}", hex(&out));
        }
        "famvalid" => {
            let ms = match av[2].as_str() { "ctrl" => wgen::families::ctrl_family(wgen::Tier::Quick), "idshift" => wgen::families::idshift_family(), "leb" => wgen::families::leb_family(wgen::Tier::Quick), "minimal" => wgen::families::minimal_family(), "names" => wgen::families::names_family(wgen::Tier::Quick), "locals" => wgen::families::locals_family(), "customs" => wgen::families::customs_family(wgen::Tier::Quick), _ => vec![] };
            let mut bad = 0;
            for m in &ms { if let Err(e) = validate214(&m.wasm, FeatureSet::DEFAULT) { bad += 1; if bad < 5 { println!("{} : {}", m.coords, e); } } }
            println!("{} members, {} invalid", ms.len(), bad);
        }
        "stateful" => {
            for (n, w) in wgen::stateful::stateful_modules() {
                if n != av[2] { continue; }
                let mut m = walrus::Module::from_buffer(&w).unwrap();
                let out = m.emit_wasm();
                let (a, b) = (decode(&w).unwrap(), decode(&out).unwrap());
                println!("iso: {:?}", iso(&a, &b, IsoMode::RoundTrip).map(|m| m.renumbered()));
                println!("in : {}", hex(&w));
                println!("out: {}", hex(&out));
            }
        }
        "reachvalid" => {
            let ms = wgen::families::reach_family(wgen::Tier::Quick);
            let mut bad = 0;
            for m in &ms { if let Err(e) = validate214(&m.wasm, FeatureSet::DEFAULT) { bad += 1; if bad < 8 { println!("{} : {}", m.coords, e); } } }
            println!("{} members, {} invalid", ms.len(), bad);
        }
        "dwarf" => {
            let n: usize = av[2].parse().unwrap();
            let w = wgen::families::build_leb_x(n, 0, 8, false, false);
            let a = decode(&w).unwrap();
            let o = wdwarf::Opts { version: av[3].parse().unwrap(), one_sequence: false, file_index: 0, low_pc: wdwarf::LowPc::Body, range_form: wdwarf::RangeForm::Offset, nested: false };
            let secs = wdwarf::synthesize(&a, o).unwrap();
            let mut input = w.clone();
            for (n, d) in &secs { wgen::families::append_custom(&mut input, n, d); }
            let ain = decode(&input).unwrap();
            println!("input code_contents_start={:?} funcs:", ain.code_contents_start);
            for f in ain.funcs.iter() { if let Some(b) = &f.body { println!("  entry {:?} body {:?} ops {:?}", b.entry, b.body, b.ops.iter().map(|o| (o.0.name, o.1)).collect::<Vec<_>>()); } }
            let rb = wdwarf::read_back(&wdwarf::debug_sections_of(&ain)).unwrap();
            println!("input rows: {:?}", rb.rows.iter().map(|r| (r.address, r.line, r.end_sequence)).collect::<Vec<_>>());
            println!("input subs: {:?}", rb.subprograms);
            let mut cfg = walrus::ModuleConfig::new(); cfg.generate_dwarf(true);
            let mut m = cfg.parse(&input).unwrap();
            let out = m.emit_wasm();
            let b = decode(&out).unwrap();
            println!("output code_contents_start={:?}", b.code_contents_start);
            for f in b.funcs.iter() { if let Some(bb) = &f.body { println!("  entry {:?} body {:?} ops {:?}", bb.entry, bb.body, bb.ops.iter().map(|o| (o.0.name, o.1)).collect::<Vec<_>>()); } }
            match wdwarf::read_back(&wdwarf::debug_sections_of(&b)) {
                Ok(rb) => { println!("output rows: {:?}", rb.rows.iter().map(|r| (r.address, r.line, r.end_sequence)).collect::<Vec<_>>()); println!("output subs: {:?}", rb.subprograms); }
                Err(e) => println!("read back error {}", e),
            }
        }
        "bodies" => {
            let l: usize = av[2].parse().unwrap();
            let alpha = wgen::body::alphabet();
            let t = std::time::Instant::now();
            let mut n = 0; let mut v = 0;
            for f in 0..alpha.len() { let (m, vv) = wgen::body::enumerate(&alpha, l, Some(f)); n += m.len(); v += vv; }
            println!("L<={}: members={} validations={} in {:?}", l, n, v, t.elapsed());
        }
        _ => {}
    }
}
