//! small debugging tool: wtool struct <coords> | validate <hexfile>
use wmodel::*;
fn main() {
    let av: Vec<String> = std::env::args().collect();
    match av[1].as_str() {
        "struct" => {
            let w = wgen::families::struct_from_coords(&av[2]);
            println!("input valid214: {:?}", validate214(&w, FeatureSet::DEFAULT));
            println!("input valid259: {:?}", validate259(&w, FeatureSet::DEFAULT));
            let mut m = match walrus::Module::from_buffer(&w) { Ok(m) => m, Err(e) => { println!("walrus rejects: {:#}", e); return; } };
            if av.len() > 3 && av[3] == "gc" { walrus::passes::gc::run(&mut m); }
            let out = m.emit_wasm();
            println!("output valid214: {:?}", validate214(&out, FeatureSet::DEFAULT));
            let (a, b) = (decode(&w).unwrap(), decode(&out).unwrap());
            println!("iso: {:?}", iso(&a, &b, IsoMode::RoundTrip).map(|m| m.renumbered()));
            println!("in : {}", hex(&w));
            println!("out: {}", hex(&out));
        }
        _ => {}
    }
}
