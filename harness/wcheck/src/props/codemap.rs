//! C11: the code-offset map handed to custom sections is exact.

use crate::core::*;
use crate::pipe::*;
use crate::sweep::*;
use serde_json::json;
use std::borrow::Cow;
use std::sync::{Arc, Mutex};
use walrus::*;
use wmodel::{decode, iso, IsoMode, Space, WModule};

#[derive(Default, Debug)]
pub struct Seen {
    pub pairs: Vec<(u32, usize)>,
    pub code_section_start: usize,
    pub ranges: Vec<(FunctionId, std::ops::Range<usize>)>,
    pub range_indices: Vec<(u32, std::ops::Range<usize>)>,
    pub applied: usize,
}

#[derive(Debug)]
pub struct Spy(pub Arc<Mutex<Seen>>);

impl CustomSection for Spy {
    fn name(&self) -> &str {
        "ct-spy"
    }
    fn data(&self, ids: &IdsToIndices) -> Cow<'_, [u8]> {
        let mut s = self.0.lock().unwrap();
        let r: Vec<(u32, std::ops::Range<usize>)> = s.ranges.iter().map(|(f, r)| (ids.get_func_index(*f), r.clone())).collect();
        s.range_indices = r;
        Cow::Borrowed(&[])
    }
    fn apply_code_transform(&mut self, t: &CodeTransform) {
        let mut s = self.0.lock().unwrap();
        s.applied += 1;
        s.pairs = t.instruction_map.iter().map(|(l, o)| (l.data(), *o)).collect();
        s.code_section_start = t.code_section_start;
        s.ranges = t.function_ranges.clone();
    }
}

/// insert `i32.const 0; drop` at the start of local function #k of the input (byte surgery on the
/// code section), returning the new binary: the *expected* module for the "inserted" edit
pub fn insert_at_start(wasm: &[u8], a: &WModule, local_k: usize) -> Option<Vec<u8>> {
    insert_at(wasm, a, local_k, 0)
}

/// position (= operator index = index in the entry sequence) for the edits that splice into the
/// middle / at the end of the first local function; None when the function is not straight-line
/// (nops, nested sequences or dead code make operator indices and sequence positions differ)
pub fn splice_position(a: &WModule, edit: &str) -> Option<usize> {
    let body = a.funcs.iter().filter_map(|f| f.body.as_ref()).next()?;
    if edit == "insert" {
        return Some(0);
    }
    let straight = body.ops.iter().all(|(o, _)| !matches!(o.name, "Nop" | "Block" | "Loop" | "If" | "Else" | "Br" | "BrIf" | "BrTable" | "Return" | "Unreachable" | "ReturnCall" | "ReturnCallIndirect"));
    if !straight || body.ops.len() < 3 {
        return None;
    }
    Some(if edit == "insert-mid" { 2.min(body.ops.len() - 1) } else { body.ops.len() - 1 })
}

/// `i32.const 0; drop` spliced in front of operator #`op_index` of local function #`local_k`
pub fn insert_at(wasm: &[u8], a: &WModule, local_k: usize, op_index: usize) -> Option<Vec<u8>> {
    insert_bytes_at(wasm, a, local_k, op_index, &[0x41u8, 0x00, 0x1a])
}

/// where a block can be appended to the entry sequence of the first local function: in front of the
/// function's final `end`, provided no operator of the entry sequence itself transfers control
/// (the appended block would be dead code and the operator correspondence a different one)
pub fn append_position(a: &WModule) -> Option<usize> {
    let body = a.funcs.iter().filter_map(|f| f.body.as_ref()).next()?;
    let mut depth = 0i32;
    for (o, _) in &body.ops {
        match o.name {
            "Block" | "Loop" | "If" => depth += 1,
            "End" => depth -= 1,
            "Br" | "BrTable" | "Return" | "Unreachable" | "ReturnCall" | "ReturnCallIndirect" if depth == 0 => return None,
            _ => {}
        }
    }
    Some(body.ops.len() - 1)
}

pub fn insert_bytes_at(wasm: &[u8], a: &WModule, local_k: usize, op_index: usize, ins: &[u8]) -> Option<Vec<u8>> {
    let locals: Vec<&wmodel::Body> = a.funcs.iter().filter_map(|f| f.body.as_ref()).collect();
    let target = locals.get(local_k)?;
    let first_op = target.ops.get(op_index)?.1 as usize;
    // rebuild the code section
    let cstart = a.code_contents_start? as usize;
    // find the section header: id 10 followed by the size LEB ending right before cstart
    let mut hdr = cstart;
    loop {
        hdr -= 1;
        if wasm[hdr] == 10 {
            // check that the LEB after it decodes to the section size and ends at cstart
            let mut v = 0usize;
            let mut sh = 0;
            let mut p = hdr + 1;
            loop {
                let b = wasm[p];
                p += 1;
                v |= ((b & 0x7f) as usize) << sh;
                sh += 7;
                if b & 0x80 == 0 {
                    break;
                }
            }
            if p == cstart {
                let _ = v;
                break;
            }
        }
        if cstart - hdr > 6 {
            return None;
        }
    }
    let cend = locals.last()?.entry.end as usize;
    let mut body = vec![];
    body.extend_from_slice(&wasm[cstart..locals[0].entry.start as usize]); // count LEB
    for (k, b) in locals.iter().enumerate() {
        if k == local_k {
            let mut nb = wasm[b.body.start as usize..first_op].to_vec();
            nb.extend_from_slice(ins);
            nb.extend_from_slice(&wasm[first_op..b.body.end as usize]);
            wgen::mb::uleb(nb.len() as u64, &mut body);
            body.extend_from_slice(&nb);
        } else {
            body.extend_from_slice(&wasm[b.entry.start as usize..b.entry.end as usize]);
        }
    }
    let mut out = wasm[..hdr].to_vec();
    out.push(10);
    wgen::mb::uleb(body.len() as u64, &mut out);
    out.extend_from_slice(&body);
    out.extend_from_slice(&wasm[cend..]);
    Some(out)
}

pub fn check_case(c: &Case) -> CaseResult {
    let mut r = CaseResult::default();
    let edit = c.cfg.get("edit").and_then(|x| x.as_str()).unwrap_or("none").to_string();
    if wmodel::validate214(&c.wasm, wmodel::FeatureSet::DEFAULT).is_err() {
        return r;
    }
    r.valid_input = true;
    let a = match decode(&c.wasm) {
        Ok(a) => a,
        Err(_) => return r,
    };
    // how code-transform preservation was switched on: directly, or implied by generate_dwarf(true)
    // (with or without DWARF in the input: the DWARF sections are appended after everything else,
    // so every code offset of the input stays what it is)
    let how = c.cfg.get("how").and_then(|x| x.as_str()).unwrap_or("preserve");
    let cfg = match how {
        "dwarf" | "dwarf-input" => Cfg { dwarf: true, ..Cfg::default() },
        "both" => Cfg { dwarf: true, preserve_ct: true, ..Cfg::default() },
        _ => Cfg { preserve_ct: true, ..Cfg::default() },
    };
    let mut input = c.wasm.clone();
    if how == "dwarf-input" {
        for (n, d) in wdwarf::minimal_sections(&c.wasm) {
            wgen::families::append_custom(&mut input, &n, &d);
        }
    }
    // "on-instr-loc": the user supplies the location ids (here: position + 7); the input half of every
    // pair is then whatever that callback returned for the instruction, i.e. its position + 7
    let loc_shift: u32 = if how == "on-instr-loc" { 7 } else { 0 };
    let parsed = if how == "on-instr-loc" {
        let mut wc = cfg.config();
        wc.on_instr_loc(|pos| InstrLocId::new(*pos as u32 + 7));
        match std::panic::catch_unwind(std::panic::AssertUnwindSafe(|| wc.parse(&input))) {
            Ok(Ok(m)) => Ok(m),
            _ => Err(()),
        }
    } else {
        parse(&input, &cfg).map_err(|_| ())
    };
    let mut m = match parsed {
        Ok(m) => m,
        Err(_) => return r,
    };
    r.transitions = 2;
    // the reference module against which the output is aligned
    let mut reference = a.clone();
    let mut shift_func: Option<u32> = None;
    let mut shift_at = 0usize;
    let mut shift_n = 2usize;
    match edit.as_str() {
        "gc" => {
            if gc(&mut m).is_err() {
                return r;
            }
        }
        "insert-block-end" => {
            // a structured instruction appended through the positional API: block { i32.const 0; drop }
            let pos_in = match append_position(&a) {
                Some(p) => p,
                None => return r,
            };
            let fid = match m.funcs.iter_local().map(|(id, _)| id).next() {
                Some(f) => f,
                None => return r,
            };
            let lf = m.funcs.get_mut(fid).kind.unwrap_local_mut();
            let pos = lf.block(lf.entry_block()).instrs.len();
            lf.builder_mut().func_body().block_at(pos, None, |b| {
                b.i32_const(0).drop();
            });
            let nb = match insert_bytes_at(&c.wasm, &a, 0, pos_in, &[0x02, 0x40, 0x41, 0x00, 0x1a, 0x0b]) {
                Some(b) => b,
                None => return r,
            };
            reference = match decode(&nb) {
                Ok(x) => x,
                Err(_) => return r,
            };
            shift_func = Some(a.num_imported_funcs() as u32);
            shift_at = pos_in;
            shift_n = 4;
        }
        "insert" | "insert-mid" | "insert-end" => {
            // first local function in input order
            let k = 0usize;
            let pos = match splice_position(&a, &edit) {
                Some(p) => p,
                None => return r,
            };
            shift_at = pos;
            let fid = match m.funcs.iter_local().map(|(id, _)| id).next() {
                Some(f) => f,
                None => return r,
            };
            m.funcs.get_mut(fid).kind.unwrap_local_mut().builder_mut().func_body().const_at(pos, ir::Value::I32(0)).drop_at(pos + 1);
            let nb = match insert_at(&c.wasm, &a, k, pos) {
                Some(b) => b,
                None => {
                    r.note = Some(format!("C11: could not build the expected module for the insert edit on {}:{}", c.family, c.coords));
                    return r;
                }
            };
            reference = match decode(&nb) {
                Ok(x) => x,
                Err(e) => {
                    r.note = Some(format!("C11: expected module for insert edit undecodable: {}", e));
                    return r;
                }
            };
            shift_func = Some(a.num_imported_funcs() as u32);
        }
        "add-func" | "add-small-func" => {
            // a whole new function through the builder (no input locations): larger than every small
            // parsed function, so that the size sort emits it in front of them - or a tiny one that goes last
            let n = if edit == "add-func" { 12 } else { 1 };
            let mut fb = FunctionBuilder::new(&mut m.types, &[], &[]);
            {
                let mut body = fb.func_body();
                for k in 0..n {
                    body.i32_const(91000 + k).drop();
                }
            }
            let f = fb.finish(vec![], &mut m.funcs);
            m.exports.add("added-by-edit", f);
        }
        _ => {}
    }
    let added = edit == "add-func" || edit == "add-small-func";
    let seen = Arc::new(Mutex::new(Seen::default()));
    m.customs.add(Spy(seen.clone()));
    let out = match emit(&mut m) {
        Ok(o) => o,
        Err(_) => return r,
    };
    r.digests.push(wmodel::fnv(&out));
    let b = match decode(&out) {
        Ok(b) => b,
        Err(_) => return r,
    };
    let maps = match iso(&reference, &b, if edit == "gc" { IsoMode::Gc } else if added { IsoMode::Extended } else { IsoMode::RoundTrip }) {
        Ok(m) => m,
        Err(e) => {
            r.note = Some(format!("C11: {}:{} skipped, input/output not isomorphic ({})", c.family, c.coords, e[0].sig));
            return r;
        }
    };
    r.nontrivial = maps.renumbered() || maps.elided_ops > 0;
    let s = seen.lock().unwrap();
    let mut bad = |sig: String, d: String| r.violations.push(Violation::new("C11", sig, d, c));
    if s.applied != 1 {
        bad("apply-code-transform-count".into(), format!("apply_code_transform called {} times", s.applied));
        return r;
    }
    // input offset -> (function, op index) in the *original* input
    let mut by_off: std::collections::HashMap<u32, (u32, usize)> = std::collections::HashMap::new();
    for (fi, f) in a.funcs.iter().enumerate() {
        if let Some(body) = &f.body {
            for (k, (_, off)) in body.ops.iter().enumerate() {
                by_off.insert(*off as u32, (fi as u32, k));
            }
        }
    }
    // expected output offset of original-input operator (fi,k)
    let expected = |fi: u32, k: usize| -> Option<u64> {
        let kk = if shift_func == Some(fi) && k >= shift_at { k + shift_n } else { k };
        let corr = maps.bodies.get(&fi)?;
        let j = (*corr.op_map.get(kk)?)?;
        let bf = &b.funcs[corr.b as usize];
        Some(bf.body.as_ref()?.ops[j].1)
    };
    let mut hit: std::collections::HashMap<(u32, usize), usize> = std::collections::HashMap::new();
    for (inoff, outoff) in &s.pairs {
        let inoff = &inoff.wrapping_sub(loc_shift);
        match by_off.get(inoff) {
            None => bad("pair-input-offset-not-an-instruction".into(), format!("pair ({}, {}): no input instruction starts at {}", inoff, outoff, inoff)),
            Some((fi, k)) => {
                *hit.entry((*fi, *k)).or_default() += 1;
                let name = a.funcs[*fi as usize].body.as_ref().unwrap().ops[*k].0.name;
                match expected(*fi, *k) {
                    Some(e) if e == *outoff as u64 => {}
                    Some(e) => bad(
                        format!("pair-wrong-output-offset:{}", name),
                        format!("input {} #{} of function {} at {} is emitted at {}, the pair says {}", name, k, fi, inoff, e, outoff),
                    ),
                    None => {
                        // the instruction did not survive (elided / function removed)
                        if maps.f(Space::Func, *fi).is_some() {
                            bad(format!("pair-for-removed-instruction:{}", name), format!("input {} #{} of function {} was elided but has a pair ({} -> {})", name, k, fi, inoff, outoff));
                        }
                    }
                }
            }
        }
    }
    // every surviving input operator appears in exactly one pair
    for (fi, f) in a.funcs.iter().enumerate() {
        let fi = fi as u32;
        if let Some(body) = &f.body {
            if maps.f(Space::Func, fi).is_none() {
                continue;
            }
            for (k, (op, _)) in body.ops.iter().enumerate() {
                if expected(fi, k).is_some() {
                    let n = hit.get(&(fi, k)).copied().unwrap_or(0);
                    if n != 1 {
                        bad(
                            format!("surviving-instruction-in-{}-pairs:{}", n.min(2), op.name),
                            format!("input {} #{} of function {} survives but appears in {} pairs", op.name, k, fi, n),
                        );
                    }
                }
            }
        }
    }
    // function ranges
    let local_out: Vec<(u32, &wmodel::Body)> = b.funcs.iter().enumerate().filter_map(|(i, f)| f.body.as_ref().map(|x| (i as u32, x))).collect();
    if s.range_indices.len() != local_out.len() {
        bad("function-ranges-count".into(), format!("{} ranges for {} emitted functions", s.range_indices.len(), local_out.len()));
    }
    for (idx, range) in &s.range_indices {
        match local_out.iter().find(|(i, _)| i == idx) {
            Some((_, body)) => {
                if body.entry.start != range.start as u64 || body.entry.end != range.end as u64 {
                    bad("function-range-wrong".into(), format!("function {}: entry occupies {:?}, reported {:?}", idx, body.entry, range));
                }
            }
            None => bad("function-range-unknown-function".into(), format!("range for function index {} which has no code entry", idx)),
        }
    }
    if let Some(cs) = b.code_contents_start {
        if cs != s.code_section_start as u64 {
            bad(
                format!("code-section-start:off-by-{}", cs as i64 - s.code_section_start as i64),
                format!("code section contents start at {}, reported {}", cs, s.code_section_start),
            );
        }
    }
    r
}

pub fn run(args: &Args) -> i32 {
    let mut ev = Ev::new("C11");
    if let Some(p) = &args.replay {
        let (case, _) = match read_replay(p) {
            Ok(x) => x,
            Err(e) => {
                eprintln!("MACHINERY: {}", e);
                return 2;
            }
        };
        ev.evaluations = 1;
        let v = check_case(&case).violations;
        return finish(args, ev, v, &|c| check_case(c).violations);
    }
    let ms = crate::props::families::members(&["funcs", "leb", "fixtures", "locals", "ctrl", "idshift", "minimal"], args, &mut ev);
    let mut base: Vec<Case> = ms.iter().map(Case::of).collect();
    base.extend(crate::props::bodies::cases(args, &mut ev));
    let mut cases = vec![];
    for b in base {
        for e in ["none", "insert", "gc", "insert-mid", "insert-end", "insert-block-end"] {
            if b.family == "body" && e == "gc" {
                continue;
            }
            cases.push(b.clone().with(json!({"edit": e})));
            if b.family != "body" && b.family != "fixtures" && e == "none" {
                for e2 in ["add-func", "add-small-func"] {
                    cases.push(b.clone().with(json!({"edit": e2})));
                }
            }
            if b.family != "body" && b.family != "fixtures" {
                for how in ["dwarf", "dwarf-input", "both", "on-instr-loc"] {
                    cases.push(b.clone().with(json!({"edit": e, "how": how})));
                }
            }
        }
    }
    ev.rule = "every member of body(L)/funcs/leb/locals/fixtures x {unchanged, two instructions inserted at the start of the first function, gc, a whole function added through the builder (one that is emitted first, one that is emitted last)} with preserve_code_transform(true), and for the generated families also with generate_dwarf(true) (which implies it) with and without DWARF in the input, and with location ids supplied by an `on_instr_loc` callback: a spy custom section copies the \
        CodeTransform; every (input offset, output offset) pair must name the first byte of an input operator and the first byte of the corresponding output operator (correspondence from iso; for the insert edit \
        against an expected module built by byte surgery); every surviving operator in exactly one pair; function ranges = code entries incl. size LEB; code_section_start = first byte of the code section contents. \
        non-trivial = walrus renumbered or elided something"
        .into();
    ev.bounds = json!({"tier": args.tier.s()});
    ev.assumptions = vec!["wmodel operator offsets (wasmparser 0.259) and iso operator correspondence".into()];
    let viol = run_sweep(args, &mut ev, &cases, &check_case);
    finish(args, ev, viol, &|c| check_case(c).violations)
}
