//! walrus public types -> wmodel plain data

use wmodel::VT;

pub fn vt(t: walrus::ValType) -> VT {
    match t {
        walrus::ValType::I32 => VT::I32,
        walrus::ValType::I64 => VT::I64,
        walrus::ValType::F32 => VT::F32,
        walrus::ValType::F64 => VT::F64,
        walrus::ValType::V128 => VT::V128,
        walrus::ValType::Ref(r) => rt(r),
    }
}
pub fn rt(r: walrus::RefType) -> VT {
    match r {
        walrus::RefType::Funcref => VT::FuncRef,
        walrus::RefType::Externref => VT::ExternRef,
        #[allow(unreachable_patterns)]
        _ => VT::Other("?".into()),
    }
}
pub fn vts(ts: &[walrus::ValType]) -> Vec<VT> {
    ts.iter().map(|t| vt(*t)).collect()
}
