use crate::core::*;
pub fn recheck(_c: &Case) -> Vec<Violation> { vec![] }
pub fn run_model(_args: &Args, _ev: &mut Ev) -> Vec<Violation> { vec![] }
