//! C02 part (b): explicit-state exploration of well-formed edit histories through the public
//! builder / edit APIs.  In every state: emit must not panic and the output must validate.
//! The same state space carries three more oracles: C08 (emission is repeatable, a fixpoint, and
//! an emit slipped in anywhere in the history changes nothing), C04 (histories made only of
//! additions leave everything that was there before as it was: the unedited output embeds in the
//! edited one, and exactly the added entities are new) and C07 (a history that ends in gc leaves
//! nothing unreachable, and one more gc changes nothing).

use crate::core::*;
use crate::hist::*;
use crate::pipe::*;
use serde_json::json;
use walrus::ir::Value;
use walrus::*;

#[derive(Clone, Copy, Debug, PartialEq, Eq)]
pub enum EOp {
    AddFunc(u8, u8),
    ExportNewestFunc,
    ExportFirst(u8),
    AddImport(u8),
    AddGlobal(u8),
    AddData(u8),
    AddElem(u8),
    DeleteFirstExport,
    DeleteNewestUnreferenced,
    ReplaceImported(u8),
    ReplaceExported(u8),
    SetStart,
    ClearStart,
    Gc,
    /// grow the body of the first / last local function in place, through `block_mut`
    GrowBody(u8),
    /// rewrite small i32 constants of the first local function with a `VisitorMut`
    BumpConsts,
}

pub fn all_ops() -> Vec<EOp> {
    let mut v = vec![];
    // signatures x body kinds, pairwise rather than the full product
    for s in 0..4 {
        v.push(EOp::AddFunc(s, 0));
    }
    for b in 1..12 {
        v.push(EOp::AddFunc(0, b));
    }
    v.push(EOp::AddFunc(1, 1));
    v.push(EOp::AddFunc(3, 5));
    v.push(EOp::ExportNewestFunc);
    for k in 0..3 {
        v.push(EOp::ExportFirst(k));
    }
    for k in 0..4 {
        v.push(EOp::AddImport(k));
    }
    for k in 0..3 {
        v.push(EOp::AddGlobal(k));
    }
    for k in 0..2 {
        v.push(EOp::AddData(k));
    }
    for k in 0..3 {
        v.push(EOp::AddElem(k));
    }
    v.push(EOp::DeleteFirstExport);
    v.push(EOp::DeleteNewestUnreferenced);
    for k in 0..2 {
        v.push(EOp::ReplaceImported(k));
        v.push(EOp::ReplaceExported(k));
    }
    v.push(EOp::SetStart);
    v.push(EOp::ClearStart);
    v.push(EOp::Gc);
    v.push(EOp::GrowBody(0));
    v.push(EOp::GrowBody(1));
    v.push(EOp::BumpConsts);
    v
}

/// operations that only add something
fn additive(op: &EOp) -> bool {
    matches!(op, EOp::AddFunc(..) | EOp::ExportNewestFunc | EOp::ExportFirst(_) | EOp::AddImport(_) | EOp::AddGlobal(_) | EOp::AddData(_) | EOp::AddElem(_))
}

/// operations that use nothing beyond the MVP when applied to a module that has one memory and one
/// table (see `mvp_bases`): used by C20's oracle "MVP-shaped edits keep an MVP module MVP"
fn mvp_safe(op: &EOp, has_mem_and_table: bool) -> bool {
    match op {
        EOp::AddFunc(s, b) => *s <= 2 && matches!(b, 0 | 1 | 2 | 3 | 7 | 8),
        EOp::ExportNewestFunc | EOp::ExportFirst(1) | EOp::ExportFirst(2) => true,
        EOp::AddImport(0) | EOp::AddImport(1) => true,
        EOp::AddGlobal(0) | EOp::AddGlobal(1) => true,
        EOp::AddData(1) | EOp::AddElem(2) => has_mem_and_table,
        EOp::DeleteFirstExport | EOp::DeleteNewestUnreferenced | EOp::ReplaceImported(_) | EOp::ReplaceExported(_) | EOp::SetStart | EOp::ClearStart | EOp::Gc | EOp::GrowBody(_) | EOp::BumpConsts => true,
        _ => false,
    }
}

pub fn mvp_bases() -> Vec<(String, Vec<u8>)> {
    vec![
        ("mvp:empty".into(), b"\0asm\x01\0\0\0".to_vec()),
        (
            "mvp:one-of-everything".into(),
            wgen::stateful::assemble(
                r#"(module (type $r (func (result i32))) (type $v (func)) (import "env" "f" (func $if (param i32))) (table 2 funcref) (memory 1) (global $g i32 (i32.const 1))
                 (func $a (type $r) (i32.const 1)) (func $vv (type $v)) (func (export "run") (call $vv) (drop (call $a)) (call $if (global.get $g)))
                 (elem (i32.const 0) $a) (data (i32.const 0) "x"))"#,
            )
            .unwrap(),
        ),
        (
            // unused imports in front of imports that stay: gc deletes import entries ahead of the memory / table imports
            "mvp:unused-imports-before-imported-memory-and-table".into(),
            wgen::stateful::assemble(
                r#"(module (type $v (func)) (import "a" "f" (func)) (import "a" "g" (global $g i32)) (import "a" "u" (global i32)) (import "a" "m" (memory 1)) (import "a" "t" (table 2 funcref))
                 (func (export "r") (result i32) (call_indirect (type $v) (i32.const 0)) (i32.load (global.get $g))))"#,
            )
            .unwrap(),
        ),
    ]
}

/// if two binaries differ only in how block types are written - a type index on one side, the
/// inline form of the *same* signature on the other - say so (a narrow, recognisable difference)
fn only_block_type_encoding_differs(a: &[u8], b: &[u8]) -> bool {
    let (wa, wb) = match (wmodel::decode(a), wmodel::decode(b)) {
        (Ok(x), Ok(y)) => (x, y),
        _ => return false,
    };
    if wa.funcs.len() != wb.funcs.len() || wa.types != wb.types {
        return false;
    }
    let sig = |w: &wmodel::WModule, i: &wmodel::Imm| -> Option<wmodel::FuncSig> {
        match i {
            wmodel::Imm::Block(wmodel::BlockTy::Empty) => Some(wmodel::FuncSig { params: vec![], results: vec![] }),
            wmodel::Imm::Block(wmodel::BlockTy::Val(t)) => Some(wmodel::FuncSig { params: vec![], results: vec![t.clone()] }),
            wmodel::Imm::Block(wmodel::BlockTy::Func(k)) => w.types.get(*k as usize).cloned().flatten(),
            _ => None,
        }
    };
    let mut seen = false;
    for (fa, fb) in wa.funcs.iter().zip(wb.funcs.iter()) {
        match (&fa.body, &fb.body) {
            (None, None) => {}
            (Some(x), Some(y)) => {
                if x.ops.len() != y.ops.len() || x.locals != y.locals {
                    return false;
                }
                for ((oa, _), (ob, _)) in x.ops.iter().zip(y.ops.iter()) {
                    if oa == ob {
                        continue;
                    }
                    if oa.name != ob.name || oa.imms.len() != 1 || ob.imms.len() != 1 {
                        return false;
                    }
                    match (sig(&wa, &oa.imms[0]), sig(&wb, &ob.imms[0])) {
                        (Some(p), Some(q)) if p == q && p.params.is_empty() && p.results.len() <= 1 => seen = true,
                        _ => return false,
                    }
                }
            }
            _ => return false,
        }
    }
    seen
}

struct Bump;
impl walrus::ir::VisitorMut for Bump {
    fn visit_const_mut(&mut self, c: &mut walrus::ir::Const) {
        if let Value::I32(v) = &mut c.value {
            if *v >= 0 && *v < 64 {
                *v += 1 << 21;
            }
        }
    }
}

fn counts(m: &Module) -> [usize; 6] {
    [m.funcs.iter().count(), m.tables.iter().count(), m.memories.iter().count(), m.globals.iter().count(), m.elements.iter().count(), m.data.iter().count()]
}

#[derive(Clone, Copy, Debug)]
enum Added {
    Func(FunctionId),
    Global(GlobalId),
    Data(DataId),
    Elem(ElementId),
}

pub struct EObj {
    m: Module,
    serial: i32,
    /// entities added by this history that nothing refers to yet (safe to delete)
    unreferenced: Vec<Added>,
    newest_func: Option<FunctionId>,
}

pub struct EditSubject<'a> {
    pub wasm: &'a [u8],
    /// "C02": the output must validate; "C08": emission must be repeatable and a fixpoint;
    /// "C04": additions leave the rest untouched; "C07": gc after edits is precise and idempotent
    pub oracle: &'static str,
    /// the unedited output, decoded, and the entity counts of the freshly parsed module (C04)
    plain: Option<(wmodel::WModule, [usize; 6])>,
}

impl<'a> EditSubject<'a> {
    pub fn new(wasm: &'a [u8], oracle: &'static str) -> Self {
        let mut plain = None;
        if oracle == "C04" {
            if let Ok(mut m) = parse(wasm, &Cfg::default()) {
                let c = counts(&m);
                if let Ok(out) = emit(&mut m) {
                    if let Ok(w) = wmodel::decode(&out) {
                        plain = Some((w, c));
                    }
                }
            }
        }
        EditSubject { wasm, oracle, plain }
    }
    /// the history replayed with one extra (discarded) emit before operation `at`
    fn with_emit_at(&self, hist: &[EOp], at: usize) -> Result<Vec<u8>, String> {
        let mut o = self.fresh()?;
        for (i, op) in hist.iter().enumerate() {
            if i == at {
                o.m.emit_wasm();
            }
            apply_op(&mut o, op);
        }
        Ok(o.m.emit_wasm())
    }
}

fn const_for(b: &mut InstrSeqBuilder, t: ValType, k: i32) {
    match t {
        ValType::I32 => {
            b.i32_const(k);
        }
        ValType::I64 => {
            b.i64_const(k as i64);
        }
        ValType::F32 => {
            b.f32_const(k as f32);
        }
        ValType::F64 => {
            b.f64_const(k as f64);
        }
        ValType::V128 => {
            b.const_(Value::V128(k as u128));
        }
        ValType::Ref(r) => {
            b.ref_null(r);
        }
    }
}

fn first_func_with(m: &Module, params: &[ValType], results: &[ValType]) -> Option<FunctionId> {
    m.funcs.iter().find(|f| {
        let t = m.types.get(f.ty());
        t.params() == params && t.results() == results
    }).map(|f| f.id())
}

fn apply_op(o: &mut EObj, op: &EOp) {
    o.serial += 1;
    let k = o.serial;
    let m = &mut o.m;
    match *op {
        EOp::AddFunc(s, body) => {
            let (params, results): (Vec<ValType>, Vec<ValType>) = match s {
                0 => (vec![], vec![]),
                1 => (vec![ValType::I32], vec![ValType::I32]),
                2 => (vec![], vec![ValType::I64]),
                _ => (vec![ValType::I32], vec![ValType::I32, ValType::I32]),
            };
            let callee = first_func_with(m, &[], &[]);
            let g = m.globals.iter().find(|g| g.ty == ValType::I32).map(|g| g.id());
            let mem = m.memories.iter().find(|x| !x.memory64).map(|x| x.id());
            let tab = m.tables.iter().next().map(|t| (t.id(), t.table64));
            let args: Vec<LocalId> = params.iter().map(|t| m.locals.add(*t)).collect();
            let mut b = FunctionBuilder::new(&mut m.types, &params, &results);
            b.name(format!("edit_fn{}", k));
            {
                let mut fb = b.func_body();
                fb.i32_const(9000 + k).drop();
                match body {
                    1 => {
                        if let Some(c) = callee {
                            fb.call(c);
                            // the callee may be a function this history added: it is referenced now
                            o.unreferenced.retain(|a| !matches!(a, Added::Func(x) if *x == c));
                        }
                    }
                    2 => {
                        if let Some(g) = g {
                            fb.global_get(g).drop();
                            o.unreferenced.retain(|a| !matches!(a, Added::Global(x) if *x == g));
                        }
                    }
                    3 => {
                        if let Some(mm) = mem {
                            fb.i32_const(0).load(mm, ir::LoadKind::I32 { atomic: false }, ir::MemArg { align: 4, offset: 0 }).drop();
                        }
                    }
                    4 => {
                        if let Some((t, _)) = tab {
                            fb.table_size(t).drop();
                        }
                    }
                    5 => {
                        // a block type with a parameter and one result, made through the public constructor
                        let bt = ir::InstrSeqType::new(&mut m.types, &[ValType::I32], &[ValType::I32]);
                        fb.i32_const(k).block(bt, |b| {
                            b.i32_const(1).binop(ir::BinaryOp::I32Add);
                        }).drop();
                    }
                    10 => {
                        // a block type looked up (not created) among the module's types: two i32 results, no parameters
                        if let Some(bt) = ir::InstrSeqType::existing(&m.types, &[], &[ValType::I32, ValType::I32]) {
                            fb.block(bt, |b| {
                                b.i32_const(k).i32_const(1);
                            })
                            .drop()
                            .drop();
                        }
                    }
                    11 => {
                        // a block typed by an explicit type id whose signature the inline forms could also express
                        let ty = m.types.add(&[], &[ValType::F64]);
                        fb.block(ty, |b| {
                            b.f64_const(k as f64);
                        })
                        .drop();
                    }
                    9 => {
                        // bulk-memory instructions on a data segment of the input (which may have needed no data-count section so far)
                        let d = m.data.iter().next().map(|d| d.id());
                        if let (Some(d), Some(mm)) = (d, mem) {
                            fb.i32_const(0).i32_const(0).i32_const(0).memory_init(mm, d).data_drop(d);
                        }
                    }
                    7 => {
                        // block types MVP can express, made through the public constructor
                        let bt = ir::InstrSeqType::new(&mut m.types, &[], &[ValType::I32]);
                        fb.block(bt, |b| {
                            b.i32_const(k);
                        })
                        .drop();
                    }
                    8 => {
                        let bt = ir::InstrSeqType::new(&mut m.types, &[], &[]);
                        fb.i32_const(k).if_else(bt, |t| { t.i32_const(1).drop(); }, |e| { e.i32_const(2).drop(); });
                    }
                    6 => {
                        // two parameters in, two results out of an if/else
                        let bt = ir::InstrSeqType::new(&mut m.types, &[ValType::I32, ValType::I32], &[ValType::I32, ValType::I32]);
                        fb.i32_const(k).i32_const(2).i32_const(1).if_else(bt, |t| { t.binop(ir::BinaryOp::I32Add).i32_const(3); }, |_e| {}).drop().drop();
                    }
                    _ => {}
                }
                for r in &results {
                    const_for(&mut fb, *r, k);
                }
            }
            let f = b.finish(args, &mut m.funcs);
            o.newest_func = Some(f);
            o.unreferenced.push(Added::Func(f));
        }
        EOp::ExportNewestFunc => {
            if let Some(f) = o.newest_func.or_else(|| m.funcs.iter().next().map(|f| f.id())) {
                if m.funcs.iter().any(|x| x.id() == f) {
                    m.exports.add(&format!("edit{}", k), f);
                    o.unreferenced.retain(|a| !matches!(a, Added::Func(x) if *x == f));
                }
            }
        }
        EOp::ExportFirst(kind) => match kind {
            0 => {
                if let Some(g) = m.globals.iter().next().map(|g| g.id()) {
                    m.exports.add(&format!("edit{}", k), g);
                    o.unreferenced.retain(|a| !matches!(a, Added::Global(x) if *x == g));
                }
            }
            1 => {
                if let Some(x) = m.memories.iter().next().map(|g| g.id()) {
                    m.exports.add(&format!("edit{}", k), x);
                }
            }
            _ => {
                if let Some(x) = m.tables.iter().next().map(|g| g.id()) {
                    m.exports.add(&format!("edit{}", k), x);
                }
            }
        },
        EOp::AddImport(kind) => match kind {
            0 => {
                let ty = m.types.add(&[ValType::I32], &[]);
                let (f, _) = m.add_import_func("edit", &format!("f{}", k), ty);
                m.funcs.get_mut(f).name = Some(format!("edit_if{}", k));
            }
            1 => {
                let (g, _) = m.add_import_global("edit", &format!("g{}", k), ValType::I32, false, false);
                m.globals.get_mut(g).name = Some(format!("edit_ig{}", k));
            }
            2 => {
                let (t, _) = m.add_import_table("edit", &format!("t{}", k), false, 1, None, RefType::Funcref);
                m.tables.get_mut(t).name = Some(format!("edit_it{}", k));
            }
            _ => {
                let (mm, _) = m.add_import_memory("edit", &format!("m{}", k), false, false, 1, None, None);
                m.memories.get_mut(mm).name = Some(format!("edit_im{}", k));
            }
        },
        EOp::AddGlobal(kind) => {
            let id = match kind {
                0 => Some(m.globals.add_local(ValType::I32, true, false, ConstExpr::Value(Value::I32(k)))),
                1 => {
                    let src = m.globals.iter().find(|g| matches!(g.kind, GlobalKind::Import(_)) && g.ty == ValType::I32 && !g.mutable).map(|g| g.id());
                    src.map(|s| m.globals.add_local(ValType::I32, false, false, ConstExpr::Global(s)))
                }
                _ => {
                    let f = o.newest_func.filter(|f| m.funcs.iter().any(|x| x.id() == *f)).or_else(|| m.funcs.iter().next().map(|f| f.id()));
                    f.map(|f| {
                        o.unreferenced.retain(|a| !matches!(a, Added::Func(x) if *x == f));
                        m.globals.add_local(ValType::Ref(RefType::Funcref), false, false, ConstExpr::RefFunc(f))
                    })
                }
            };
            if let Some(id) = id {
                m.globals.get_mut(id).name = Some(format!("edit_g{}", k));
                o.unreferenced.push(Added::Global(id));
            }
        }
        EOp::AddData(kind) => {
            let mem = m.memories.iter().find(|x| !x.memory64).map(|x| x.id());
            if kind == 0 || mem.is_none() {
                let id = m.data.add(DataKind::Passive, vec![k as u8; 3]);
                o.unreferenced.push(Added::Data(id));
            } else {
                let mem = mem.unwrap();
                let id = m.data.add(DataKind::Active { memory: mem, offset: ConstExpr::Value(Value::I32(0)) }, vec![k as u8; 2]);
                m.memories.get_mut(mem).data_segments.insert(id);
            }
        }
        EOp::AddElem(kind) => {
            let f = m.funcs.iter().next().map(|f| f.id());
            let f = match f {
                Some(f) => f,
                None => return,
            };
            o.unreferenced.retain(|a| !matches!(a, Added::Func(x) if *x == f));
            let tab = m.tables.iter().find(|t| t.element_ty == RefType::Funcref && !t.table64 && t.initial >= 1).map(|t| t.id());
            match (kind, tab) {
                (0, _) | (_, None) if kind != 1 => {
                    let id = m.elements.add(ElementKind::Passive, ElementItems::Functions(vec![f]));
                    o.unreferenced.push(Added::Elem(id));
                }
                (1, _) => {
                    m.elements.add(ElementKind::Declared, ElementItems::Functions(vec![f]));
                }
                (_, None) => {}
                (_, Some(t)) => {
                    let id = m.elements.add(ElementKind::Active { table: t, offset: ConstExpr::Value(Value::I32(0)) }, ElementItems::Functions(vec![f]));
                    m.tables.get_mut(t).elem_segments.insert(id);
                }
            }
        }
        EOp::DeleteFirstExport => {
            let e = m.exports.iter().next().map(|e| e.id());
            if let Some(e) = e {
                m.exports.delete(e);
            }
        }
        EOp::DeleteNewestUnreferenced => {
            if let Some(a) = o.unreferenced.pop() {
                match a {
                    Added::Func(f) => {
                        if m.funcs.iter().any(|x| x.id() == f) {
                            m.funcs.delete(f);
                        }
                        if o.newest_func == Some(f) {
                            o.newest_func = None;
                        }
                    }
                    Added::Global(g) => {
                        if m.globals.iter().any(|x| x.id() == g) {
                            m.globals.delete(g)
                        }
                    }
                    Added::Data(d) => {
                        if m.data.iter().any(|x| x.id() == d) {
                            m.data.delete(d)
                        }
                    }
                    Added::Elem(e) => {
                        if m.elements.iter().any(|x| x.id() == e) {
                            m.elements.delete(e)
                        }
                    }
                }
            }
        }
        EOp::ReplaceImported(kind) => {
            let f = m.funcs.iter().find(|f| matches!(f.kind, FunctionKind::Import(_))).map(|f| f.id());
            if let Some(f) = f {
                let results: Vec<ValType> = m.types.get(m.funcs.get(f).ty()).results().to_vec();
                let _ = m.replace_imported_func(f, |(b, _args)| {
                    if kind == 0 {
                        b.unreachable();
                    } else {
                        for r in &results {
                            const_for(b, *r, k);
                        }
                    }
                });
            }
        }
        EOp::ReplaceExported(kind) => {
            let f = m.exports.iter().find_map(|e| match e.item {
                ExportItem::Function(f) if matches!(m.funcs.get(f).kind, FunctionKind::Local(_)) => Some(f),
                _ => None,
            });
            if let Some(f) = f {
                let results: Vec<ValType> = m.types.get(m.funcs.get(f).ty()).results().to_vec();
                let _ = m.replace_exported_func(f, |(b, _args)| {
                    if kind == 0 {
                        b.unreachable();
                    } else {
                        for r in &results {
                            const_for(b, *r, k);
                        }
                    }
                });
            }
        }
        EOp::SetStart => {
            if let Some(f) = first_func_with(m, &[], &[]) {
                m.start = Some(f);
                o.unreferenced.retain(|a| !matches!(a, Added::Func(x) if *x == f));
            }
        }
        EOp::ClearStart => m.start = None,
        EOp::GrowBody(which) => {
            let ids: Vec<FunctionId> = m.funcs.iter_local().map(|(id, _)| id).collect();
            let id = if which == 0 { ids.first().copied() } else { ids.last().copied() };
            if let Some(id) = id {
                let lf = m.funcs.get_mut(id).kind.unwrap_local_mut();
                let entry = lf.entry_block();
                let seq = lf.block_mut(entry);
                for j in 0..6 {
                    seq.instrs.insert(0, (ir::Instr::Drop(ir::Drop {}), Default::default()));
                    seq.instrs.insert(0, (ir::Instr::Const(ir::Const { value: Value::I32(70_000 + k * 8 + j) }), Default::default()));
                }
            }
        }
        EOp::BumpConsts => {
            let id = m.funcs.iter_local().map(|(id, _)| id).next();
            if let Some(id) = id {
                let lf = m.funcs.get_mut(id).kind.unwrap_local_mut();
                let entry = lf.entry_block();
                ir::dfs_pre_order_mut(&mut Bump, lf, entry);
            }
        }
        EOp::Gc => {
            walrus::passes::gc::run(m);
            // gc may have deleted what this history added
            o.unreferenced.clear();
            if let Some(f) = o.newest_func {
                if !m.funcs.iter().any(|x| x.id() == f) {
                    o.newest_func = None;
                }
            }
        }
    }
}

impl<'a> Subject for EditSubject<'a> {
    type Op = EOp;
    type Obj = EObj;
    fn fresh(&self) -> Result<EObj, String> {
        parse(self.wasm, &Cfg::default()).map(|m| EObj { m, serial: 0, unreferenced: vec![], newest_func: None }).map_err(|f| f.detail())
    }
    fn ops(&self, _h: &[EOp]) -> Vec<EOp> {
        if self.oracle == "C20" {
            let has = self.wasm.len() > 8;
            return all_ops().into_iter().filter(|op| mvp_safe(op, has)).collect();
        }
        all_ops()
    }
    fn apply(&self, o: &mut EObj, op: &EOp, _at: usize) -> Result<(), Finding> {
        apply_op(o, op);
        Ok(())
    }
    fn observe(&self, mut o: EObj, hist: &[EOp]) -> (u64, Vec<Finding>) {
        let mut fs = vec![];
        let out = o.m.emit_wasm();
        if self.oracle == "C08" {
            let e2 = o.m.emit_wasm();
            if e2 != out {
                fs.push(Finding {
                    sig: format!("emit-not-repeatable:{}", crate::props::modhist::first_diff(&out, &e2)),
                    detail: format!("after the edit history {:?} two consecutive emits differ", hist),
                });
            }
            if wmodel::validate214(&out, wmodel::FeatureSet::DEFAULT).is_ok() {
                match Cfg::default().config().parse(&out) {
                    Ok(mut m2) => {
                        let e3 = m2.emit_wasm();
                        if e3 != out {
                            let what = if only_block_type_encoding_differs(&out, &e3) { "block-type-index-vs-inline-form-of-the-same-signature".to_string() } else { crate::props::modhist::first_diff(&out, &e3) };
                            fs.push(Finding {
                                sig: format!("not-a-fixpoint:{}", what),
                                detail: format!("after the edit history {:?}: emit(parse(emit(s))) differs from emit(s) ({} vs {} bytes)", hist, e3.len(), out.len()),
                            });
                        }
                    }
                    Err(e) => fs.push(Finding { sig: "own-output-rejected".into(), detail: format!("{:#}", e) }),
                }
            }
            for at in 0..hist.len() {
                match self.with_emit_at(hist, at) {
                    Ok(o2) if o2 != out => fs.push(Finding {
                        sig: format!("emit-has-side-effect:{}", crate::props::modhist::first_diff(&out, &o2)),
                        detail: format!("the edit history {:?} yields different bytes when the module is also emitted (and the bytes discarded) before operation #{}", hist, at),
                    }),
                    _ => {}
                }
            }
            return (wmodel::fnv(&out), fs);
        }
        if self.oracle == "C04" {
            if let (Some((plain, c0)), true) = (&self.plain, hist.iter().all(additive)) {
                if let Ok(edited) = wmodel::decode(&out) {
                    let c1 = counts(&o.m);
                    match wmodel::iso(&edited, plain, wmodel::IsoMode::Embed) {
                        Ok(maps) => {
                            // exactly the added entities are new
                            let spaces = [wmodel::Space::Func, wmodel::Space::Table, wmodel::Space::Mem, wmodel::Space::Global, wmodel::Space::Elem, wmodel::Space::Data];
                            for (i, sp) in spaces.iter().enumerate() {
                                let new = maps.fwd[wmodel::iso::sidx(*sp)].iter().filter(|x| x.is_none()).count();
                                let want = c1[i].saturating_sub(c0[i]);
                                if new != want {
                                    fs.push(Finding {
                                        sig: format!("additions-miscounted:{:?}", sp),
                                        detail: format!("after the additions {:?} the module holds {} more {:?} entities than before, the emitted binary {} more than the unedited output", hist, want, sp, new),
                                    });
                                }
                            }
                        }
                        Err(ms) => {
                            for mmm in ms {
                                fs.push(Finding {
                                    sig: format!("addition-disturbed-existing:{}", mmm.sig),
                                    detail: format!("after the additions {:?} the unedited output no longer embeds in the edited one: {}", hist, mmm.detail),
                                });
                            }
                        }
                    }
                }
            }
            return (wmodel::fnv(&out), fs);
        }
        if self.oracle == "C20" {
            let has = self.wasm.len() > 8;
            // once gc ran the memory / table may be gone, and the model's AddData / AddElem fall back to passive segments
            let mut gone = false;
            let mut safe = true;
            for op in hist {
                safe &= mvp_safe(op, has && !gone);
                gone |= *op == EOp::Gc;
            }
            if safe && wmodel::validate214(&out, wmodel::FeatureSet::DEFAULT).is_ok() {
                if let Err(e) = wmodel::validate214(&out, wmodel::FeatureSet::MVP) {
                    fs.push(Finding {
                        sig: format!("mvp-edit-escalates:{}", crate::props::validity::norm_verr(&e)),
                        detail: format!("an MVP module edited with MVP-shaped operations {:?} no longer validates as MVP: {}", hist, e),
                    });
                }
            }
            return (wmodel::fnv(&out), fs);
        }
        if self.oracle == "C07" {
            if hist.last() == Some(&EOp::Gc) && wmodel::validate214(&out, wmodel::FeatureSet::DEFAULT).is_ok() {
                for (sig, detail) in crate::props::gcprops::precision_findings(&out) {
                    fs.push(Finding { sig, detail: format!("after the edit history {:?}: {}", hist, detail) });
                }
                walrus::passes::gc::run(&mut o.m);
                let again = o.m.emit_wasm();
                if again != out {
                    fs.push(Finding {
                        sig: format!("gc-not-idempotent:{}", crate::props::modhist::first_diff(&out, &again)),
                        detail: format!("after the edit history {:?}, one more gc changes the emitted bytes ({} -> {} bytes)", hist, out.len(), again.len()),
                    });
                }
            }
            return (wmodel::fnv(&out), fs);
        }
        if let Err(e) = wmodel::validate214(&out, wmodel::FeatureSet::DEFAULT) {
            let last = hist.last().map(|o| format!("{:?}", o)).unwrap_or_default();
            let last: String = last.chars().take_while(|c| c.is_alphabetic()).collect();
            fs.push(Finding {
                sig: format!("invalid-output:after-edit:{}:{}", last, crate::props::validity::norm_verr(&e)),
                detail: format!("after the edit history {:?} the reference validator rejects the output: {}", hist, e),
            });
        }
        (wmodel::fnv(&out), fs)
    }
}

pub fn bases() -> Vec<(String, Vec<u8>)> {
    use wgen::families as fam;
    vec![
        ("empty".into(), b"\0asm\x01\0\0\0".to_vec()),
        ("struct:ctx".into(), fam::build_struct(&[])),
        ("funcs:[1,2,3]/chain/imp".into(), fam::build_funcs(&[1, 2, 3], 1, true)),
        ("reach:[0,16,22]".into(), fam::build_reach(&[0, 16, 22])),
        ("names:all".into(), fam::build_names(0, 0x1ff)),
        ("struct:elem=40,start=2".into(), fam::build_struct(&[("elem", 40), ("start", 2)])),
        // an active data segment and no instruction that needs a data-count section (so the input has none)
        ("active-data-no-count".into(), wgen::stateful::assemble(r#"(module (memory 1) (func (export "f") (i32.store (i32.const 0) (i32.const 1))) (data (i32.const 0) "a"))"#).unwrap()),
        // types / globals / tables that only dead code uses: gc deletes them, a later edit re-creates them
        ("dead-types".into(), wgen::stateful::assemble(r#"(module
            (type $dead64 (func (result i64)))
            (type $deadi (func (param i32) (result i32)))
            (func $d1 (type $dead64) (i64.const 1))
            (func $d2 (type $deadi) (local.get 0))
            (global $dg (mut i32) (i32.const 3))
            (func $d3 (global.set $dg (i32.const 1)))
            (func (export "live") (nop)))"#).unwrap()),
    ]
}

fn ops_json(h: &[EOp]) -> serde_json::Value {
    json!(h.iter().map(|o| format!("{:?}", o)).collect::<Vec<_>>())
}
fn ops_from(v: &serde_json::Value) -> Vec<EOp> {
    let all = all_ops();
    v.as_array()
        .map(|a| a.iter().filter_map(|x| x.as_str()).filter_map(|s| all.iter().find(|o| format!("{:?}", o) == s).copied()).collect())
        .unwrap_or_default()
}

pub fn recheck(c: &Case) -> Vec<Violation> {
    recheck_as("C02", c)
}
pub fn recheck_as(oracle: &'static str, c: &Case) -> Vec<Violation> {
    let s = EditSubject::new(&c.wasm, oracle);
    let h = ops_from(&c.cfg["edits"]);
    match replay(&s, &h) {
        Ok((_, fs)) => fs.into_iter().map(|f| Violation::new(oracle, f.sig, f.detail, c)).collect(),
        Err(f) => {
            if oracle != "C02" {
                vec![] // panics while editing / emitting are C02's
            } else {
                vec![Violation::new("C02", format!("edit-{}", f.sig), f.detail, c)]
            }
        }
    }
}

pub fn run_model(args: &Args, ev: &mut Ev) -> Vec<Violation> {
    run_model_as("C02", args, ev)
}
pub fn run_model_as(oracle: &'static str, args: &Args, ev: &mut Ev) -> Vec<Violation> {
    // C08 replays every history once more per position (emit commutation): one level less
    let depth = match (oracle, args.tier) {
        ("C08", Tier::Quick) => 2,
        (_, Tier::Quick) | ("C08", Tier::Thorough) => 3,
        _ => 4,
    };
    let bs = if oracle == "C20" { mvp_bases() } else { bases() };
    let (res, _) = pmap(&bs, args.threads, None, |(_, wasm)| {
        let s = EditSubject::new(wasm, oracle);
        explore(&s, depth)
    });
    let mut viol = vec![];
    let mut model = serde_json::Map::new();
    for ((name, wasm), r) in bs.iter().zip(res.into_iter()) {
        let (st, found) = r.unwrap();
        ev.states += st.states;
        ev.transitions += st.transitions;
        ev.evaluations += st.transitions;
        ev.max_depth = ev.max_depth.max(st.max_depth);
        model.insert(name.clone(), json!({"states": st.states, "transitions": st.transitions, "merged": st.merged}));
        for f in found {
            let c = Case { family: "edits".into(), coords: name.clone(), wasm: wasm.clone(), cfg: json!({"edits": ops_json(&f.hist)}) };
            if oracle != "C02" && f.finding.sig.starts_with("panic:") {
                continue;
            }
            let sig = if f.finding.sig.starts_with("panic:") { format!("edit-{}", f.finding.sig) } else { f.finding.sig };
            viol.push(Violation::new(oracle, sig, f.finding.detail, &c));
        }
    }
    ev.extra.insert("edit_model".into(), json!({"actions": all_ops().len(), "depth": depth, "bases": model}));
    viol
}
