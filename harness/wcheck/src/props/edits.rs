//! C02 part (b): explicit-state exploration of well-formed edit histories through the public
//! builder / edit APIs.  In every state: emit must not panic and the output must validate.
//! The same state space carries three more oracles: C08 (emission is repeatable, a fixpoint, and
//! an emit slipped in anywhere in the history changes nothing), C04 (histories made only of
//! additions leave everything that was there before as it was: the unedited output embeds in the
//! edited one, and exactly the added entities are new) and C07 (a history that ends in gc leaves
//! nothing unreachable, and one more gc changes nothing).

use crate::core::*;
use crate::hist::*;
use crate::pipe::*;
use serde_json::json;
use walrus::ir::Value;
use walrus::*;

#[derive(Clone, Copy, Debug, PartialEq, Eq)]
pub enum EOp {
    AddFunc(u8, u8),
    ExportNewestFunc,
    ExportFirst(u8),
    AddImport(u8),
    AddGlobal(u8),
    AddData(u8),
    AddElem(u8),
    DeleteFirstExport,
    DeleteNewestUnreferenced,
    ReplaceImported(u8),
    ReplaceExported(u8),
    SetStart,
    ClearStart,
    Gc,
    /// grow the body of the first / last local function in place, through `block_mut`
    GrowBody(u8),
    /// rewrite small i32 constants of the first local function with a `VisitorMut`
    BumpConsts,
    /// one more (global) import that carries the field name of the newest import this history
    /// added, under another module name
    AddImportSameField,
    /// what a tool adding an indirectly callable function does: look the function table up with
    /// `tables.main_function_table()`, create one only if there is none, add an active segment
    AddFuncTableEntry,
    /// the usual way to re-point an export: `exports.add(name, new item)` under the existing name,
    /// then `exports.delete(old id)`
    RepointFirstFuncExport,
    /// turn the module's one local memory into an imported one: add the import, re-point data
    /// segments, instructions and exports at it, and let gc sweep the old memory
    ExternalizeMemoryThenGc,
    /// `data.get_mut(id).kind = DataKind::Passive` on the first active segment (nothing else is touched)
    MakeFirstActiveDataPassive,
    /// remove the newest import this history added through `imports.remove(module, field)` and
    /// delete the (unreferenced) entity it brought in
    RemoveNewestAddedImport,
}

pub fn all_ops() -> Vec<EOp> {
    let mut v = vec![];
    // signatures x body kinds, pairwise rather than the full product
    for s in 0..4 {
        v.push(EOp::AddFunc(s, 0));
    }
    for b in 1..12 {
        v.push(EOp::AddFunc(0, b));
    }
    v.push(EOp::AddFunc(1, 1));
    v.push(EOp::AddFunc(0, 12));
    v.push(EOp::AddFunc(3, 5));
    v.push(EOp::ExportNewestFunc);
    for k in 0..3 {
        v.push(EOp::ExportFirst(k));
    }
    for k in 0..4 {
        v.push(EOp::AddImport(k));
    }
    for k in 0..3 {
        v.push(EOp::AddGlobal(k));
    }
    for k in 0..3 {
        v.push(EOp::AddData(k));
    }
    for k in 0..4 {
        v.push(EOp::AddElem(k));
    }
    v.push(EOp::DeleteFirstExport);
    v.push(EOp::DeleteNewestUnreferenced);
    for k in 0..2 {
        v.push(EOp::ReplaceImported(k));
        v.push(EOp::ReplaceExported(k));
    }
    // the last imported function instead of the first
    v.push(EOp::ReplaceImported(3));
    v.push(EOp::SetStart);
    v.push(EOp::ClearStart);
    v.push(EOp::Gc);
    v.push(EOp::GrowBody(0));
    v.push(EOp::GrowBody(1));
    v.push(EOp::BumpConsts);
    v.push(EOp::AddImportSameField);
    v.push(EOp::AddFuncTableEntry);
    v.push(EOp::RepointFirstFuncExport);
    v.push(EOp::ExternalizeMemoryThenGc);
    v.push(EOp::MakeFirstActiveDataPassive);
    v.push(EOp::RemoveNewestAddedImport);
    v
}

/// operations that only add something
fn additive(op: &EOp) -> bool {
    matches!(op, EOp::AddFunc(..) | EOp::ExportNewestFunc | EOp::ExportFirst(_) | EOp::AddImport(_) | EOp::AddGlobal(_) | EOp::AddData(_) | EOp::AddElem(_) | EOp::AddImportSameField | EOp::AddFuncTableEntry)
}

/// operations that use nothing beyond the MVP when applied to a module that has one memory and one
/// table (see `mvp_bases`): used by C20's oracle "MVP-shaped edits keep an MVP module MVP"
fn mvp_safe(op: &EOp, has_mem_and_table: bool) -> bool {
    match op {
        EOp::AddFunc(s, b) => *s <= 2 && matches!(b, 0 | 1 | 2 | 3 | 7 | 8),
        EOp::ExportNewestFunc | EOp::ExportFirst(1) | EOp::ExportFirst(2) => true,
        EOp::AddImport(0) | EOp::AddImport(1) => true,
        EOp::AddGlobal(0) | EOp::AddGlobal(1) => true,
        EOp::AddFuncTableEntry => true,
        EOp::AddData(1) | EOp::AddElem(2) => has_mem_and_table,
        EOp::DeleteFirstExport | EOp::DeleteNewestUnreferenced | EOp::ReplaceImported(_) | EOp::ReplaceExported(_) | EOp::SetStart | EOp::ClearStart | EOp::Gc | EOp::GrowBody(_) | EOp::BumpConsts | EOp::RepointFirstFuncExport | EOp::ExternalizeMemoryThenGc => true,
        _ => false,
    }
}

/// operations that need no proposal of their own: the edited module must not need more than the
/// module they were applied to (bases whose name starts with "neutral:")
fn feature_neutral(op: &EOp) -> bool {
    match op {
        EOp::AddFunc(s, b) => *s <= 2 && matches!(b, 0 | 1 | 2 | 3),
        EOp::ExportNewestFunc | EOp::DeleteFirstExport | EOp::DeleteNewestUnreferenced | EOp::ReplaceImported(_) | EOp::ReplaceExported(_) | EOp::SetStart | EOp::ClearStart | EOp::Gc | EOp::GrowBody(_) | EOp::BumpConsts => true,
        _ => false,
    }
}

/// does the binary hold a declared element segment that declares nothing that needs declaring?
/// (a function needs a declaration when some body takes `ref.func` of it and neither an export,
/// another segment nor a global initialiser mentions it). A *necessary* declared segment is the
/// only way to keep such a module valid, whatever proposal flag the validator files it under.
fn has_unnecessary_declared_segment(wasm: &[u8]) -> bool {
    let w = match wmodel::decode(wasm) {
        Ok(w) => w,
        Err(_) => return false,
    };
    let mut ref_targets = std::collections::HashSet::new();
    for f in &w.funcs {
        if let Some(b) = &f.body {
            for (op, _) in &b.ops {
                if op.name == "RefFunc" {
                    if let Some(wmodel::Imm::Func(i)) = op.imms.first() {
                        ref_targets.insert(*i);
                    }
                }
            }
        }
    }
    let items = |e: &wmodel::Elem| -> Vec<u32> { wmodel::iso::norm_items(&e.items).into_iter().filter_map(|i| if let wmodel::iso::Item::Func(f) = i { Some(f) } else { None }).collect() };
    for (k, e) in w.elems.iter().enumerate() {
        if e.mode != wmodel::ElemMode::Declared {
            continue;
        }
        let needed = items(e).into_iter().any(|f| {
            ref_targets.contains(&f)
                && !w.exports.iter().any(|x| x.space == wmodel::Space::Func && x.index == f)
                && !w.elems.iter().enumerate().any(|(j, o)| j != k && items(o).contains(&f))
                && !w.globals.iter().any(|g| g.init.as_ref().map(|ops| ops.iter().any(|o| o.name == "RefFunc" && o.imms.first() == Some(&wmodel::Imm::Func(f)))).unwrap_or(false))
        });
        if !needed {
            return true;
        }
    }
    false
}

/// the proposals a binary cannot do without: those whose removal from the full set makes it invalid
fn required_features(wasm: &[u8]) -> u16 {
    let mut req = 0u16;
    for bit in 0..12u16 {
        if wmodel::validate214(wasm, wmodel::FeatureSet(0xfff & !(1 << bit))).is_err() {
            req |= 1 << bit;
        }
    }
    req
}

pub fn mvp_bases() -> Vec<(String, Vec<u8>)> {
    vec![
        (
            // needs reference types and nothing else; $loc is exported twice and is a ref.func target
            "neutral:reference-types-only".into(),
            wgen::stateful::assemble(
                r#"(module (import "env" "h" (func $h)) (func $loc (export "a") (export "b") (call $h)) (func (export "rf") (result i32) (ref.is_null (ref.func $loc))) (func (export "c") (call $loc)))"#,
            )
            .unwrap(),
        ),
        (
            // needs multi-value only
            "neutral:multi-value-only".into(),
            wgen::stateful::assemble(r#"(module (func $two (export "two") (export "two2") (result i32 i32) (i32.const 1) (i32.const 2)) (func (export "use") (result i32) (call $two) (i32.add)))"#).unwrap(),
        ),
        (
            // needs reference types only; the ref.func target is declared by an ordinary active segment of a live table
            "neutral:reference-types-only:target-declared-by-active-segment".into(),
            wgen::stateful::assemble(
                r#"(module (type $v (func)) (table 2 funcref) (func $f) (func $g) (elem (i32.const 0) func $f $g)
                 (func (export "rf") (result i32) (ref.is_null (ref.func $f))) (func (export "ci") (call_indirect (type $v) (i32.const 0))) (func (export "c") (call $g)))"#,
            )
            .unwrap(),
        ),
        ("mvp:empty".into(), b"\0asm\x01\0\0\0".to_vec()),
        (
            "mvp:one-of-everything".into(),
            wgen::stateful::assemble(
                r#"(module (type $r (func (result i32))) (type $v (func)) (import "env" "f" (func $if (param i32))) (table 2 funcref) (memory 1) (global $g i32 (i32.const 1))
                 (func $a (type $r) (i32.const 1)) (func $vv (type $v)) (func (export "run") (call $vv) (drop (call $a)) (call $if (global.get $g)))
                 (elem (i32.const 0) $a) (data (i32.const 0) "x"))"#,
            )
            .unwrap(),
        ),
        (
            // unused imports in front of imports that stay: gc deletes import entries ahead of the memory / table imports
            "mvp:unused-imports-before-imported-memory-and-table".into(),
            wgen::stateful::assemble(
                r#"(module (type $v (func)) (import "a" "f" (func)) (import "a" "g" (global $g i32)) (import "a" "u" (global i32)) (import "a" "m" (memory 1)) (import "a" "t" (table 2 funcref))
                 (func (export "r") (result i32) (call_indirect (type $v) (i32.const 0)) (i32.load (global.get $g))))"#,
            )
            .unwrap(),
        ),
    ]
}

/// if two binaries differ only in how block types are written - a type index on one side, the
/// inline form of the *same* signature on the other - say so (a narrow, recognisable difference)
fn only_block_type_encoding_differs(a: &[u8], b: &[u8]) -> bool {
    let (wa, wb) = match (wmodel::decode(a), wmodel::decode(b)) {
        (Ok(x), Ok(y)) => (x, y),
        _ => return false,
    };
    if wa.funcs.len() != wb.funcs.len() || wa.types != wb.types {
        return false;
    }
    let sig = |w: &wmodel::WModule, i: &wmodel::Imm| -> Option<wmodel::FuncSig> {
        match i {
            wmodel::Imm::Block(wmodel::BlockTy::Empty) => Some(wmodel::FuncSig { params: vec![], results: vec![] }),
            wmodel::Imm::Block(wmodel::BlockTy::Val(t)) => Some(wmodel::FuncSig { params: vec![], results: vec![t.clone()] }),
            wmodel::Imm::Block(wmodel::BlockTy::Func(k)) => w.types.get(*k as usize).cloned().flatten(),
            _ => None,
        }
    };
    let mut seen = false;
    for (fa, fb) in wa.funcs.iter().zip(wb.funcs.iter()) {
        match (&fa.body, &fb.body) {
            (None, None) => {}
            (Some(x), Some(y)) => {
                if x.ops.len() != y.ops.len() || x.locals != y.locals {
                    return false;
                }
                for ((oa, _), (ob, _)) in x.ops.iter().zip(y.ops.iter()) {
                    if oa == ob {
                        continue;
                    }
                    if oa.name != ob.name || oa.imms.len() != 1 || ob.imms.len() != 1 {
                        return false;
                    }
                    match (sig(&wa, &oa.imms[0]), sig(&wb, &ob.imms[0])) {
                        (Some(p), Some(q)) if p == q && p.params.is_empty() && p.results.len() <= 1 => seen = true,
                        _ => return false,
                    }
                }
            }
            _ => return false,
        }
    }
    seen
}

/// is the entity that an added import brought in referred to by anything in the module (an
/// export, the start, a segment, a global initialiser, an instruction)?  Removing the import of
/// something that is still used would be an ill-formed edit.
fn referenced(m: &Module, ent: AddedImport) -> bool {
    struct Finder {
        ent: AddedImport,
        found: bool,
    }
    impl<'i> ir::Visitor<'i> for Finder {
        fn visit_function_id(&mut self, x: &FunctionId) {
            self.found |= matches!(self.ent, AddedImport::F(f) if f == *x);
        }
        fn visit_global_id(&mut self, x: &GlobalId) {
            self.found |= matches!(self.ent, AddedImport::G(g) if g == *x);
        }
        fn visit_table_id(&mut self, x: &TableId) {
            self.found |= matches!(self.ent, AddedImport::T(t) if t == *x);
        }
        fn visit_memory_id(&mut self, x: &MemoryId) {
            self.found |= matches!(self.ent, AddedImport::M(mm) if mm == *x);
        }
    }
    let in_expr = |e: &ConstExpr| match (e, ent) {
        (ConstExpr::Global(g), AddedImport::G(x)) => *g == x,
        (ConstExpr::RefFunc(f), AddedImport::F(x)) => *f == x,
        _ => false,
    };
    if m.exports.iter().any(|e| match (e.item, ent) {
        (ExportItem::Function(a), AddedImport::F(b)) => a == b,
        (ExportItem::Global(a), AddedImport::G(b)) => a == b,
        (ExportItem::Table(a), AddedImport::T(b)) => a == b,
        (ExportItem::Memory(a), AddedImport::M(b)) => a == b,
        _ => false,
    }) {
        return true;
    }
    if let (Some(s), AddedImport::F(f)) = (m.start, ent) {
        if s == f {
            return true;
        }
    }
    for e in m.elements.iter() {
        if let ElementKind::Active { table, offset } = &e.kind {
            if matches!(ent, AddedImport::T(t) if t == *table) || in_expr(offset) {
                return true;
            }
        }
        match &e.items {
            ElementItems::Functions(fs) => {
                if let AddedImport::F(f) = ent {
                    if fs.contains(&f) {
                        return true;
                    }
                }
            }
            ElementItems::Expressions(_, es) => {
                if es.iter().any(in_expr) {
                    return true;
                }
            }
        }
    }
    for d in m.data.iter() {
        if let DataKind::Active { memory, offset } = &d.kind {
            if matches!(ent, AddedImport::M(mm) if mm == *memory) || in_expr(offset) {
                return true;
            }
        }
    }
    for g in m.globals.iter() {
        if let GlobalKind::Local(e) = &g.kind {
            if in_expr(e) {
                return true;
            }
        }
    }
    let mut finder = Finder { ent, found: false };
    for (_, f) in m.funcs.iter_local() {
        ir::dfs_in_order(&mut finder, f, f.entry_block());
        if finder.found {
            return true;
        }
    }
    false
}

struct Bump;
impl walrus::ir::VisitorMut for Bump {
    fn visit_const_mut(&mut self, c: &mut walrus::ir::Const) {
        if let Value::I32(v) = &mut c.value {
            if *v >= 0 && *v < 64 {
                *v += 1 << 21;
            }
        }
    }
}

fn counts(m: &Module) -> [usize; 6] {
    [m.funcs.iter().count(), m.tables.iter().count(), m.memories.iter().count(), m.globals.iter().count(), m.elements.iter().count(), m.data.iter().count()]
}

#[derive(Clone, Copy, Debug)]
enum Added {
    Func(FunctionId),
    Global(GlobalId),
    Data(DataId),
    Elem(ElementId),
}

pub struct EObj {
    m: Module,
    serial: i32,
    /// entities added by this history that nothing refers to yet (safe to delete)
    unreferenced: Vec<Added>,
    newest_func: Option<FunctionId>,
    /// imports this history added and has not removed again: (module, field, kind 0..3, entity)
    added_imports: Vec<(String, String, u8, AddedImport)>,
    /// what the model noticed while applying operations (reported by the C04 oracle)
    noticed: Vec<Finding>,
}

#[derive(Clone, Copy, Debug)]
enum AddedImport {
    F(FunctionId),
    G(GlobalId),
    T(TableId),
    M(MemoryId),
}

pub struct EditSubject<'a> {
    pub wasm: &'a [u8],
    /// "C02": the output must validate; "C08": emission must be repeatable and a fixpoint;
    /// "C04": additions leave the rest untouched; "C07": gc after edits is precise and idempotent
    pub oracle: &'static str,
    /// the unedited output, decoded, and the entity counts of the freshly parsed module (C04)
    plain: Option<(wmodel::WModule, [usize; 6])>,
    /// C20: a base for the feature-neutral oracle
    pub neutral: bool,
}

impl<'a> EditSubject<'a> {
    pub fn new(wasm: &'a [u8], oracle: &'static str) -> Self {
        let mut plain = None;
        if oracle == "C04" {
            if let Ok(mut m) = parse(wasm, &Cfg::default()) {
                let c = counts(&m);
                if let Ok(out) = emit(&mut m) {
                    if let Ok(w) = wmodel::decode(&out) {
                        plain = Some((w, c));
                    }
                }
            }
        }
        EditSubject { wasm, oracle, plain, neutral: false }
    }
    /// the history replayed with one extra (discarded) emit before operation `at`
    fn with_emit_at(&self, hist: &[EOp], at: usize) -> Result<Vec<u8>, String> {
        let mut o = self.fresh()?;
        for (i, op) in hist.iter().enumerate() {
            if i == at {
                o.m.emit_wasm();
            }
            apply_op(&mut o, op);
        }
        Ok(o.m.emit_wasm())
    }
}

fn const_for(b: &mut InstrSeqBuilder, t: ValType, k: i32) {
    match t {
        ValType::I32 => {
            b.i32_const(k);
        }
        ValType::I64 => {
            b.i64_const(k as i64);
        }
        ValType::F32 => {
            b.f32_const(k as f32);
        }
        ValType::F64 => {
            b.f64_const(k as f64);
        }
        ValType::V128 => {
            b.const_(Value::V128(k as u128));
        }
        ValType::Ref(r) => {
            b.ref_null(r);
        }
    }
}

fn first_func_with(m: &Module, params: &[ValType], results: &[ValType]) -> Option<FunctionId> {
    m.funcs.iter().find(|f| {
        let t = m.types.get(f.ty());
        t.params() == params && t.results() == results
    }).map(|f| f.id())
}

fn apply_op(o: &mut EObj, op: &EOp) {
    o.serial += 1;
    let k = o.serial;
    let m = &mut o.m;
    match *op {
        EOp::AddFunc(s, body) => {
            let (params, results): (Vec<ValType>, Vec<ValType>) = match s {
                0 => (vec![], vec![]),
                1 => (vec![ValType::I32], vec![ValType::I32]),
                2 => (vec![], vec![ValType::I64]),
                _ => (vec![ValType::I32], vec![ValType::I32, ValType::I32]),
            };
            let callee = first_func_with(m, &[], &[]);
            let g = m.globals.iter().find(|g| g.ty == ValType::I32).map(|g| g.id());
            let mem = m.memories.iter().find(|x| !x.memory64).map(|x| x.id());
            let tab = m.tables.iter().next().map(|t| (t.id(), t.table64));
            let args: Vec<LocalId> = params.iter().map(|t| m.locals.add(*t)).collect();
            let mut b = FunctionBuilder::new(&mut m.types, &params, &results);
            b.name(format!("edit_fn{}", k));
            {
                let mut fb = b.func_body();
                fb.i32_const(9000 + k).drop();
                match body {
                    1 => {
                        if let Some(c) = callee {
                            fb.call(c);
                            // the callee may be a function this history added: it is referenced now
                            o.unreferenced.retain(|a| !matches!(a, Added::Func(x) if *x == c));
                        }
                    }
                    2 => {
                        if let Some(g) = g {
                            fb.global_get(g).drop();
                            o.unreferenced.retain(|a| !matches!(a, Added::Global(x) if *x == g));
                        }
                    }
                    3 => {
                        if let Some(mm) = mem {
                            fb.i32_const(0).load(mm, ir::LoadKind::I32 { atomic: false }, ir::MemArg { align: 4, offset: 0 }).drop();
                        }
                    }
                    4 => {
                        if let Some((t, _)) = tab {
                            fb.table_size(t).drop();
                        }
                    }
                    5 => {
                        // a block type with a parameter and one result, made through the public constructor
                        let bt = ir::InstrSeqType::new(&mut m.types, &[ValType::I32], &[ValType::I32]);
                        fb.i32_const(k).block(bt, |b| {
                            b.i32_const(1).binop(ir::BinaryOp::I32Add);
                        }).drop();
                    }
                    10 => {
                        // a block type looked up (not created) among the module's types: two i32 results, no parameters
                        if let Some(bt) = ir::InstrSeqType::existing(&m.types, &[], &[ValType::I32, ValType::I32]) {
                            fb.block(bt, |b| {
                                b.i32_const(k).i32_const(1);
                            })
                            .drop()
                            .drop();
                        }
                    }
                    12 => {
                        // a value-producing loop put in front of what is already there with the positional API, with a back edge
                        fb.drop();
                        fb.loop_at(0, ValType::I32, |lp| {
                            let me = lp.id();
                            lp.i32_const(0).br_if(me).i32_const(k);
                        });
                    }
                    11 => {
                        // a block typed by an explicit type id whose signature the inline forms could also express
                        let ty = m.types.add(&[], &[ValType::F64]);
                        fb.block(ty, |b| {
                            b.f64_const(k as f64);
                        })
                        .drop();
                    }
                    9 => {
                        // bulk-memory instructions on a data segment of the input (which may have needed no data-count section so far)
                        let d = m.data.iter().next().map(|d| d.id());
                        if let (Some(d), Some(mm)) = (d, mem) {
                            fb.i32_const(0).i32_const(0).i32_const(0).memory_init(mm, d).data_drop(d);
                        }
                    }
                    7 => {
                        // block types MVP can express, made through the public constructor
                        let bt = ir::InstrSeqType::new(&mut m.types, &[], &[ValType::I32]);
                        fb.block(bt, |b| {
                            b.i32_const(k);
                        })
                        .drop();
                    }
                    8 => {
                        let bt = ir::InstrSeqType::new(&mut m.types, &[], &[]);
                        fb.i32_const(k).if_else(bt, |t| { t.i32_const(1).drop(); }, |e| { e.i32_const(2).drop(); });
                    }
                    6 => {
                        // two parameters in, two results out of an if/else
                        let bt = ir::InstrSeqType::new(&mut m.types, &[ValType::I32, ValType::I32], &[ValType::I32, ValType::I32]);
                        fb.i32_const(k).i32_const(2).i32_const(1).if_else(bt, |t| { t.binop(ir::BinaryOp::I32Add).i32_const(3); }, |_e| {}).drop().drop();
                    }
                    _ => {}
                }
                for r in &results {
                    const_for(&mut fb, *r, k);
                }
            }
            let f = b.finish(args, &mut m.funcs);
            o.newest_func = Some(f);
            o.unreferenced.push(Added::Func(f));
        }
        EOp::ExportNewestFunc => {
            if let Some(f) = o.newest_func.or_else(|| m.funcs.iter().next().map(|f| f.id())) {
                if m.funcs.iter().any(|x| x.id() == f) {
                    m.exports.add(&format!("edit{}", k), f);
                    o.unreferenced.retain(|a| !matches!(a, Added::Func(x) if *x == f));
                }
            }
        }
        EOp::ExportFirst(kind) => match kind {
            0 => {
                if let Some(g) = m.globals.iter().next().map(|g| g.id()) {
                    m.exports.add(&format!("edit{}", k), g);
                    o.unreferenced.retain(|a| !matches!(a, Added::Global(x) if *x == g));
                }
            }
            1 => {
                if let Some(x) = m.memories.iter().next().map(|g| g.id()) {
                    m.exports.add(&format!("edit{}", k), x);
                }
            }
            _ => {
                if let Some(x) = m.tables.iter().next().map(|g| g.id()) {
                    m.exports.add(&format!("edit{}", k), x);
                }
            }
        },
        EOp::AddImport(kind) => match kind {
            0 => {
                let ty = m.types.add(&[ValType::I32], &[]);
                let (f, _) = m.add_import_func("edit", &format!("f{}", k), ty);
                m.funcs.get_mut(f).name = Some(format!("edit_if{}", k));
                o.added_imports.push(("edit".into(), format!("f{}", k), 0, AddedImport::F(f)));
            }
            1 => {
                let (g, _) = m.add_import_global("edit", &format!("g{}", k), ValType::I32, false, false);
                m.globals.get_mut(g).name = Some(format!("edit_ig{}", k));
                o.added_imports.push(("edit".into(), format!("g{}", k), 3, AddedImport::G(g)));
            }
            2 => {
                let (t, _) = m.add_import_table("edit", &format!("t{}", k), false, 1, None, RefType::Funcref);
                m.tables.get_mut(t).name = Some(format!("edit_it{}", k));
                o.added_imports.push(("edit".into(), format!("t{}", k), 1, AddedImport::T(t)));
            }
            _ => {
                let (mm, _) = m.add_import_memory("edit", &format!("m{}", k), false, false, 1, None, None);
                m.memories.get_mut(mm).name = Some(format!("edit_im{}", k));
                o.added_imports.push(("edit".into(), format!("m{}", k), 2, AddedImport::M(mm)));
            }
        },
        EOp::AddGlobal(kind) => {
            let id = match kind {
                0 => Some(m.globals.add_local(ValType::I32, true, false, ConstExpr::Value(Value::I32(k)))),
                1 => {
                    let src = m.globals.iter().find(|g| matches!(g.kind, GlobalKind::Import(_)) && g.ty == ValType::I32 && !g.mutable).map(|g| g.id());
                    src.map(|s| m.globals.add_local(ValType::I32, false, false, ConstExpr::Global(s)))
                }
                _ => {
                    let f = o.newest_func.filter(|f| m.funcs.iter().any(|x| x.id() == *f)).or_else(|| m.funcs.iter().next().map(|f| f.id()));
                    f.map(|f| {
                        o.unreferenced.retain(|a| !matches!(a, Added::Func(x) if *x == f));
                        m.globals.add_local(ValType::Ref(RefType::Funcref), false, false, ConstExpr::RefFunc(f))
                    })
                }
            };
            if let Some(id) = id {
                m.globals.get_mut(id).name = Some(format!("edit_g{}", k));
                o.unreferenced.push(Added::Global(id));
            }
        }
        EOp::AddData(kind) => {
            let mem = m.memories.iter().find(|x| !x.memory64).map(|x| x.id());
            if kind == 0 || mem.is_none() {
                let id = m.data.add(DataKind::Passive, vec![k as u8; 3]);
                o.unreferenced.push(Added::Data(id));
            } else {
                let mem = mem.unwrap();
                let id = m.data.add(DataKind::Active { memory: mem, offset: ConstExpr::Value(Value::I32(0)) }, vec![k as u8; 2]);
                // kind 1 also records the segment in the memory's own list, kind 2 only adds it
                // (`ModuleData::add` asks for nothing more)
                if kind == 1 {
                    m.memories.get_mut(mem).data_segments.insert(id);
                }
            }
        }
        EOp::AddElem(kind) => {
            let f = m.funcs.iter().next().map(|f| f.id());
            let f = match f {
                Some(f) => f,
                None => return,
            };
            o.unreferenced.retain(|a| !matches!(a, Added::Func(x) if *x == f));
            let mut tab = m.tables.iter().find(|t| t.element_ty == RefType::Funcref && !t.table64 && t.initial >= 1).map(|t| t.id());
            if kind == 3 {
                // an imported table when there is one
                tab = m.tables.iter().find(|t| t.import.is_some() && t.element_ty == RefType::Funcref && !t.table64 && t.initial >= 1).map(|t| t.id()).or(tab);
            }
            match (kind, tab) {
                (0, _) | (_, None) if kind != 1 => {
                    let id = m.elements.add(ElementKind::Passive, ElementItems::Functions(vec![f]));
                    o.unreferenced.push(Added::Elem(id));
                }
                (1, _) => {
                    m.elements.add(ElementKind::Declared, ElementItems::Functions(vec![f]));
                }
                (_, None) => {}
                (_, Some(t)) => {
                    let id = m.elements.add(ElementKind::Active { table: t, offset: ConstExpr::Value(Value::I32(0)) }, ElementItems::Functions(vec![f]));
                    // kind 2 also records the segment in the table's own list, kind 3 only adds it
                    // (`ModuleElements::add` asks for nothing more)
                    if kind == 2 {
                        m.tables.get_mut(t).elem_segments.insert(id);
                    }
                }
            }
        }
        EOp::DeleteFirstExport => {
            let e = m.exports.iter().next().map(|e| e.id());
            if let Some(e) = e {
                m.exports.delete(e);
            }
        }
        EOp::DeleteNewestUnreferenced => {
            if let Some(a) = o.unreferenced.pop() {
                match a {
                    Added::Func(f) => {
                        if m.funcs.iter().any(|x| x.id() == f) {
                            m.funcs.delete(f);
                        }
                        if o.newest_func == Some(f) {
                            o.newest_func = None;
                        }
                    }
                    Added::Global(g) => {
                        if m.globals.iter().any(|x| x.id() == g) {
                            m.globals.delete(g)
                        }
                    }
                    Added::Data(d) => {
                        if m.data.iter().any(|x| x.id() == d) {
                            m.data.delete(d)
                        }
                    }
                    Added::Elem(e) => {
                        if m.elements.iter().any(|x| x.id() == e) {
                            m.elements.delete(e)
                        }
                    }
                }
            }
        }
        EOp::ReplaceImported(kind) => {
            let f = if kind >= 2 {
                m.imports.iter().filter_map(|i| match i.kind { walrus::ImportKind::Function(f) => Some(f), _ => None }).last()
            } else {
                m.funcs.iter().find(|f| matches!(f.kind, FunctionKind::Import(_))).map(|f| f.id())
            };
            if let Some(f) = f {
                let results: Vec<ValType> = m.types.get(m.funcs.get(f).ty()).results().to_vec();
                let _ = m.replace_imported_func(f, |(b, _args)| {
                    if kind == 0 {
                        b.unreachable();
                    } else {
                        for r in &results {
                            const_for(b, *r, k);
                        }
                    }
                });
            }
        }
        EOp::ReplaceExported(kind) => {
            let f = m.exports.iter().find_map(|e| match e.item {
                ExportItem::Function(f) if matches!(m.funcs.get(f).kind, FunctionKind::Local(_)) => Some(f),
                _ => None,
            });
            if let Some(f) = f {
                let results: Vec<ValType> = m.types.get(m.funcs.get(f).ty()).results().to_vec();
                let _ = m.replace_exported_func(f, |(b, _args)| {
                    if kind == 0 {
                        b.unreachable();
                    } else {
                        for r in &results {
                            const_for(b, *r, k);
                        }
                    }
                });
            }
        }
        EOp::SetStart => {
            if let Some(f) = first_func_with(m, &[], &[]) {
                m.start = Some(f);
                o.unreferenced.retain(|a| !matches!(a, Added::Func(x) if *x == f));
            }
        }
        EOp::ClearStart => m.start = None,
        EOp::AddFuncTableEntry => {
            let f = match m.funcs.iter().next().map(|f| f.id()) {
                Some(f) => f,
                None => return,
            };
            let t = match m.tables.main_function_table() {
                Ok(Some(t)) => t,
                Ok(None) => m.tables.add_local(false, 1, None, RefType::Funcref),
                Err(_) => return, // several function tables: the tool gives up
            };
            if m.tables.get(t).table64 || m.tables.get(t).initial < 1 {
                return;
            }
            o.unreferenced.retain(|a| !matches!(a, Added::Func(x) if *x == f));
            let id = m.elements.add(ElementKind::Active { table: t, offset: ConstExpr::Value(Value::I32(0)) }, ElementItems::Functions(vec![f]));
            m.tables.get_mut(t).elem_segments.insert(id);
        }
        EOp::MakeFirstActiveDataPassive => {
            let d = m.data.iter().find(|d| matches!(d.kind, DataKind::Active { .. })).map(|d| d.id());
            if let Some(d) = d {
                m.data.get_mut(d).kind = DataKind::Passive;
            }
        }
        EOp::ExternalizeMemoryThenGc => {
            let mems: Vec<(MemoryId, bool, bool, u64, Option<u64>, bool)> = m.memories.iter().map(|x| (x.id(), x.import.is_some(), x.memory64, x.initial, x.maximum, x.shared)).collect();
            if mems.len() != 1 || mems[0].1 || mems[0].2 {
                return;
            }
            let (old, _, _, initial, maximum, shared) = mems[0];
            let (new, _) = m.add_import_memory("edit", &format!("mem{}", k), shared, false, initial, maximum, None);
            let ds: Vec<walrus::DataId> = m.data.iter().filter(|d| matches!(d.kind, DataKind::Active { memory, .. } if memory == old)).map(|d| d.id()).collect();
            for d in ds {
                if let DataKind::Active { memory, .. } = &mut m.data.get_mut(d).kind {
                    *memory = new;
                }
                m.memories.get_mut(old).data_segments.remove(&d);
                m.memories.get_mut(new).data_segments.insert(d);
            }
            struct Swap {
                old: MemoryId,
                new: MemoryId,
            }
            impl ir::VisitorMut for Swap {
                fn visit_memory_id_mut(&mut self, m: &mut MemoryId) {
                    if *m == self.old {
                        *m = self.new;
                    }
                }
            }
            let fids: Vec<FunctionId> = m.funcs.iter_local().map(|(id, _)| id).collect();
            for fid in fids {
                let f = m.funcs.get_mut(fid).kind.unwrap_local_mut();
                let entry = f.entry_block();
                ir::dfs_pre_order_mut(&mut Swap { old, new }, f, entry);
            }
            for e in m.exports.iter_mut() {
                if matches!(e.item, ExportItem::Memory(x) if x == old) {
                    e.item = ExportItem::Memory(new);
                }
            }
            walrus::passes::gc::run(m);
            // gc may have deleted what this history added
            o.unreferenced.clear();
            o.added_imports.clear();
            if let Some(f) = o.newest_func {
                if !m.funcs.iter().any(|x| x.id() == f) {
                    o.newest_func = None;
                }
            }
        }
        EOp::RepointFirstFuncExport => {
            let old = m.exports.iter().find_map(|e| match e.item {
                ExportItem::Function(f) => Some((e.id(), e.name.clone(), f)),
                _ => None,
            });
            if let Some((old_id, name, cur)) = old {
                // another function of the same signature (so that the module stays as valid as it was)
                let ty = m.funcs.get(cur).ty();
                let other = m.funcs.iter().find(|f| f.id() != cur && f.ty() == ty).map(|f| f.id());
                if let Some(other) = other {
                    o.unreferenced.retain(|a| !matches!(a, Added::Func(x) if *x == other));
                    let before: Vec<String> = m.exports.iter().map(|e| e.name.clone()).collect();
                    m.exports.add(&name, other);
                    m.exports.delete(old_id);
                    let mut after: Vec<String> = m.exports.iter().map(|e| e.name.clone()).collect();
                    let still = m.exports.iter().any(|e| e.name == name && matches!(e.item, ExportItem::Function(f) if f == other));
                    let mut b2 = before.clone();
                    b2.sort();
                    after.sort();
                    if !still || b2 != after {
                        o.noticed.push(Finding {
                            sig: "export-lost-by-add-then-delete".into(),
                            detail: format!("exports.add({:?}, other function) followed by exports.delete(old id) turned the export names {:?} into {:?}", name, before, after),
                        });
                    }
                }
            }
        }
        EOp::AddImportSameField => {
            let field = o.added_imports.iter().rev().find(|x| x.0 == "edit").map(|x| x.1.clone());
            if let Some(field) = field {
                if !o.added_imports.iter().any(|x| x.0 == "edit2" && x.1 == field) {
                    let (g, _) = m.add_import_global("edit2", &field, ValType::I64, false, false);
                    o.added_imports.push(("edit2".into(), field, 3, AddedImport::G(g)));
                }
            }
        }
        EOp::RemoveNewestAddedImport => {
            // only an import whose entity nothing refers to (yet) may go
            let removable = o.added_imports.last().map(|x| !referenced(m, x.3) && match x.3 {
                AddedImport::F(f) => matches!(m.funcs.get(f).kind, FunctionKind::Import(_)),
                _ => true,
            }).unwrap_or(false);
            if !removable {
                return;
            }
            if let Some((module, field, _, ent)) = o.added_imports.pop() {
                let before: Vec<(String, String)> = m.imports.iter().map(|i| (i.module.clone(), i.name.clone())).collect();
                let _ = m.imports.remove(&module, &field);
                let after: Vec<(String, String)> = m.imports.iter().map(|i| (i.module.clone(), i.name.clone())).collect();
                // exactly the requested (module, field) entry - the last one added under it - is gone
                let mut want = before.clone();
                if let Some(p) = want.iter().rposition(|x| x.0 == module && x.1 == field) {
                    want.remove(p);
                }
                if after != want {
                    o.noticed.push(Finding {
                        sig: "imports-remove-took-another-entry".into(),
                        detail: format!("imports.remove({:?}, {:?}) turned the import list {:?} into {:?}", module, field, before, after),
                    });
                }
                // the entity the import brought in is unreferenced (nothing in this model refers to added imports)
                match ent {
                    AddedImport::F(f) => {
                        if m.funcs.iter().any(|x| x.id() == f) {
                            m.funcs.delete(f)
                        }
                    }
                    AddedImport::G(g) => {
                        if m.globals.iter().any(|x| x.id() == g) {
                            m.globals.delete(g)
                        }
                    }
                    AddedImport::T(t) => {
                        if m.tables.iter().any(|x| x.id() == t) {
                            m.tables.delete(t)
                        }
                    }
                    AddedImport::M(mm) => {
                        if m.memories.iter().any(|x| x.id() == mm) {
                            m.memories.delete(mm)
                        }
                    }
                }
            }
        }
        EOp::GrowBody(which) => {
            let ids: Vec<FunctionId> = m.funcs.iter_local().map(|(id, _)| id).collect();
            let id = if which == 0 { ids.first().copied() } else { ids.last().copied() };
            if let Some(id) = id {
                let lf = m.funcs.get_mut(id).kind.unwrap_local_mut();
                let entry = lf.entry_block();
                let seq = lf.block_mut(entry);
                for j in 0..6 {
                    seq.instrs.insert(0, (ir::Instr::Drop(ir::Drop {}), Default::default()));
                    seq.instrs.insert(0, (ir::Instr::Const(ir::Const { value: Value::I32(70_000 + k * 8 + j) }), Default::default()));
                }
            }
        }
        EOp::BumpConsts => {
            let id = m.funcs.iter_local().map(|(id, _)| id).next();
            if let Some(id) = id {
                let lf = m.funcs.get_mut(id).kind.unwrap_local_mut();
                let entry = lf.entry_block();
                ir::dfs_pre_order_mut(&mut Bump, lf, entry);
            }
        }
        EOp::Gc => {
            walrus::passes::gc::run(m);
            // gc may have deleted what this history added
            o.unreferenced.clear();
            o.added_imports.clear();
            if let Some(f) = o.newest_func {
                if !m.funcs.iter().any(|x| x.id() == f) {
                    o.newest_func = None;
                }
            }
        }
    }
}

impl<'a> Subject for EditSubject<'a> {
    type Op = EOp;
    type Obj = EObj;
    fn fresh(&self) -> Result<EObj, String> {
        parse(self.wasm, &Cfg::default()).map(|m| EObj { m, serial: 0, unreferenced: vec![], newest_func: None, added_imports: vec![], noticed: vec![] }).map_err(|f| f.detail())
    }
    fn ops(&self, _h: &[EOp]) -> Vec<EOp> {
        if self.oracle == "C20" && self.neutral {
            return all_ops().into_iter().filter(feature_neutral).collect();
        }
        if self.oracle == "C20" {
            let has = self.wasm.len() > 8;
            return all_ops().into_iter().filter(|op| mvp_safe(op, has)).collect();
        }
        all_ops()
    }
    fn apply(&self, o: &mut EObj, op: &EOp, _at: usize) -> Result<(), Finding> {
        apply_op(o, op);
        Ok(())
    }
    fn observe(&self, mut o: EObj, hist: &[EOp]) -> (u64, Vec<Finding>) {
        let mut fs = vec![];
        if self.oracle == "C04" && !o.noticed.is_empty() {
            // the model saw an edit do something else than asked: report it before anything can
            // go wrong while emitting the now inconsistent module
            return (wmodel::fnv(format!("{:?}", hist).as_bytes()), std::mem::take(&mut o.noticed));
        }
        let out = o.m.emit_wasm();
        if self.oracle == "C08" {
            let e2 = o.m.emit_wasm();
            if e2 != out {
                fs.push(Finding {
                    sig: format!("emit-not-repeatable:{}", crate::props::modhist::first_diff(&out, &e2)),
                    detail: format!("after the edit history {:?} two consecutive emits differ", hist),
                });
            }
            if wmodel::validate214(&out, wmodel::FeatureSet::DEFAULT).is_ok() {
                match Cfg::default().config().parse(&out) {
                    Ok(mut m2) => {
                        let e3 = m2.emit_wasm();
                        if e3 != out {
                            // D19 (known finding) is about block types the *history* gave as an explicit type id (body kind 11);
                            // a type index where every block type was made through `InstrSeqType::new` / the inline conversions is something else
                            let asked_for_type_id = hist.iter().any(|h| matches!(h, EOp::AddFunc(_, 11)));
                            let what = if only_block_type_encoding_differs(&out, &e3) {
                                if asked_for_type_id { "block-type-index-vs-inline-form-of-the-same-signature".to_string() } else { "block-type-index-emitted-where-no-type-id-was-given".to_string() }
                            } else {
                                crate::props::modhist::first_diff(&out, &e3)
                            };
                            fs.push(Finding {
                                sig: format!("not-a-fixpoint:{}", what),
                                detail: format!("after the edit history {:?}: emit(parse(emit(s))) differs from emit(s) ({} vs {} bytes)", hist, e3.len(), out.len()),
                            });
                        }
                    }
                    Err(e) => fs.push(Finding { sig: "own-output-rejected".into(), detail: format!("{:#}", e) }),
                }
            }
            for at in 0..hist.len() {
                match self.with_emit_at(hist, at) {
                    Ok(o2) if o2 != out => fs.push(Finding {
                        sig: format!("emit-has-side-effect:{}", crate::props::modhist::first_diff(&out, &o2)),
                        detail: format!("the edit history {:?} yields different bytes when the module is also emitted (and the bytes discarded) before operation #{}", hist, at),
                    }),
                    _ => {}
                }
            }
            return (wmodel::fnv(&out), fs);
        }
        if self.oracle == "C04" {
            fs.append(&mut o.noticed);
            // the import list: the input's imports followed by exactly the imports this history
            // added and did not remove again, in that order (no gc in the history)
            if let (Some((plain, _)), true) = (&self.plain, hist.iter().all(|op| additive(op) || *op == EOp::RemoveNewestAddedImport)) {
                if let Ok(edited) = wmodel::decode(&out) {
                    let kind = |k: &wmodel::ImportKind| match k {
                        wmodel::ImportKind::Func(_) => 0u8,
                        wmodel::ImportKind::Table(_) => 1,
                        wmodel::ImportKind::Memory(_) => 2,
                        wmodel::ImportKind::Global(_) => 3,
                        _ => 4,
                    };
                    let mut want: Vec<(String, String, u8)> = plain.imports.iter().map(|i| (i.module.clone(), i.name.clone(), kind(&i.kind))).collect();
                    want.extend(o.added_imports.iter().map(|x| (x.0.clone(), x.1.clone(), x.2)));
                    let got: Vec<(String, String, u8)> = edited.imports.iter().map(|i| (i.module.clone(), i.name.clone(), kind(&i.kind))).collect();
                    if got != want {
                        fs.push(Finding {
                            sig: "import-list-after-edits".into(),
                            detail: format!("after {:?} the import section should list {:?}, it lists {:?}", hist, want, got),
                        });
                    }
                }
            }
            if let (Some((plain, c0)), true) = (&self.plain, hist.iter().all(additive)) {
                if let Ok(edited) = wmodel::decode(&out) {
                    let c1 = counts(&o.m);
                    match wmodel::iso(&edited, plain, wmodel::IsoMode::Embed) {
                        Ok(maps) => {
                            // exactly the added entities are new
                            let spaces = [wmodel::Space::Func, wmodel::Space::Table, wmodel::Space::Mem, wmodel::Space::Global, wmodel::Space::Elem, wmodel::Space::Data];
                            for (i, sp) in spaces.iter().enumerate() {
                                let new = maps.fwd[wmodel::iso::sidx(*sp)].iter().filter(|x| x.is_none()).count();
                                let want = c1[i].saturating_sub(c0[i]);
                                if new != want {
                                    fs.push(Finding {
                                        sig: format!("additions-miscounted:{:?}", sp),
                                        detail: format!("after the additions {:?} the module holds {} more {:?} entities than before, the emitted binary {} more than the unedited output", hist, want, sp, new),
                                    });
                                }
                            }
                        }
                        Err(ms) => {
                            for mmm in ms {
                                fs.push(Finding {
                                    sig: format!("addition-disturbed-existing:{}", mmm.sig),
                                    detail: format!("after the additions {:?} the unedited output no longer embeds in the edited one: {}", hist, mmm.detail),
                                });
                            }
                        }
                    }
                }
            }
            return (wmodel::fnv(&out), fs);
        }
        if self.oracle == "C20" && self.neutral {
            if hist.iter().all(feature_neutral) && wmodel::validate214(&out, wmodel::FeatureSet::DEFAULT).is_ok() {
                let req = required_features(self.wasm);
                // a declared segment that is needed to keep a ref.func target declared is filed under
                // bulk memory by the validator although it belongs to reference types: tolerated when
                // the module needs reference types anyway and every declared segment is a necessary one
                let mut allowed = req;
                if req & (1 << 5) != 0 && !has_unnecessary_declared_segment(&out) {
                    allowed |= 1 << 4;
                }
                if let Err(e) = wmodel::validate214(&out, wmodel::FeatureSet(allowed)) {
                    fs.push(Finding {
                        sig: format!("edit-escalates-features:{}", crate::props::validity::norm_verr(&e)),
                        detail: format!("a module that needs only {:?}, edited with operations that need no proposal of their own ({:?}), now also needs more: {}", wmodel::FeatureSet(req).names(), hist, e),
                    });
                }
            }
            return (wmodel::fnv(&out), fs);
        }
        if self.oracle == "C20" {
            let has = self.wasm.len() > 8;
            // once gc ran the memory / table may be gone, and the model's AddData / AddElem fall back to passive segments
            let mut gone = false;
            let mut safe = true;
            for op in hist {
                safe &= mvp_safe(op, has && !gone);
                gone |= *op == EOp::Gc || *op == EOp::ExternalizeMemoryThenGc;
            }
            if safe && wmodel::validate214(&out, wmodel::FeatureSet::DEFAULT).is_ok() {
                if let Err(e) = wmodel::validate214(&out, wmodel::FeatureSet::MVP) {
                    fs.push(Finding {
                        sig: format!("mvp-edit-escalates:{}", crate::props::validity::norm_verr(&e)),
                        detail: format!("an MVP module edited with MVP-shaped operations {:?} no longer validates as MVP: {}", hist, e),
                    });
                }
            }
            return (wmodel::fnv(&out), fs);
        }
        if self.oracle == "C06" {
            // a history that ends in gc: compared with the same history without that gc, everything
            // reachable from the roots is still there and what is kept is unchanged
            if hist.last() == Some(&EOp::Gc) && wmodel::validate214(&out, wmodel::FeatureSet::DEFAULT).is_ok() {
                let before = (|| -> Option<Vec<u8>> {
                    let mut o2 = self.fresh().ok()?;
                    for op in &hist[..hist.len() - 1] {
                        apply_op(&mut o2, op);
                    }
                    Some(o2.m.emit_wasm())
                })();
                if let Some(before) = before {
                    if let (Ok(a), Ok(b)) = (wmodel::decode(&before), wmodel::decode(&out)) {
                        match wmodel::iso(&a, &b, wmodel::IsoMode::Gc) {
                            Ok(maps) => {
                                for (kind, detail) in crate::props::gcprops::reachable_lost(&a, &maps) {
                                    fs.push(Finding { sig: format!("gc-removed-reachable:{}", kind), detail: format!("after the edit history {:?}: {}", hist, detail) });
                                }
                            }
                            Err(ms) => {
                                for mm in ms.into_iter().take(2) {
                                    fs.push(Finding { sig: format!("gc-changed-kept-part:{}", mm.sig), detail: format!("after the edit history {:?}: {}", hist, mm.detail) });
                                }
                            }
                        }
                    }
                }
            }
            return (wmodel::fnv(&out), fs);
        }
        if self.oracle == "C07" {
            if hist.last() == Some(&EOp::Gc) && wmodel::validate214(&out, wmodel::FeatureSet::DEFAULT).is_ok() {
                // (only while a memory - the former one - is still there: a segment that survives without it is another matter)
                let made_passive = hist.iter().any(|h| *h == EOp::MakeFirstActiveDataPassive) && wmodel::decode(&out).map(|w| !w.memories.is_empty()).unwrap_or(false);
                for (sig, detail) in crate::props::gcprops::precision_findings(&out) {
                    // D20 (known finding): a data segment the history made passive stays listed in its former
                    // memory's `data_segments`; while that memory is used the pass keeps the segment. Keyed by the
                    // action and the kind of item; anything else that survives (the memory itself, ...) is not D20
                    let sig = if made_passive && sig == "gc-kept-unreachable:data-segment" { "gc-kept-unreachable:data-segment:made-passive-but-still-listed-by-its-used-former-memory".to_string() } else { sig };
                    fs.push(Finding { sig, detail: format!("after the edit history {:?}: {}", hist, detail) });
                }
                walrus::passes::gc::run(&mut o.m);
                let again = o.m.emit_wasm();
                if again != out {
                    fs.push(Finding {
                        sig: format!("gc-not-idempotent:{}", crate::props::modhist::first_diff(&out, &again)),
                        detail: format!("after the edit history {:?}, one more gc changes the emitted bytes ({} -> {} bytes)", hist, out.len(), again.len()),
                    });
                }
            }
            return (wmodel::fnv(&out), fs);
        }
        if let Err(e) = wmodel::validate214(&out, wmodel::FeatureSet::DEFAULT) {
            let last = hist.last().map(|o| format!("{:?}", o)).unwrap_or_default();
            let last: String = last.chars().take_while(|c| c.is_alphabetic()).collect();
            fs.push(Finding {
                sig: format!("invalid-output:after-edit:{}:{}", last, crate::props::validity::norm_verr(&e)),
                detail: format!("after the edit history {:?} the reference validator rejects the output: {}", hist, e),
            });
        }
        (wmodel::fnv(&out), fs)
    }
}

pub fn bases() -> Vec<(String, Vec<u8>)> {
    use wgen::families as fam;
    vec![
        ("empty".into(), b"\0asm\x01\0\0\0".to_vec()),
        ("struct:ctx".into(), fam::build_struct(&[])),
        ("funcs:[1,2,3]/chain/imp".into(), fam::build_funcs(&[1, 2, 3], 1, true)),
        ("reach:[0,16,22]".into(), fam::build_reach(&[0, 16, 22])),
        ("names:all".into(), fam::build_names(0, 0x1ff)),
        ("struct:elem=40,start=2".into(), fam::build_struct(&[("elem", 40), ("start", 2)])),
        // an active data segment and no instruction that needs a data-count section (so the input has none)
        ("active-data-no-count".into(), wgen::stateful::assemble(r#"(module (memory 1) (func (export "f") (i32.store (i32.const 0) (i32.const 1))) (data (i32.const 0) "a"))"#).unwrap()),
        // the same module / field names imported twice with different signatures, both in use
        ("same-names-imported-twice".into(), wgen::stateful::assemble(r#"(module (import "env" "f" (func $f1 (param i32))) (import "env" "f" (func $f2 (param i64) (result i64)))
            (import "env" "g" (func $g (result i32)))
            (func (export "run") (result i64) (call $f1 (call $g)) (call $f2 (i64.const 5))))"#).unwrap()),
        // a memory nothing but its data segment needs
        ("memory-only-data-needs".into(), wgen::stateful::assemble(r#"(module (memory 1) (data (i32.const 0) "x") (func (export "f") (nop)))"#).unwrap()),
        // an imported table, functions only a new element segment could make reachable
        ("imported-table".into(), wgen::stateful::assemble(r#"(module (type $r (func (result i32))) (import "env" "t" (table $t 4 funcref))
            (func $a (type $r) (i32.const 1))
            (func $b (type $r) (i32.const 2))
            (func (export "call") (param i32) (result i32) (call_indirect (type $r) (local.get 0))))"#).unwrap()),
        // types / globals / tables that only dead code uses: gc deletes them, a later edit re-creates them
        ("dead-types".into(), wgen::stateful::assemble(r#"(module
            (type $dead64 (func (result i64)))
            (type $deadi (func (param i32) (result i32)))
            (func $d1 (type $dead64) (i64.const 1))
            (func $d2 (type $deadi) (local.get 0))
            (global $dg (mut i32) (i32.const 3))
            (func $d3 (global.set $dg (i32.const 1)))
            (func (export "live") (nop)))"#).unwrap()),
    ]
}

fn ops_json(h: &[EOp]) -> serde_json::Value {
    json!(h.iter().map(|o| format!("{:?}", o)).collect::<Vec<_>>())
}
fn ops_from(v: &serde_json::Value) -> Vec<EOp> {
    let all = all_ops();
    v.as_array()
        .map(|a| a.iter().filter_map(|x| x.as_str()).filter_map(|s| all.iter().find(|o| format!("{:?}", o) == s).copied()).collect())
        .unwrap_or_default()
}

pub fn recheck(c: &Case) -> Vec<Violation> {
    recheck_as("C02", c)
}
pub fn recheck_as(oracle: &'static str, c: &Case) -> Vec<Violation> {
    let mut s = EditSubject::new(&c.wasm, oracle);
    s.neutral = c.coords.starts_with("neutral:");
    let h = ops_from(&c.cfg["edits"]);
    match replay(&s, &h) {
        Ok((_, fs)) => fs.into_iter().map(|f| Violation::new(oracle, f.sig, f.detail, c)).collect(),
        Err(f) => {
            if oracle == "C04" && h.iter().all(|o| additive(o) || matches!(o, EOp::Gc)) {
                vec![Violation::new("C04", format!("additions-never-emitted:panic:{}", f.sig.trim_start_matches("panic:")), f.detail, c)]
            } else if oracle != "C02" {
                vec![] // panics while editing / emitting are C02's
            } else {
                vec![Violation::new("C02", format!("edit-{}", f.sig), f.detail, c)]
            }
        }
    }
}

pub fn run_model(args: &Args, ev: &mut Ev) -> Vec<Violation> {
    run_model_as("C02", args, ev)
}
pub fn run_model_as(oracle: &'static str, args: &Args, ev: &mut Ev) -> Vec<Violation> {
    // C08 replays every history once more per position (emit commutation): one level less
    let depth = match (oracle, args.tier) {
        ("C08", Tier::Quick) => 2,
        (_, Tier::Quick) | ("C08", Tier::Thorough) => 3,
        _ => 4,
    };
    let bs = if oracle == "C20" { mvp_bases() } else { bases() };
    let (res, _) = pmap(&bs, args.threads, None, |(name, wasm)| {
        let mut s = EditSubject::new(wasm, oracle);
        s.neutral = name.starts_with("neutral:");
        explore(&s, depth)
    });
    let mut viol = vec![];
    let mut model = serde_json::Map::new();
    for ((name, wasm), r) in bs.iter().zip(res.into_iter()) {
        let (st, found) = r.unwrap();
        ev.states += st.states;
        ev.transitions += st.transitions;
        ev.evaluations += st.transitions;
        ev.max_depth = ev.max_depth.max(st.max_depth);
        model.insert(name.clone(), json!({"states": st.states, "transitions": st.transitions, "merged": st.merged}));
        for f in found {
            let c = Case { family: "edits".into(), coords: name.clone(), wasm: wasm.clone(), cfg: json!({"edits": ops_json(&f.hist)}) };
            // a history of additions (and gc) whose emission panics: what was added never reaches the output
            if oracle == "C04" && f.finding.sig.starts_with("panic:") && f.hist.iter().all(|o| additive(o) || matches!(o, EOp::Gc)) {
                viol.push(Violation::new(oracle, format!("additions-never-emitted:{}", f.finding.sig), f.finding.detail, &c));
                continue;
            }
            if oracle != "C02" && f.finding.sig.starts_with("panic:") {
                continue;
            }
            let sig = if f.finding.sig.starts_with("panic:") { format!("edit-{}", f.finding.sig) } else { f.finding.sig };
            viol.push(Violation::new(oracle, sig, f.finding.detail, &c));
        }
    }
    ev.extra.insert("edit_model".into(), json!({"actions": all_ops().len(), "depth": depth, "bases": model}));
    viol
}
