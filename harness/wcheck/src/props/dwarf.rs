//! C10: DWARF addresses follow their instructions and functions.

use crate::core::*;
use crate::pipe::*;
use crate::props::codemap::{insert_at, splice_position};
use crate::sweep::*;
use serde_json::json;
use std::collections::BTreeMap;
use wdwarf::{LowPc, Opts};
use wmodel::{decode, iso, IsoMode, Space};

fn opts_of(cfg: &serde_json::Value) -> Opts {
    Opts {
        version: cfg["version"].as_u64().unwrap_or(4) as u16,
        one_sequence: cfg["one_sequence"].as_bool().unwrap_or(false),
        file_index: cfg["file_index"].as_u64().unwrap_or(0) as u8,
        low_pc: if cfg["low_pc"].as_str() == Some("entry") { LowPc::Entry } else { LowPc::Body },
        range_form: match cfg["range_form"].as_str() {
            Some("addr") => wdwarf::RangeForm::Addr,
            Some("unit-ranges") => wdwarf::RangeForm::UnitRanges,
            Some("data4") => wdwarf::RangeForm::OffsetData4,
            _ => wdwarf::RangeForm::Offset,
        },
        nested: cfg["nested"].as_bool().unwrap_or(false),
    }
}

const TOMB: [u64; 2] = [0, 0xFFFF_FFFF];

pub fn check_case(c: &Case) -> CaseResult {
    let mut r = CaseResult::default();
    let o = opts_of(&c.cfg);
    let edit = c.cfg["edit"].as_str().unwrap_or("none").to_string();
    // c.wasm is the module *without* DWARF; synthesize and append
    if wmodel::validate214(&c.wasm, wmodel::FeatureSet::DEFAULT).is_err() {
        return r;
    }
    let a = match decode(&c.wasm) {
        Ok(a) => a,
        Err(_) => return r,
    };
    let secs = match wdwarf::synthesize(&a, o) {
        Ok(s) => s,
        Err(e) => {
            r.note = Some(format!("C10: DWARF synthesis failed for {}:{}: {}", c.family, c.coords, e));
            return r;
        }
    };
    let mut input = c.wasm.clone();
    for (n, d) in &secs {
        wgen::families::append_custom(&mut input, n, d);
    }
    r.valid_input = true;
    // sanity: the oracle must be able to read back what it wrote
    let in_rb = match decode(&input).map_err(|e| e.to_string()).and_then(|m| wdwarf::read_back(&wdwarf::debug_sections_of(&m))) {
        Ok(x) => x,
        Err(e) => {
            r.note = Some(format!("C10: oracle cannot read back its own DWARF for {}:{}: {}", c.family, c.coords, e));
            return r;
        }
    };
    let cfg = Cfg { dwarf: true, ..Cfg::default() };
    let reset_ct = c.cfg["reset_preserve_ct_after"].as_bool().unwrap_or(false);
    let custom_locs = c.cfg["instr_loc"].as_str() == Some("descending");
    let parsed = if custom_locs {
        // location ids supplied by the user, unique but ordered against the code offsets
        let mut wc = cfg.config();
        wc.on_instr_loc(|pos| walrus::ir::InstrLocId::new(0x7fff_0000 - *pos as u32));
        match std::panic::catch_unwind(std::panic::AssertUnwindSafe(|| wc.parse(&input))) {
            Ok(Ok(m)) => Ok(m),
            Ok(Err(e)) => Err(Fail::Rejected(format!("{:#}", e))),
            Err(p) => Err(Fail::Panic { stage: "parse", msg: panic_msg(p) }),
        }
    } else if reset_ct {
        // generate_dwarf(true) followed by an explicit preserve_code_transform(false)
        let mut wc = cfg.config();
        wc.preserve_code_transform(false);
        match std::panic::catch_unwind(std::panic::AssertUnwindSafe(|| wc.parse(&input))) {
            Ok(Ok(m)) => Ok(m),
            Ok(Err(e)) => Err(Fail::Rejected(format!("{:#}", e))),
            Err(p) => Err(Fail::Panic { stage: "parse", msg: panic_msg(p) }),
        }
    } else {
        parse(&input, &cfg)
    };
    let mut m = match parsed {
        Ok(m) => m,
        Err(Fail::Rejected(e)) => {
            r.violations.push(Violation::new("C10", "dwarf-parse-rejected", format!("walrus rejects a module with well-formed DWARF: {}", e), c));
            return r;
        }
        Err(f) => {
            r.violations.push(Violation::new("C10", format!("dwarf-{}", f.signature()), f.detail(), c));
            return r;
        }
    };
    r.transitions = 2;
    let mut reference = a.clone();
    let mut shift_func: Option<u32> = None;
    let mut shift_at = 0usize;
    match edit.as_str() {
        "gc" => {
            if gc(&mut m).is_err() {
                return r;
            }
        }
        "replace-import" => {
            // every imported function becomes a local one with an empty body; nothing else moves
            let fids: Vec<walrus::FunctionId> = m.imports.iter().filter_map(|i| match i.kind { walrus::ImportKind::Function(f) => Some(f), _ => None }).collect();
            if fids.is_empty() {
                return r;
            }
            for f in fids {
                if let Err(e) = m.replace_imported_func(f, |_| {}) {
                    r.note = Some(format!("C10: replace_imported_func refused: {:#}", e));
                    return r;
                }
            }
            match c.cfg["reference"].as_str().map(wmodel::unhex).and_then(|b| decode(&b).ok()) {
                Some(x) => reference = x,
                None => return r,
            }
        }
        "insert" | "insert-mid" | "insert-end" => {
            let fid = match m.funcs.iter_local().map(|(id, _)| id).next() {
                Some(f) => f,
                None => return r,
            };
            let pos = match splice_position(&a, &edit) {
                Some(p) => p,
                None => return r,
            };
            shift_at = pos;
            m.funcs.get_mut(fid).kind.unwrap_local_mut().builder_mut().func_body().const_at(pos, walrus::ir::Value::I32(0)).drop_at(pos + 1);
            match insert_at(&c.wasm, &a, 0, pos).and_then(|b| decode(&b).ok()) {
                Some(x) => reference = x,
                None => return r,
            }
            shift_func = Some(a.num_imported_funcs() as u32);
        }
        _ => {}
    }
    let out = match emit(&mut m) {
        Ok(o) => o,
        Err(f) => {
            // a panic on an input whose line sequence spans several functions is a case of its own (D14):
            // the same assertion firing on per-function sequences is something else
            let sig = if o.one_sequence { format!("dwarf-{}", f.signature()).replacen("dwarf-emit-panic:", "dwarf-emit-panic:sequence-spanning-functions:", 1) } else { format!("dwarf-{}", f.signature()) };
            r.violations.push(Violation::new("C10", sig, f.detail(), c));
            return r;
        }
    };
    r.digests.push(wmodel::fnv(&out));
    let b = match decode(&out) {
        Ok(b) => b,
        Err(_) => return r,
    };
    let maps = match iso(&reference, &b, if edit == "gc" { IsoMode::Gc } else { IsoMode::RoundTrip }) {
        Ok(m) => m,
        Err(e) => {
            r.note = Some(format!("C10: {}:{} skipped, not isomorphic ({})", c.family, c.coords, e[0].sig));
            return r;
        }
    };
    r.nontrivial = maps.renumbered() || maps.elided_ops > 0 || edit != "none";
    let out_rb = match wdwarf::read_back(&wdwarf::debug_sections_of(&b)) {
        Ok(x) => x,
        Err(e) => {
            r.violations.push(Violation::new("C10", "dwarf-output-unreadable", format!("gimli 0.32 cannot read the DWARF walrus emitted: {}", e), c));
            return r;
        }
    };
    let out_base = match b.code_contents_start {
        Some(x) => x,
        None => return r,
    };
    let mut bad = |sig: String, d: String| {
        let sig = if reset_ct { format!("after-preserve-ct-reset:{}", sig.split(':').next().unwrap_or("")) } else { sig };
        r.violations.push(Violation::new("C10", sig, d, c))
    };
    // line -> (input function, op index)
    let ords = wdwarf::ordinal_table(&a);
    let by_line: BTreeMap<u64, (u32, usize)> = ords.iter().map(|(k, v)| (*v, *k)).collect();
    let expected = |fi: u32, k: usize| -> Option<u64> {
        let kk = if shift_func == Some(fi) && k >= shift_at { k + 2 } else { k };
        let corr = maps.bodies.get(&fi)?;
        let j = (*corr.op_map.get(kk)?)?;
        Some(b.funcs[corr.b as usize].body.as_ref()?.ops[j].1 - out_base)
    };
    // function ranges of the output (entry incl. size LEB), relative
    let out_ranges: Vec<(u64, u64)> = b.funcs.iter().filter_map(|f| f.body.as_ref()).map(|x| (x.entry.start - out_base, x.entry.end - out_base)).collect();
    let inside_some_function = |addr: u64| out_ranges.iter().any(|(s, e)| addr >= *s && addr < *e);
    let mut out_by_line: BTreeMap<u64, Vec<&wdwarf::Row>> = BTreeMap::new();
    for row in out_rb.rows.iter().filter(|r| !r.end_sequence) {
        out_by_line.entry(row.line).or_default().push(row);
    }
    let in_rows: BTreeMap<u64, &wdwarf::Row> = in_rb.rows.iter().filter(|r| !r.end_sequence).map(|r| (r.line, r)).collect();
    let mut reported = 0;
    for (line, (fi, k)) in &by_line {
        let inrow = match in_rows.get(line) {
            Some(x) => *x,
            None => continue,
        };
        let opname = a.funcs[*fi as usize].body.as_ref().unwrap().ops[*k].0.name;
        let outs = out_by_line.get(line).cloned().unwrap_or_default();
        match expected(*fi, *k) {
            Some(addr) => {
                if outs.is_empty() {
                    if reported < 3 {
                        bad(format!("dwarf-row-lost:{}", opname), format!("instruction {} #{} of function {} (line {}) survives at code offset {} but has no line-table row", opname, k, fi, line, addr));
                    }
                    reported += 1;
                    continue;
                }
                for orow in outs {
                    if orow.address != addr {
                        let d = orow.address as i64 - addr as i64;
                        let sig = if TOMB.contains(&orow.address) {
                            format!("dwarf-row-tombstoned-though-instruction-survives:{}", opname)
                        } else if d.abs() <= 8 {
                            format!("dwarf-row-address-off-by:{}", d)
                        } else {
                            "dwarf-row-points-at-other-code".to_string()
                        };
                        if reported < 3 {
                            bad(sig, format!("row for {} #{} of function {} (line {}): address {} but the instruction is at {}", opname, k, fi, line, orow.address, addr));
                        }
                        reported += 1;
                    }
                    if orow.file_name != inrow.file_name || orow.column != inrow.column {
                        if reported < 3 {
                            bad("dwarf-row-file-or-column-changed".into(), format!("line {}: file {:?} col {} -> file {:?} col {}", line, inrow.file_name, inrow.column, orow.file_name, orow.column));
                        }
                        reported += 1;
                    }
                }
            }
            None => {
                // removed code: rows must be absent or tombstoned
                for orow in outs {
                    if !TOMB.contains(&orow.address) && inside_some_function(orow.address) {
                        if reported < 3 {
                            bad(
                                format!("dwarf-removed-code-row-points-into-code:{}", opname),
                                format!("{} #{} of function {} (line {}) was removed, but its row still names address {}, inside a function", opname, k, fi, line, orow.address),
                            );
                        }
                        reported += 1;
                    }
                }
            }
        }
    }
    // subprograms
    let out_subs: BTreeMap<&str, (u64, u64)> = out_rb.subprograms.iter().map(|(n, l, h)| (n.as_str(), (*l, *h))).collect();
    for (name, _, _) in &in_rb.subprograms {
        let fi: u32 = name.trim_start_matches("fn").parse().unwrap_or(u32::MAX);
        let got = out_subs.get(name.as_str()).copied();
        match maps.f(Space::Func, fi) {
            Some(fj) => {
                let body = b.funcs[fj as usize].body.as_ref().unwrap();
                let want = match o.low_pc {
                    LowPc::Body => (body.body.start - out_base, body.body.end - body.body.start),
                    LowPc::Entry => (body.entry.start - out_base, body.entry.end - body.entry.start),
                };
                match got {
                    Some(g) if g == want => {}
                    Some(g) => bad(
                        format!("dwarf-subprogram-range-wrong:{}:edit-{}", if o.low_pc == LowPc::Body { "body" } else { "entry" }, edit),
                        format!("subprogram {}: [low {}, len {}] but its function now occupies [low {}, len {}]", name, g.0, g.1, want.0, want.1),
                    ),
                    None => bad("dwarf-subprogram-lost".into(), format!("subprogram {} has no counterpart in the output", name)),
                }
            }
            None => {
                if let Some((l, h)) = got {
                    if !TOMB.contains(&l) && (inside_some_function(l) || (h > 0 && inside_some_function(l + h - 1))) {
                        bad(format!("dwarf-removed-function-subprogram-points-into-code:{}", if o.low_pc == LowPc::Body { "body" } else { "entry" }), format!("function of subprogram {} was removed but its range [{}, +{}) lies in emitted code", name, l, h));
                    }
                }
            }
        }
    }
    // the unit's range list (one pair per input function, in input order)
    if let Some(in_ranges) = &in_rb.unit_ranges {
        let in_ranges = in_ranges.clone().unwrap_or_default();
        let locals: Vec<u32> = a.funcs.iter().enumerate().filter(|(_, f)| f.body.is_some()).map(|(i, _)| i as u32).collect();
        match &out_rb.unit_ranges {
            None => bad("dwarf-unit-ranges-lost".into(), "the input unit has DW_AT_ranges, the output unit has none".into()),
            Some(Err(e)) => bad("dwarf-unit-ranges-unreadable".into(), format!("gimli 0.32 cannot read the range list walrus emitted: {}", e)),
            Some(Ok(out_ranges_list)) => {
                let live: Vec<(u64, u64)> = out_ranges_list.iter().copied().filter(|(b, _)| !TOMB.contains(b)).collect();
                let mut wanted: Vec<(u64, u64)> = vec![];
                let mut reported_ends: Vec<u64> = vec![];
                for (pos, fi) in locals.iter().enumerate() {
                    if pos >= in_ranges.len() {
                        break;
                    }
                    if let Some(fj) = maps.f(Space::Func, *fi) {
                        let body = b.funcs[fj as usize].body.as_ref().unwrap();
                        let want = (body.body.start - out_base, body.body.end - out_base);
                        wanted.push(want);
                        if !live.contains(&want) {
                            reported_ends.push(want.1);
                            bad(
                                format!("dwarf-unit-range-wrong:edit-{}", edit),
                                format!("function {} now occupies [{}, {}) but the unit's range list is {:?}", fi, want.0, want.1, out_ranges_list),
                            );
                        }
                    }
                }
                for r2 in &live {
                    // the wrong counterpart of a function already reported above is not reported twice
                    if !wanted.contains(r2) && !(reported_ends.contains(&r2.1) && r2.0 < r2.1) && (r2.0 > r2.1 || inside_some_function(r2.0) || (r2.1 > r2.0 && inside_some_function(r2.1 - 1))) {
                        bad("dwarf-unit-range-points-at-other-code".into(), format!("range list entry [{}, {}) corresponds to no surviving function's range yet lies in emitted code", r2.0, r2.1));
                    }
                }
            }
        }
    }
    r
}

pub fn cases(args: &Args) -> Vec<Case> {
    let thorough = args.tier == Tier::Thorough;
    let ns: &[usize] = if thorough { &[1, 2, 3, 4, 5, 64, 127, 128, 129, 130] } else { &[1, 2, 3, 128] };
    let sizes: &[usize] = if thorough { &[8, 9, 64, 126, 127, 128, 129, 130, 255, 256, 16382, 16383, 16384, 16385] } else { &[8, 127, 128, 16384] };
    let mut out = vec![];
    for &n in ns {
        for &s in sizes {
            for nopv in [false, true] {
                let mut bigs = vec![0];
                if n > 1 {
                    bigs.push(n - 1);
                }
                for big in bigs {
                    for (version, file_index) in [(4u16, 0u8), (5, 0), (5, 1)] {
                        for one_sequence in [false, true] {
                            // subprogram ranges follow the LLVM convention (low_pc = first byte of the
                            // body). A second convention (low_pc = the size LEB) was enumerated at first;
                            // the property does not fix one and walrus maps the LLVM one, so the variant
                            // demanded more than the property states and was dropped (DESIGN, false alarms)
                            for low_pc in ["body"] {
                                for edit in ["none", "gc", "insert"] {
                                    // keep the large modules to the configurations that matter for size
                                    if n >= 100 && !thorough && (low_pc == "entry" || edit == "insert") {
                                        continue;
                                    }
                                    let wasm = wgen::families::build_leb_x(n, big, s, nopv, edit == "gc");
                                    out.push(Case {
                                        family: "dwarf".into(),
                                        coords: format!("n={},big={},size={},nops={}", n, big, s, nopv),
                                        wasm,
                                        cfg: json!({"version": version, "file_index": file_index, "one_sequence": one_sequence, "low_pc": low_pc, "edit": edit}),
                                    });
                                }
                            }
                        }
                    }
                }
            }
        }
    }
    // function ends written as addresses: DW_AT_high_pc of class address, and a DW_AT_ranges list on the unit
    for &n in if thorough { &[1usize, 2, 3, 4, 5][..] } else { &[1usize, 2, 3][..] } {
        for &s in if thorough { &[8usize, 127, 128, 129][..] } else { &[8usize, 128][..] } {
            for nopv in [false, true] {
                for big in if n > 1 { vec![0, n - 1] } else { vec![0] } {
                    for version in [4u16, 5] {
                        for range_form in ["addr", "unit-ranges", "data4"] {
                            for edit in ["none", "gc", "insert"] {
                                let wasm = wgen::families::build_leb_x(n, big, s, nopv, edit == "gc");
                                out.push(Case {
                                    family: "dwarf".into(),
                                    coords: format!("n={},big={},size={},nops={}", n, big, s, nopv),
                                    wasm,
                                    cfg: json!({"version": version, "file_index": 0, "one_sequence": false, "low_pc": "body", "edit": edit, "range_form": range_form}),
                                });
                            }
                        }
                    }
                }
            }
        }
    }
    // location ids from an on_instr_loc callback (descending in the code offset)
    for &n in &[1usize, 2, 3] {
        for &s in &[8usize, 24] {
            for locals_mode in [0u8, 2] {
                for edit in ["none", "gc", "insert"] {
                    let wasm = wgen::families::build_leb_full(n, 0, s, true, edit == "gc", 0, locals_mode);
                    out.push(Case {
                        family: "dwarf".into(),
                        coords: format!("n={},big=0,size={},nops=true,locals={},instr-loc=descending", n, s, locals_mode),
                        wasm,
                        cfg: json!({"version": 4, "file_index": 0, "one_sequence": false, "low_pc": "body", "edit": edit, "range_form": "offset", "instr_loc": "descending"}),
                    });
                }
            }
        }
    }
    // DIE trees that are not flat (subprograms with children), functions resized in every way
    for &n in &[2usize, 3] {
        for &s in &[8usize, 130] {
            for locals_mode in [0u8, 2] {
                for big in [0, n - 1] {
                    for range_form in ["offset", "addr"] {
                        for edit in ["none", "gc", "insert"] {
                            let wasm = wgen::families::build_leb_full(n, big, s, true, edit == "gc", 0, locals_mode);
                            out.push(Case {
                                family: "dwarf".into(),
                                coords: format!("n={},big={},size={},nops=true,locals={},nested", n, big, s, locals_mode),
                                wasm,
                                cfg: json!({"version": 4, "file_index": 0, "one_sequence": false, "low_pc": "body", "edit": edit, "range_form": range_form, "nested": true}),
                            });
                        }
                    }
                }
            }
        }
    }
    // functions with locals: the body does not start with its first instruction, and dropping
    // unused locals / nops moves a function across a size-LEB boundary
    for &n in &[1usize, 2, 3] {
        for &s in if thorough { &[8usize, 126, 127, 128, 129, 130, 131, 132, 133, 134][..] } else { &[8usize, 128, 130, 133][..] } {
            for nopv in [false, true] {
                for locals_mode in [1u8, 2] {
                    for big in if n > 1 { vec![0, n - 1] } else { vec![0] } {
                        for edit in ["none", "gc", "insert"] {
                            let wasm = wgen::families::build_leb_full(n, big, s, nopv, edit == "gc", 0, locals_mode);
                            out.push(Case {
                                family: "dwarf".into(),
                                coords: format!("n={},big={},size={},nops={},locals={}", n, big, s, nopv, locals_mode),
                                wasm,
                                cfg: json!({"version": 4, "file_index": 0, "one_sequence": false, "low_pc": "body", "edit": edit, "range_form": "offset"}),
                            });
                        }
                    }
                }
            }
        }
    }
    // what gc removes is tiny (a code entry of 3, 4, 5 or 13 bytes) and sits in front of, between or behind survivors
    for &n in &[2usize, 3] {
        for dead_pos in 0..=n {
            for dead_nops in [0usize, 1, 2, 10] {
                for locals_mode in [0u8, 2] {
                    for range_form in ["offset", "addr"] {
                        for edit in ["none", "gc"] {
                            let wasm = wgen::families::build_leb_dead_at(n, 8, locals_mode, dead_pos, dead_nops);
                            out.push(Case {
                                family: "dwarf".into(),
                                coords: format!("n={},size=8,locals={},unexported function of {} nops in front of #{}", n, locals_mode, dead_nops, dead_pos),
                                wasm,
                                cfg: json!({"version": 4, "file_index": 0, "one_sequence": false, "low_pc": "body", "edit": edit, "range_form": range_form}),
                            });
                        }
                    }
                }
            }
        }
    }
    // inputs whose bodies hold operators walrus never keeps (dead code after br / return / unreachable, inside
    // and outside of ifs): each of them has a row in the input; in the output it has none, or a tombstoned one
    {
        let ms = wgen::families::ctrl_family(args.tier.g());
        let picked: Vec<&wgen::Member> = ms.iter().filter(|m| m.coords.starts_with("dead-if-in-live-if") || m.coords.starts_with("if-exits")).collect();
        let step = if thorough { 1 } else { 3 };
        for m in picked.iter().step_by(step) {
            for edit in ["none", "gc"] {
                out.push(Case {
                    family: "dwarf".into(),
                    coords: format!("ctrl: {}", m.coords),
                    wasm: m.wasm.clone(),
                    cfg: json!({"version": 4, "file_index": 0, "one_sequence": false, "low_pc": "body", "edit": edit, "range_form": "offset"}),
                });
            }
        }
    }
    // instructions spliced into the middle / at the end of a parsed function (positional builder API)
    for &n in &[1usize, 2, 3] {
        for &s in &[8usize, 24, 130] {
            for locals_mode in [0u8, 2] {
                for range_form in ["offset", "addr"] {
                    for edit in ["insert-mid", "insert-end"] {
                        let wasm = wgen::families::build_leb_full(n, 0, s, false, false, 0, locals_mode);
                        out.push(Case {
                            family: "dwarf".into(),
                            coords: format!("n={},big=0,size={},nops=false,locals={}", n, s, locals_mode),
                            wasm,
                            cfg: json!({"version": 4, "file_index": 0, "one_sequence": false, "low_pc": "body", "edit": edit, "range_form": range_form}),
                        });
                    }
                }
            }
        }
    }
    // imports replaced by local functions (created after parsing, but early in the arena)
    for &n in &[1usize, 2, 3] {
        for imports in [1usize, 2] {
            for &s in &[8usize, 130] {
                for locals_mode in [0u8, 2] {
                    for range_form in ["offset", "addr"] {
                        for edit in ["none", "replace-import"] {
                            let wasm = wgen::families::build_leb_full(n, 0, s, true, false, imports, locals_mode);
                            let reference = wgen::families::build_leb_full_x(n, 0, s, true, false, imports, locals_mode, true);
                            out.push(Case {
                                family: "dwarf".into(),
                                coords: format!("n={},big=0,size={},nops=true,locals={},imports={}", n, s, locals_mode, imports),
                                wasm,
                                cfg: json!({"version": 4, "file_index": 0, "one_sequence": false, "low_pc": "body", "edit": edit, "range_form": range_form, "reference": wmodel::hex(&reference)}),
                            });
                        }
                    }
                }
            }
        }
    }
    // the configuration-order case: preserve_code_transform(false) after generate_dwarf(true)
    for n in [1usize, 3] {
        for size in [8usize, 24, 130] {
            for locals_mode in [0u8, 1, 2] {
                for edit in ["none", "insert", "gc"] {
                    let wasm = wgen::families::build_leb_full(n, 0, size, true, edit == "gc", 0, locals_mode);
                    out.push(Case {
                        family: "dwarf".into(),
                        coords: format!("n={},big=0,size={},nops=true,locals={}", n, size, locals_mode),
                        wasm,
                        cfg: json!({"version": 4, "file_index": 0, "one_sequence": false, "low_pc": "body", "edit": edit, "reset_preserve_ct_after": true}),
                    });
                }
            }
        }
    }
    out
}

pub fn run(args: &Args) -> i32 {
    let mut ev = Ev::new("C10");
    if let Some(p) = &args.replay {
        let (case, _) = match read_replay(p) {
            Ok(x) => x,
            Err(e) => {
                eprintln!("MACHINERY: {}", e);
                return 2;
            }
        };
        ev.evaluations = 1;
        let v = check_case(&case).violations;
        return finish(args, ev, v, &|c| check_case(c).violations);
    }
    let cases = cases(args);
    ev.rule = "function counts and body sizes on both sides of the 1/2/3-byte LEB boundaries x DWARF {4, 5 naming file 0, 5 naming file 1} x {one line sequence per function, one sequence spanning all} x \
        function ends as {offset-form high_pc, address-form high_pc, DW_AT_ranges list on the unit} x {unchanged, gc removing an unexported function, two instructions inserted}: DWARF is synthesized with gimli 0.32 (one row per instruction, line number = \
        global instruction ordinal), walrus runs with generate_dwarf(true), the output DWARF is read back with gimli 0.32 and every row / subprogram is compared with the position its instruction / function \
        really has in the output (iso correspondence). non-trivial = walrus moved, resized or edited code"
        .into();
    ev.bounds = json!({"tier": args.tier.s(), "cases": cases.len()});
    ev.assumptions = vec!["DWARF convention: addresses relative to the first byte of the code section contents (LLVM); only line rows and subprogram ranges are judged".into()];
    let viol = run_sweep(args, &mut ev, &cases, &check_case);
    finish(args, ev, viol, &|c| check_case(c).violations)
}
