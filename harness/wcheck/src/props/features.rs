//! C20: the round trip never escalates required features.  For every member and every explored
//! subset F of the 12 optional proposals: validator(F) accepts input => accepts output.

use crate::core::*;
use crate::pipe::*;
use crate::sweep::*;
use serde_json::json;
use wmodel::validate::{feat_name, ALL_FEATS};
use wmodel::{decode, validate214, FeatureSet};

pub fn subsets(tier: Tier) -> Vec<FeatureSet> {
    if tier == Tier::Thorough {
        (0..4096u16).map(FeatureSet).collect()
    } else {
        let mut v = vec![FeatureSet(0)];
        for i in 0..12 {
            v.push(FeatureSet(1 << i));
        }
        for i in 0..12 {
            v.push(FeatureSet(0xfff & !(1 << i)));
        }
        v.push(FeatureSet(0xfff));
        v
    }
}

pub fn check_case(c: &Case, subs: &[FeatureSet]) -> CaseResult {
    let mut r = CaseResult::default();
    if validate214(&c.wasm, FeatureSet::DEFAULT).is_err() {
        return r;
    }
    r.valid_input = true;
    let out = match roundtrip(&c.wasm, &Cfg { names: false, producers: false, ..Cfg::default() }, false) {
        Ok(o) => o,
        Err(_) => return r,
    };
    r.transitions = 2;
    r.digests.push(wmodel::fnv(&out));
    r.nontrivial = out != c.wasm;
    if let Err(e) = validate214(&out, FeatureSet::DEFAULT) {
        // an output that is invalid under *every* feature set is not an escalation; C02 reports it
        r.note = Some(format!("C20: output of {}:{} is invalid even with all features ({}); judged by C02, skipped here", c.family, c.coords, e));
        return r;
    }
    // smallest-first: the failing subset with the most features gives the narrowest signature
    let mut worst: Option<FeatureSet> = None;
    let mut n_in = 0;
    for f in subs {
        if validate214(&c.wasm, *f).is_ok() {
            n_in += 1;
            if let Err(_) = validate214(&out, *f) {
                if worst.map(|w| f.0.count_ones() > w.0.count_ones()).unwrap_or(true) {
                    worst = Some(*f);
                }
            }
        }
    }
    r.transitions += n_in;
    if let Some(f) = worst {
        // which single additional features would make the output valid again?
        let need: Vec<&str> = ALL_FEATS
            .iter()
            .filter(|x| !f.has(**x) && validate214(&out, FeatureSet(f.0 | (1 << (**x as u8)))).is_ok())
            .map(|x| feat_name(*x))
            .collect();
        let err = validate214(&out, f).err().unwrap_or_default();
        r.violations.push(Violation::new(
            "C20",
            format!("escalation:needs-{}", if need.is_empty() { "several".to_string() } else { need.join("|") }),
            format!("input validates with features {:?} but the output does not: {}", f.names(), err),
            c,
        ));
    }
    // direct structural checks for the MVP case
    if validate214(&c.wasm, FeatureSet::MVP).is_ok() {
        if let Ok(b) = decode(&out) {
            if b.data_count.is_some() {
                r.violations.push(Violation::new("C20", "mvp:data-count-section-added", "MVP input, output has a data-count section", c));
            }
            if b.elems.iter().any(|e| e.flag != 0) {
                r.violations.push(Violation::new("C20", "mvp:element-encoding-escalated", format!("MVP input, output element flags {:?}", b.elems.iter().map(|e| e.flag).collect::<Vec<_>>()), c));
            }
            if b.datas.iter().any(|d| d.flag != 0) {
                r.violations.push(Violation::new("C20", "mvp:data-encoding-escalated", "MVP input, output data segment flag != 0", c));
            }
            for f in &b.funcs {
                if let Some(body) = &f.body {
                    for (op, _) in &body.ops {
                        for im in &op.imms {
                            if let wmodel::Imm::Block(wmodel::BlockTy::Func(_)) = im {
                                r.violations.push(Violation::new("C20", "mvp:block-type-index", "MVP input, output uses a type-indexed block", c));
                            }
                        }
                    }
                }
            }
        }
    }
    r
}

pub fn run(args: &Args) -> i32 {
    let mut ev = Ev::new("C20");
    let subs = subsets(args.tier);
    if let Some(p) = &args.replay {
        let (case, _) = match read_replay(p) {
            Ok(x) => x,
            Err(e) => {
                eprintln!("MACHINERY: {}", e);
                return 2;
            }
        };
        ev.evaluations = 1;
        let all: Vec<FeatureSet> = (0..4096u16).map(FeatureSet).collect();
        let v = if case.cfg.get("edits").is_some() { crate::props::edits::recheck_as("C20", &case) } else { check_case(&case, &all).violations };
        return finish(args, ev, v, &|c| if c.cfg.get("edits").is_some() { crate::props::edits::recheck_as("C20", c) } else { check_case(c, &all).violations });
    }
    let ms = crate::props::families::members(&["fixtures", "struct", "funcs", "locals", "ctrl", "reach", "minimal"], args, &mut ev);
    let mut cases: Vec<Case> = ms.iter().map(Case::of).collect();
    cases.extend(crate::props::census::cases(args, &mut ev));
    cases.extend(crate::props::bodies::cases(args, &mut ev));
    ev.rule = format!(
        "every member of fixtures/struct/funcs/locals/opcensus x each of {} feature subsets of the 12 optional proposals (body family and the triple-dimension struct members: the 26 empty/single/all-but-one/all subsets): \
         reference validator(F) accepts input => accepts output; plus direct MVP encoding checks. non-trivial = output bytes differ from input",
        subs.len()
    );
    ev.bounds = json!({"feature_subsets": subs.len(), "tier": args.tier.s()});
    ev.assumptions = vec!["feature need is defined by stand-alone wasmparser 0.214 with exactly the subset enabled (floats always on)".into()];
    // the body family is three orders of magnitude larger than the rest: it is checked under the
    // 26 single / all-but-one subsets in both tiers, the other families under every explored subset
    let small = subsets(Tier::Quick);
    let viol = run_sweep(args, &mut ev, &cases, &|c| if c.family == "body" || (c.family == "struct" && c.coords.matches(',').count() >= 2) { check_case(c, &small) } else { check_case(c, &subs) });
    let all: Vec<FeatureSet> = if args.tier == Tier::Thorough { subs.clone() } else { subs.clone() };
    let mut viol = viol;
    viol.extend(crate::props::edits::run_model_as("C20", args, &mut ev));
    finish(args, ev, viol, &|c| if c.cfg.get("edits").is_some() { crate::props::edits::recheck_as("C20", c) } else { check_case(c, &all).violations })
}
