//! C19, emit-time map over edit histories.  A module is assembled through the public API in which
//! every entity carries a *physical* marker of its own (import field name, `i32.const K; drop`
//! prologue, global initialiser, table / memory minimum, data length, element count).  Every
//! history of edits up to a bound (additions to every index space, imported and local; an import
//! entry deleted and registered again, which moves it to the end of the import section; deletion
//! of the newest unexported entity; deletion of an export; gc) is replayed on a fresh module; in
//! every state a spy custom section asks `IdsToIndices` for the index of every live id while the
//! module serialises, and the entity that really sits at that index of the emitted binary -
//! found by its marker, independently of anything walrus says - must be the same one.

use crate::core::*;
use crate::hist::*;
use serde_json::json;
use std::borrow::Cow;
use std::sync::{Arc, Mutex};
use walrus::ir::Value;
use walrus::*;
use wmodel::{Imm, Space, WModule};

#[derive(Clone, Copy, Debug, PartialEq, Eq)]
pub enum XOp {
    AddImportFunc,
    AddLocalFunc,
    AddImportGlobal,
    AddLocalGlobal,
    AddImportTable,
    AddLocalTable,
    AddImportMemory,
    AddLocalMemory,
    AddData,
    AddElem,
    /// delete the k-th import entry and register the same item again (it moves to the end)
    ReRegisterImport(u8),
    DeleteNewestUnexported,
    DeleteFirstExport,
    Gc,
    /// one more function import carrying the module and field name of the first function import
    /// (valid wasm), with another signature
    AddDupImportFunc,
    /// `replace_imported_func` on the newest imported function: it becomes a local function (with a
    /// marker prologue of its own) and exactly its import entry goes away
    ReplaceNewestImportFunc,
}

pub fn all_ops() -> Vec<XOp> {
    use XOp::*;
    vec![AddImportFunc, AddLocalFunc, AddImportGlobal, AddLocalGlobal, AddImportTable, AddLocalTable, AddImportMemory, AddLocalMemory, AddData, AddElem, ReRegisterImport(0), ReRegisterImport(1), ReRegisterImport(2), DeleteNewestUnexported, DeleteFirstExport, Gc, AddDupImportFunc, ReplaceNewestImportFunc]
}

#[derive(Clone, Copy, Debug, PartialEq, Eq)]
enum Id {
    F(FunctionId),
    G(GlobalId),
    T(TableId),
    M(MemoryId),
    D(DataId),
    E(ElementId),
}

#[derive(Clone, Debug)]
struct Ent {
    id: Id,
    marker: u32,
    imported: bool,
    exported: bool,
}

pub struct XObj {
    m: Module,
    ents: Vec<Ent>,
    serial: u32,
    void_ty: TypeId,
}

fn space_of(id: Id) -> Space {
    match id {
        Id::F(_) => Space::Func,
        Id::G(_) => Space::Global,
        Id::T(_) => Space::Table,
        Id::M(_) => Space::Mem,
        Id::D(_) => Space::Data,
        Id::E(_) => Space::Elem,
    }
}

fn add(o: &mut XObj, what: XOp, export: bool) {
    o.serial += 1;
    let k = o.serial;
    let name = format!("mk{}", k);
    let m = &mut o.m;
    let (id, imported) = match what {
        XOp::AddImportFunc => (Id::F(m.add_import_func("env", &name, o.void_ty).0), true),
        XOp::AddLocalFunc => {
            let mut b = FunctionBuilder::new(&mut m.types, &[], &[]);
            b.func_body().i32_const(k as i32).drop();
            (Id::F(b.finish(vec![], &mut m.funcs)), false)
        }
        XOp::AddImportGlobal => (Id::G(m.add_import_global("env", &name, ValType::I32, false, false).0), true),
        XOp::AddLocalGlobal => (Id::G(m.globals.add_local(ValType::I32, false, false, ConstExpr::Value(Value::I32(k as i32)))), false),
        XOp::AddImportTable => (Id::T(m.add_import_table("env", &name, false, k as u64, None, RefType::Funcref).0), true),
        XOp::AddLocalTable => (Id::T(m.tables.add_local(false, k as u64, None, RefType::Funcref)), false),
        XOp::AddImportMemory => (Id::M(m.add_import_memory("env", &name, false, false, k as u64, None, None).0), true),
        XOp::AddLocalMemory => (Id::M(m.memories.add_local(false, false, k as u64, None, None)), false),
        XOp::AddData => (Id::D(m.data.add(DataKind::Passive, vec![0xaa; k as usize])), false),
        _ => (Id::E(m.elements.add(ElementKind::Passive, ElementItems::Expressions(RefType::Funcref, vec![ConstExpr::RefNull(RefType::Funcref); k as usize]))), false),
    };
    if export {
        match id {
            Id::F(x) => {
                m.exports.add(&format!("e{}", k), x);
            }
            Id::G(x) => {
                m.exports.add(&format!("e{}", k), x);
            }
            Id::T(x) => {
                m.exports.add(&format!("e{}", k), x);
            }
            Id::M(x) => {
                m.exports.add(&format!("e{}", k), x);
            }
            _ => {}
        }
    }
    let exported = export && !matches!(id, Id::D(_) | Id::E(_));
    o.ents.push(Ent { id, marker: k, imported, exported });
}

fn live(m: &Module, id: Id) -> bool {
    match id {
        Id::F(x) => m.funcs.iter().any(|f| f.id() == x),
        Id::G(x) => m.globals.iter().any(|f| f.id() == x),
        Id::T(x) => m.tables.iter().any(|f| f.id() == x),
        Id::M(x) => m.memories.iter().any(|f| f.id() == x),
        Id::D(x) => m.data.iter().any(|f| f.id() == x),
        Id::E(x) => m.elements.iter().any(|f| f.id() == x),
    }
}

fn import_of(m: &Module, id: Id) -> Option<ImportId> {
    m.imports
        .iter()
        .find(|i| match (&i.kind, id) {
            (ImportKind::Function(a), Id::F(b)) => *a == b,
            (ImportKind::Global(a), Id::G(b)) => *a == b,
            (ImportKind::Table(a), Id::T(b)) => *a == b,
            (ImportKind::Memory(a), Id::M(b)) => *a == b,
            _ => false,
        })
        .map(|i| i.id())
}

fn apply_op(o: &mut XObj, op: &XOp) {
    match *op {
        XOp::ReRegisterImport(k) => {
            let entry = o.m.imports.iter().nth(k as usize).map(|i| (i.id(), i.module.clone(), i.name.clone(), i.kind.clone()));
            if let Some((id, module, name, kind)) = entry {
                o.m.imports.delete(id);
                o.m.imports.add(&module, &name, kind);
            }
        }
        XOp::DeleteNewestUnexported => {
            let pos = o.ents.iter().rposition(|e| !e.exported && live(&o.m, e.id));
            if let Some(p) = pos {
                let e = o.ents[p].clone();
                if e.imported {
                    if let Some(i) = import_of(&o.m, e.id) {
                        o.m.imports.delete(i);
                    }
                }
                match e.id {
                    Id::F(x) => o.m.funcs.delete(x),
                    Id::G(x) => o.m.globals.delete(x),
                    Id::T(x) => o.m.tables.delete(x),
                    Id::M(x) => o.m.memories.delete(x),
                    Id::D(x) => o.m.data.delete(x),
                    Id::E(x) => o.m.elements.delete(x),
                }
            }
        }
        XOp::DeleteFirstExport => {
            let e = o.m.exports.iter().next().map(|e| (e.id(), e.item));
            if let Some((eid, item)) = e {
                o.m.exports.delete(eid);
                for ent in o.ents.iter_mut() {
                    let same = match (item, ent.id) {
                        (ExportItem::Function(a), Id::F(b)) => a == b,
                        (ExportItem::Global(a), Id::G(b)) => a == b,
                        (ExportItem::Table(a), Id::T(b)) => a == b,
                        (ExportItem::Memory(a), Id::M(b)) => a == b,
                        _ => false,
                    };
                    if same {
                        ent.exported = false;
                    }
                }
            }
        }
        XOp::Gc => walrus::passes::gc::run(&mut o.m),
        XOp::AddDupImportFunc => {
            // same names as the first live function import; the physical marker of an import is its
            // field name, so the duplicate shares the marker of the original (either may sit at either index)
            let first = o.m.imports.iter().find(|i| matches!(i.kind, ImportKind::Function(_))).map(|i| (i.module.clone(), i.name.clone()));
            if let Some((module, name)) = first {
                if let Some(marker) = name.strip_prefix("mk").and_then(|x| x.parse::<u32>().ok()) {
                    let ty = o.m.types.add(&[ValType::I32], &[]);
                    let (f, _) = o.m.add_import_func(&module, &name, ty);
                    o.ents.push(Ent { id: Id::F(f), marker, imported: true, exported: false });
                }
            }
        }
        XOp::ReplaceNewestImportFunc => {
            let pos = o.ents.iter().rposition(|e| e.imported && matches!(e.id, Id::F(_)) && live(&o.m, e.id) && import_of(&o.m, e.id).is_some());
            if let Some(p) = pos {
                if let Id::F(f) = o.ents[p].id {
                    o.serial += 1;
                    let k = o.serial;
                    if o.m.replace_imported_func(f, |(b, _)| {
                        b.i32_const(k as i32).drop();
                    })
                    .is_ok()
                    {
                        o.ents[p].marker = k;
                        o.ents[p].imported = false;
                    }
                }
            }
        }
        other => add(o, other, false),
    }
}

#[derive(Debug)]
struct Spy {
    name: &'static str,
    ask: Vec<(Id, u32)>,
    out: Arc<Mutex<Vec<(Id, u32, u32)>>>,
}
impl CustomSection for Spy {
    fn name(&self) -> &str {
        self.name
    }
    fn data(&self, ids: &IdsToIndices) -> Cow<'_, [u8]> {
        let mut o = self.out.lock().unwrap();
        o.clear();
        for (id, marker) in &self.ask {
            let j = match *id {
                Id::F(x) => ids.get_func_index(x),
                Id::G(x) => ids.get_global_index(x),
                Id::T(x) => ids.get_table_index(x),
                Id::M(x) => ids.get_memory_index(x),
                Id::D(x) => ids.get_data_index(x),
                Id::E(x) => ids.get_element_index(x),
            };
            o.push((*id, *marker, j));
        }
        Cow::Borrowed(&[])
    }
}

/// the marker of the entity that physically sits at index `j` of `space` in the emitted binary
fn physical_marker(w: &WModule, space: Space, j: u32) -> Option<u32> {
    let j = j as usize;
    let imp_marker = |i: usize| w.imports.get(i).and_then(|x| x.name.strip_prefix("mk").and_then(|s| s.parse::<u32>().ok()));
    let const_of = |ops: &Vec<wmodel::Op>| match ops.first().map(|o| (o.name, o.imms.first())) {
        Some(("I32Const", Some(Imm::I32(k)))) => Some(*k as u32),
        _ => None,
    };
    match space {
        Space::Func => {
            let f = w.funcs.get(j)?;
            match f.import {
                Some(i) => imp_marker(i),
                None => wmodel::iso::func_marker(w, j as u32).map(|k| k as u32),
            }
        }
        Space::Global => {
            let g = w.globals.get(j)?;
            match g.import {
                Some(i) => imp_marker(i),
                None => g.init.as_ref().and_then(const_of),
            }
        }
        Space::Table => {
            let t = w.tables.get(j)?;
            match t.import {
                Some(i) => imp_marker(i),
                None => Some(t.ty.lim.min as u32),
            }
        }
        Space::Mem => {
            let t = w.memories.get(j)?;
            match t.import {
                Some(i) => imp_marker(i),
                None => Some(t.ty.lim.min as u32),
            }
        }
        Space::Data => w.datas.get(j).map(|d| d.payload.len() as u32),
        Space::Elem => w.elems.get(j).map(|e| match &e.items {
            wmodel::ElemItems::Funcs(v) => v.len() as u32,
            wmodel::ElemItems::Exprs(v) => v.len() as u32,
        }),
        _ => None,
    }
}

pub struct XSubject;

impl Subject for XSubject {
    type Op = XOp;
    type Obj = XObj;
    fn fresh(&self) -> Result<XObj, String> {
        let mut m = Module::default();
        let void_ty = m.types.add(&[], &[]);
        let mut o = XObj { m, ents: vec![], serial: 0, void_ty };
        // base population: imported and local entities of every kind, all exported (so that gc
        // keeps them), in an order that interleaves imported and local creation
        for what in [
            XOp::AddImportFunc, XOp::AddLocalFunc, XOp::AddImportGlobal, XOp::AddLocalGlobal, XOp::AddImportFunc, XOp::AddLocalFunc, XOp::AddImportTable, XOp::AddLocalTable, XOp::AddImportMemory,
            XOp::AddLocalMemory, XOp::AddLocalGlobal, XOp::AddData, XOp::AddElem, XOp::AddData, XOp::AddElem,
        ] {
            add(&mut o, what, true);
        }
        Ok(o)
    }
    fn ops(&self, _h: &[XOp]) -> Vec<XOp> {
        all_ops()
    }
    fn apply(&self, o: &mut XObj, op: &XOp, _at: usize) -> Result<(), Finding> {
        apply_op(o, op);
        Ok(())
    }
    fn observe(&self, mut o: XObj, hist: &[XOp]) -> (u64, Vec<Finding>) {
        let mut fs = vec![];
        let ask: Vec<(Id, u32)> = o.ents.iter().filter(|e| live(&o.m, e.id)).map(|e| (e.id, e.marker)).collect();
        let out = Arc::new(Mutex::new(vec![]));
        // a plain emit first: a panic of walrus's own emission is C02's, not a statement about the map
        let mut plain_ok = true;
        let plain = std::panic::catch_unwind(std::panic::AssertUnwindSafe(|| o.m.emit_wasm()));
        if plain.is_err() {
            plain_ok = false;
        }
        o.m.customs.add(Spy { name: "spy", ask: ask.clone(), out: out.clone() });
        // a second consumer: every custom section must see the same, complete map
        let out2 = Arc::new(Mutex::new(vec![]));
        o.m.customs.add(Spy { name: ["dylink.0", "linking", "target_features", "sourceMappingURL"][hist.len() % 4], ask: ask.clone(), out: out2.clone() });
        let bytes = match std::panic::catch_unwind(std::panic::AssertUnwindSafe(|| o.m.emit_wasm())) {
            Ok(b) => b,
            Err(p) => {
                if plain_ok {
                    let msg = panic_msg(p);
                    fs.push(Finding { sig: format!("emit-map-panic:{}", crate::pipe::norm_panic(&msg)), detail: format!("after {:?}: asking the emit-time map for a live id panicked: {}", hist, msg) });
                }
                return (wmodel::fnv(format!("{:?}", hist).as_bytes()), fs);
            }
        };
        let w = match wmodel::decode(&bytes) {
            Ok(w) => w,
            Err(_) => return (wmodel::fnv(&bytes), fs),
        };
        let answers = out.lock().unwrap().clone();
        if answers != *out2.lock().unwrap() {
            fs.push(Finding { sig: "emit-map:sections-see-different-maps".into(), detail: format!("after {:?}: two custom sections asked the same questions while serialising and got different answers", hist) });
        }
        if answers.len() != ask.len() {
            fs.push(Finding { sig: "emit-map:spy-not-run".into(), detail: format!("after {:?}: the custom section was asked to serialise {} times the expected answers", hist, answers.len()) });
        }
        let mut reported = 0;
        for (id, marker, j) in &answers {
            let sp = space_of(*id);
            let there = physical_marker(&w, sp, *j);
            if there != Some(*marker) && reported < 4 {
                reported += 1;
                fs.push(Finding {
                    sig: format!("emit-map:{:?}", sp),
                    detail: format!("after {:?}: the {:?} entity with marker {} is reported at index {}, but the entity that sits there in the emitted binary has marker {:?}", hist, sp, marker, j, there),
                });
            }
        }
        // every live entity is emitted exactly once (markers are unique)
        for (sp, n) in [(Space::Func, w.funcs.len()), (Space::Global, w.globals.len()), (Space::Table, w.tables.len()), (Space::Mem, w.memories.len()), (Space::Data, w.datas.len()), (Space::Elem, w.elems.len())] {
            let want = ask.iter().filter(|(id, _)| space_of(*id) == sp).count();
            if n != want {
                fs.push(Finding { sig: format!("emit-map:count:{:?}", sp), detail: format!("after {:?}: {} live {:?} entities, {} in the emitted binary", hist, want, sp, n) });
            }
        }
        (wmodel::fnv(&bytes), fs)
    }
}

fn ops_from(v: &serde_json::Value) -> Vec<XOp> {
    let all = all_ops();
    v.as_array().map(|a| a.iter().filter_map(|x| x.as_str()).filter_map(|s| all.iter().find(|o| format!("{:?}", o) == s).copied()).collect()).unwrap_or_default()
}

pub fn recheck(c: &Case) -> Vec<Violation> {
    let h = ops_from(&c.cfg["map_edits"]);
    match replay(&XSubject, &h) {
        Ok((_, fs)) => fs.into_iter().map(|f| Violation::new("C19", f.sig, f.detail, c)).collect(),
        Err(_) => vec![], // a panic while editing / emitting without the spy is C02's
    }
}

pub fn run_model(args: &Args, ev: &mut Ev) -> Vec<Violation> {
    let depth = if args.tier == Tier::Quick { 3 } else { 4 };
    let (st, found) = explore(&XSubject, depth);
    ev.states += st.states;
    ev.transitions += st.transitions;
    ev.evaluations += st.transitions + 1;
    ev.nontrivial += st.states;
    ev.max_depth = ev.max_depth.max(st.max_depth);
    ev.extra.insert("emit_map_edit_model".into(), json!({"actions": all_ops().len(), "depth": depth, "states": st.states, "transitions": st.transitions, "merged": st.merged}));
    let mut viol = vec![];
    for f in found {
        if f.finding.sig.starts_with("panic:") {
            continue;
        }
        let c = Case { family: "map-edits".into(), coords: format!("{} edits", f.hist.len()), wasm: vec![], cfg: json!({"map_edits": f.hist.iter().map(|o| format!("{:?}", o)).collect::<Vec<_>>()}) };
        viol.push(Violation::new("C19", f.finding.sig, f.finding.detail, &c));
    }
    viol
}
