//! Which families feed which property.

use crate::core::*;
use wgen::families as fam;

pub fn members(names: &[&str], args: &Args, ev: &mut Ev) -> Vec<wgen::Member> {
    let mut out = vec![];
    for n in names {
        let ms = match *n {
            "fixtures" => {
                let (m, notes) = fam::fixtures(&args.repo);
                for x in notes {
                    ev.note(x);
                }
                m
            }
            "struct" => fam::struct_family(args.tier.g()),
            "funcs" => fam::funcs_family(args.tier.g()),
            "locals" => fam::locals_family(),
            "locals-named" => fam::locals_named_family(),
            "customs" => fam::customs_family(args.tier.g()),
            "names" => fam::names_family(args.tier.g()),
            "reach" => fam::reach_family(args.tier.g()),
            "leb" => fam::leb_family(args.tier.g()),
            "idshift" => fam::idshift_family(),
            "minimal" => fam::minimal_family(),
            "reach+customs" => fam::reach_customs_family(),
            "ctrl" => fam::ctrl_family(args.tier.g()),
            other => {
                ev.note(format!("unknown family {}", other));
                vec![]
            }
        };
        out.extend(ms);
    }
    out
}
