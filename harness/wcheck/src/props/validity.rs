//! C02 part (a): every member of every family x {emit, gc;emit} x {names on/off} x
//! {producers on/off}: no panic, output validates (wasmparser 0.214 stand-alone, default
//! feature set; 0.259 as second opinion).

use crate::core::*;
use crate::pipe::*;
use crate::sweep::*;
use serde_json::json;
use wmodel::{validate214, validate259, FeatureSet};

pub fn norm_verr(e: &str) -> String {
    let e = e.split(" (at offset").next().unwrap_or(e);
    let mut s: String = e.chars().map(|c| if c.is_ascii_digit() { '#' } else { c }).collect();
    while s.contains("##") {
        s = s.replace("##", "#");
    }
    s.chars().take(80).collect()
}

/// For an output rejected with "undeclared function reference" after gc: was the offending
/// function declared, in the *input*, by something the property's reachability rules keep?
/// (narrows the known finding "gc drops the only, unreachable, declaring segment" so that a
/// different way of losing a declaration is still reported)
pub fn undeclared_kind(input: &[u8], out: &[u8]) -> &'static str {
    use wmodel::{decode, iso, reach::reach, ElemItems, Imm, IsoMode, Space};
    let (a, b) = match (decode(input), decode(out)) {
        (Ok(a), Ok(b)) => (a, b),
        _ => return "undetermined",
    };
    // functions declared in the output: exports, element segments, global initialisers
    let mut declared = vec![false; b.funcs.len()];
    let mut mark = |ops: &[wmodel::Op], d: &mut Vec<bool>| {
        for o in ops {
            for im in &o.imms {
                if let Imm::Func(f) = im {
                    if let Some(x) = d.get_mut(*f as usize) {
                        *x = true;
                    }
                }
            }
        }
    };
    for e in &b.exports {
        if e.space == Space::Func {
            declared[e.index as usize] = true;
        }
    }
    for e in &b.elems {
        match &e.items {
            ElemItems::Funcs(v) => v.iter().for_each(|f| declared[*f as usize] = true),
            ElemItems::Exprs(v) => v.iter().for_each(|x| mark(x, &mut declared)),
        }
    }
    for g in &b.globals {
        if let Some(i) = &g.init {
            mark(i, &mut declared);
        }
    }
    let mut offenders = vec![];
    for f in &b.funcs {
        if let Some(body) = &f.body {
            for (op, _) in &body.ops {
                if op.name == "RefFunc" {
                    if let Some(Imm::Func(t)) = op.imms.first() {
                        if !declared[*t as usize] {
                            offenders.push(*t);
                        }
                    }
                }
            }
        }
    }
    let maps = match iso(&a, &b, IsoMode::Gc) {
        Ok(m) => m,
        Err(_) => return "undetermined",
    };
    let ra = reach(&a);
    for t in offenders {
        let fi = match maps.r(Space::Func, t) {
            Some(x) => x,
            None => return "undetermined",
        };
        // declared in the input by a *reachable* entity?
        let by_export = a.exports.iter().any(|e| e.space == Space::Func && e.index == fi);
        let by_elem = a.elems.iter().enumerate().any(|(k, e)| {
            ra.elems[k]
                && match &e.items {
                    ElemItems::Funcs(v) => v.contains(&fi),
                    ElemItems::Exprs(v) => v.iter().any(|x| x.iter().any(|o| o.imms.contains(&Imm::Func(fi)))),
                }
        });
        let by_global = a.globals.iter().enumerate().any(|(k, g)| ra.globals[k] && g.init.as_ref().map(|i| i.iter().any(|o| o.imms.contains(&Imm::Func(fi)))).unwrap_or(false));
        if by_export || by_elem || by_global {
            return "declaration-was-reachable";
        }
    }
    "declared-only-by-unreachable-segment"
}

/// judge one emitted binary
pub fn judge_output(prop: &str, out: &[u8], stage: &str, c: &Case, r: &mut CaseResult) {
    match validate214(out, FeatureSet::DEFAULT) {
        Ok(()) => {
            if let Err(e) = validate259(out, FeatureSet::DEFAULT) {
                r.note = Some(format!("validator skew on output of {}:{}: 0.214 accepts, 0.259 says {}", c.family, c.coords, e));
            }
        }
        Err(e) => {
            let mut sig = format!("invalid-output:{}:{}", stage, norm_verr(&e));
            if stage == "after-gc" && e.contains("undeclared function reference") {
                sig = format!("{}:{}", sig, undeclared_kind(&c.wasm, out));
            }
            r.violations.push(Violation::new(prop, sig, format!("the reference validator rejects walrus's output: {}", e), c));
        }
    }
}

pub fn check_case(c: &Case) -> CaseResult {
    let mut r = CaseResult::default();
    let cfg = Cfg::from_json(&c.cfg);
    let do_gc = c.cfg.get("gc").and_then(|x| x.as_bool()).unwrap_or(false);
    if validate214(&c.wasm, FeatureSet::DEFAULT).is_err() {
        return r;
    }
    r.valid_input = true;
    let mut m = match parse(&c.wasm, &cfg) {
        Ok(m) => m,
        Err(Fail::Rejected(_)) => return r, // C05's business
        Err(f) => {
            r.violations.push(Violation::new("C02", f.signature(), f.detail(), c));
            return r;
        }
    };
    r.transitions = 1;
    if do_gc {
        r.transitions += 1;
        if let Err(f) = gc(&mut m) {
            r.violations.push(Violation::new("C02", f.signature(), f.detail(), c));
            return r;
        }
    }
    r.transitions += 1;
    match emit(&mut m) {
        Ok(out) => {
            r.digests.push(wmodel::fnv(&out));
            r.nontrivial = out != c.wasm;
            judge_output("C02", &out, if do_gc { "after-gc" } else { "emit" }, c, &mut r);
        }
        Err(f) => {
            let sig = if do_gc { format!("{}:after-gc", f.signature()) } else { f.signature() };
            r.violations.push(Violation::new("C02", sig, f.detail(), c));
        }
    }
    r
}

pub fn sweep_cases(args: &Args, ev: &mut Ev) -> Vec<Case> {
    let ms = crate::props::families::members(&["fixtures", "struct", "funcs", "locals", "names", "customs", "ctrl", "idshift", "reach", "leb", "minimal"], args, ev);
    let mut cases = vec![];
    let census = crate::props::census::cases(args, ev);
    let bodies = crate::props::bodies::cases(args, ev);
    for m in ms.iter().map(Case::of).chain(census.into_iter()).chain(bodies.into_iter()) {
        // configurations: names x producers only matter for modules that carry such sections or
        // named items; they are cheap, so the full product is run on the module-level families
        let full = m.family != "body" && m.family != "opcensus";
        for gc in [false, true] {
            for names in [true, false] {
                for producers in [true, false] {
                    if !full && !(names && producers) {
                        continue;
                    }
                    let mut cfg = Cfg { names, producers, ..Cfg::default() }.json();
                    cfg["gc"] = json!(gc);
                    cases.push(m.clone().with(cfg));
                }
            }
        }
    }
    cases
}
