//! C15: IR built through the builder API is emitted faithfully.  Every history of builder
//! actions up to a bound is replayed on a real FunctionBuilder and, in lock step, on a plain
//! reference tree; the emitted function is decoded with wasmparser 0.259 and compared with the
//! reference tree's own in-order flattening.  Also provides the trees for C16.

use crate::core::*;
use serde_json::json;
use std::collections::HashSet;
use std::panic::{catch_unwind, AssertUnwindSafe};
use std::sync::atomic::{AtomicU64, Ordering};
use std::sync::Mutex;
use walrus::ir::*;
use walrus::*;

#[derive(Clone, Copy, Debug, PartialEq, Eq, Hash)]
pub enum Loc {
    P0,
    A,
    B,
    /// second parameter; its LocalId is allocated *before* P0's
    P1,
}
#[derive(Clone, Copy, Debug, PartialEq, Eq, Hash)]
pub enum Unit {
    ConstDrop,
    ConstSet(Loc),
    GetDrop(Loc),
    Br(usize),
    BrIf(usize),
}
#[derive(Clone, Copy, Debug, PartialEq, Eq, Hash)]
pub enum CK {
    Block,
    Loop,
    IfElse,
}
#[derive(Clone, Copy, Debug, PartialEq, Eq, Hash)]
pub enum Act {
    /// unit into seq at position (None = append API)
    Unit { seq: usize, pos: Option<usize>, unit: Unit },
    /// construct through the closure API; `fill` = the closure adds one const/drop unit
    Construct { seq: usize, pos: Option<usize>, kind: CK, fill: bool },
    NewDangling,
    Attach { dangling: usize, seq: usize, pos: Option<usize>, as_loop: bool },
}

#[derive(Clone, Debug, PartialEq, Eq, Hash)]
pub enum RI {
    C32(i32),
    C64(i64),
    Drop,
    Set(Loc),
    Get(Loc),
    Br(usize),
    BrIf(usize),
    Block(usize),
    Loop(usize),
    If(usize, usize),
}
#[derive(Clone, Copy, Debug, PartialEq, Eq, Hash)]
pub enum SK {
    Entry,
    Block,
    Loop,
    Then,
    Else,
    Dangling,
}
#[derive(Clone, Debug, PartialEq, Eq, Hash)]
pub struct RefSeq {
    pub items: Vec<RI>,
    pub parent: Option<usize>,
    pub kind: SK,
}
#[derive(Clone, Debug, PartialEq, Eq, Hash, Default)]
pub struct RefTree {
    pub seqs: Vec<RefSeq>,
    pub serial: i32,
}

impl RefTree {
    pub fn new() -> RefTree {
        RefTree { seqs: vec![RefSeq { items: vec![], parent: None, kind: SK::Entry }], serial: 0 }
    }
    fn depth(&self, s: usize) -> usize {
        let mut d = 0;
        let mut c = s;
        while let Some(p) = self.seqs[c].parent {
            d += 1;
            c = p;
        }
        d
    }
    fn attached(&self, s: usize) -> bool {
        let mut c = s;
        loop {
            match self.seqs[c].kind {
                SK::Entry => return true,
                SK::Dangling => return false,
                _ => {}
            }
            match self.seqs[c].parent {
                Some(p) => c = p,
                None => return false,
            }
        }
    }
    /// enclosing seqs of `s`, innermost (s itself) first
    fn enclosing(&self, s: usize) -> Vec<usize> {
        let mut v = vec![s];
        let mut c = s;
        while let Some(p) = self.seqs[c].parent {
            v.push(p);
            c = p;
        }
        v
    }
    fn unit_items(&mut self, u: Unit) -> Vec<RI> {
        self.serial += 1;
        let k = self.serial;
        match u {
            Unit::ConstDrop => vec![RI::C32(k), RI::Drop],
            Unit::ConstSet(Loc::B) => vec![RI::C64(k as i64), RI::Set(Loc::B)],
            Unit::ConstSet(l) => vec![RI::C32(k), RI::Set(l)],
            Unit::GetDrop(l) => vec![RI::Get(l), RI::Drop],
            Unit::Br(t) => vec![RI::Br(t)],
            Unit::BrIf(t) => vec![RI::C32(k), RI::BrIf(t)],
        }
    }
    pub fn apply(&mut self, a: &Act) {
        match *a {
            Act::Unit { seq, pos, unit } => {
                let items = self.unit_items(unit);
                let p = pos.unwrap_or(self.seqs[seq].items.len());
                for (k, it) in items.into_iter().enumerate() {
                    self.seqs[seq].items.insert(p + k, it);
                }
            }
            Act::Construct { seq, pos, kind, fill } => {
                let p = pos.unwrap_or(self.seqs[seq].items.len());
                let mk = |t: &mut RefTree, kind: SK, fill: bool| -> usize {
                    let items = if fill { t.unit_items(Unit::ConstDrop) } else { vec![] };
                    t.seqs.push(RefSeq { items, parent: Some(seq), kind });
                    t.seqs.len() - 1
                };
                let it = match kind {
                    CK::Block => RI::Block(mk(self, SK::Block, fill)),
                    CK::Loop => RI::Loop(mk(self, SK::Loop, fill)),
                    CK::IfElse => {
                        // condition first: i32.const k
                        let c = mk(self, SK::Then, fill);
                        let e = mk(self, SK::Else, false);
                        RI::If(c, e)
                    }
                };
                if kind == CK::IfElse {
                    self.serial += 1;
                    let k = self.serial;
                    self.seqs[seq].items.insert(p, RI::C32(k));
                    self.seqs[seq].items.insert(p + 1, it);
                } else {
                    self.seqs[seq].items.insert(p, it);
                }
            }
            Act::NewDangling => {
                self.seqs.push(RefSeq { items: vec![], parent: None, kind: SK::Dangling });
            }
            Act::Attach { dangling, seq, pos, as_loop } => {
                let p = pos.unwrap_or(self.seqs[seq].items.len());
                self.seqs[dangling].parent = Some(seq);
                self.seqs[dangling].kind = if as_loop { SK::Loop } else { SK::Block };
                self.seqs[seq].items.insert(p, if as_loop { RI::Loop(dangling) } else { RI::Block(dangling) });
            }
        }
    }
    /// actions enabled in this state
    pub fn actions(&self, max_nest: usize) -> Vec<Act> {
        let mut v = vec![];
        let n_dangling = self.seqs.iter().filter(|s| s.kind == SK::Dangling).count();
        for (si, s) in self.seqs.iter().enumerate() {
            let att = self.attached(si);
            let enc = self.enclosing(si);
            let mut positions: Vec<Option<usize>> = (0..=s.items.len()).map(Some).collect();
            positions.push(None);
            for pos in positions {
                let mut units = vec![Unit::ConstDrop, Unit::ConstSet(Loc::P0), Unit::ConstSet(Loc::A), Unit::ConstSet(Loc::B), Unit::GetDrop(Loc::A), Unit::GetDrop(Loc::P1)];
                // branches: to any enclosing seq (dangling seqs: only to themselves)
                let targets: Vec<usize> = if att { enc.clone() } else { vec![si] };
                for t in targets {
                    units.push(Unit::Br(t));
                    units.push(Unit::BrIf(t));
                }
                for unit in units {
                    v.push(Act::Unit { seq: si, pos, unit });
                }
                if self.depth(si) < max_nest && att {
                    for kind in [CK::Block, CK::Loop, CK::IfElse] {
                        for fill in [false, true] {
                            v.push(Act::Construct { seq: si, pos, kind, fill });
                        }
                    }
                    for (di, d) in self.seqs.iter().enumerate() {
                        if d.kind == SK::Dangling {
                            for as_loop in [false, true] {
                                v.push(Act::Attach { dangling: di, seq: si, pos, as_loop });
                            }
                        }
                    }
                }
            }
        }
        if n_dangling == 0 {
            v.push(Act::NewDangling);
        }
        v
    }

    /// the reference flattening: (operator name, immediate) in program order
    pub fn flatten(&self) -> Vec<(String, i64)> {
        let mut out = vec![];
        // label stack of seq refs
        fn go(t: &RefTree, s: usize, labels: &mut Vec<usize>, out: &mut Vec<(String, i64)>) {
            for it in &t.seqs[s].items {
                let depth_of = |labels: &Vec<usize>, target: usize| -> i64 {
                    // an if's two arms share one label
                    labels.iter().rev().position(|l| *l == target).map(|d| d as i64).unwrap_or(-1)
                };
                match it {
                    RI::C32(k) => out.push(("I32Const".into(), *k as i64)),
                    RI::C64(k) => out.push(("I64Const".into(), *k)),
                    RI::Drop => out.push(("Drop".into(), 0)),
                    RI::Set(l) => out.push(("LocalSet".into(), *l as i64)),
                    RI::Get(l) => out.push(("LocalGet".into(), *l as i64)),
                    RI::Br(tg) => out.push(("Br".into(), depth_of(labels, *tg))),
                    RI::BrIf(tg) => out.push(("BrIf".into(), depth_of(labels, *tg))),
                    RI::Block(b) => {
                        out.push(("Block".into(), 0));
                        labels.push(*b);
                        go(t, *b, labels, out);
                        labels.pop();
                        out.push(("End".into(), 0));
                    }
                    RI::Loop(b) => {
                        out.push(("Loop".into(), 0));
                        labels.push(*b);
                        go(t, *b, labels, out);
                        labels.pop();
                        out.push(("End".into(), 0));
                    }
                    RI::If(c, e) => {
                        out.push(("If".into(), 0));
                        labels.push(*c);
                        go(t, *c, labels, out);
                        labels.pop();
                        out.push(("Else".into(), 0));
                        labels.push(*e);
                        go(t, *e, labels, out);
                        labels.pop();
                        out.push(("End".into(), 0));
                    }
                }
            }
        }
        let mut labels = vec![0usize];
        go(self, 0, &mut labels, &mut out);
        out.push(("End".into(), 0));
        out
    }
}

pub struct Built {
    pub module: Module,
    pub func: FunctionId,
    pub seq_ids: Vec<InstrSeqId>,
}

/// replay the actions on the real builder API
pub fn build(acts: &[Act]) -> Built {
    let mut module = Module::default();
    // the second parameter's LocalId is allocated first, a scratch local in between
    let p1 = module.locals.add(ValType::I32);
    let la = module.locals.add(ValType::I32);
    let p0 = module.locals.add(ValType::I32);
    let lb = module.locals.add(ValType::I64);
    let loc = |l: Loc| match l {
        Loc::P0 => p0,
        Loc::A => la,
        Loc::B => lb,
        Loc::P1 => p1,
    };
    let mut b = FunctionBuilder::new(&mut module.types, &[ValType::I32, ValType::I32], &[]);
    let mut seqs: Vec<InstrSeqId> = vec![b.func_body_id()];
    let mut serial = 0i32;
    for a in acts {
        match *a {
            Act::Unit { seq, pos, unit } => {
                serial += 1;
                let k = serial;
                let mut sb = b.instr_seq(seqs[seq]);
                match (unit, pos) {
                    (Unit::ConstDrop, None) => {
                        sb.i32_const(k).drop();
                    }
                    (Unit::ConstDrop, Some(p)) => {
                        sb.const_at(p, Value::I32(k)).drop_at(p + 1);
                    }
                    (Unit::ConstSet(Loc::B), None) => {
                        sb.i64_const(k as i64).local_set(lb);
                    }
                    (Unit::ConstSet(Loc::B), Some(p)) => {
                        sb.const_at(p, Value::I64(k as i64)).local_set_at(p + 1, lb);
                    }
                    (Unit::ConstSet(l), None) => {
                        sb.i32_const(k).local_set(loc(l));
                    }
                    (Unit::ConstSet(l), Some(p)) => {
                        sb.const_at(p, Value::I32(k)).local_set_at(p + 1, loc(l));
                    }
                    (Unit::GetDrop(l), None) => {
                        sb.local_get(loc(l)).drop();
                    }
                    (Unit::GetDrop(l), Some(p)) => {
                        sb.local_get_at(p, loc(l)).drop_at(p + 1);
                    }
                    (Unit::Br(t), None) => {
                        let tid = seqs[t];
                        sb.br(tid);
                    }
                    (Unit::Br(t), Some(p)) => {
                        let tid = seqs[t];
                        sb.br_at(p, tid);
                    }
                    (Unit::BrIf(t), None) => {
                        let tid = seqs[t];
                        sb.i32_const(k).br_if(tid);
                    }
                    (Unit::BrIf(t), Some(p)) => {
                        let tid = seqs[t];
                        sb.const_at(p, Value::I32(k)).br_if_at(p + 1, tid);
                    }
                }
            }
            Act::Construct { seq, pos, kind, fill } => {
                let mut new_ids: Vec<InstrSeqId> = vec![];
                {
                    let mut sb = b.instr_seq(seqs[seq]);
                    let mut filler = |x: &mut InstrSeqBuilder, serial: &mut i32, fill: bool| {
                        if fill {
                            *serial += 1;
                            x.i32_const(*serial).drop();
                        }
                    };
                    match (kind, pos) {
                        (CK::Block, None) => {
                            sb.block(None, |x| {
                                new_ids.push(x.id());
                                filler(x, &mut serial, fill)
                            });
                        }
                        (CK::Block, Some(p)) => {
                            sb.block_at(p, None, |x| {
                                new_ids.push(x.id());
                                filler(x, &mut serial, fill)
                            });
                        }
                        (CK::Loop, None) => {
                            sb.loop_(None, |x| {
                                new_ids.push(x.id());
                                filler(x, &mut serial, fill)
                            });
                        }
                        (CK::Loop, Some(p)) => {
                            sb.loop_at(p, None, |x| {
                                new_ids.push(x.id());
                                filler(x, &mut serial, fill)
                            });
                        }
                        (CK::IfElse, pos) => {
                            let ids = std::cell::RefCell::new(vec![]);
                            let ser = std::cell::RefCell::new(serial);
                            let cons = |x: &mut InstrSeqBuilder| {
                                ids.borrow_mut().push(x.id());
                                if fill {
                                    *ser.borrow_mut() += 1;
                                    let k = *ser.borrow();
                                    x.i32_const(k).drop();
                                }
                            };
                            let alt = |x: &mut InstrSeqBuilder| {
                                ids.borrow_mut().push(x.id());
                            };
                            match pos {
                                None => {
                                    // the reference numbers the condition constant after the arms
                                    sb.if_else(None, cons, alt);
                                    let k = *ser.borrow() + 1;
                                    let len = sb.instrs().len();
                                    sb.const_at(len - 1, Value::I32(k));
                                }
                                Some(p) => {
                                    sb.if_else_at(p, None, cons, alt);
                                    let k = *ser.borrow() + 1;
                                    sb.const_at(p, Value::I32(k));
                                }
                            }
                            serial = *ser.borrow() + 1;
                            new_ids = ids.into_inner();
                        }
                    }
                }
                seqs.extend(new_ids);
            }
            Act::NewDangling => {
                let id = b.dangling_instr_seq(None).id();
                seqs.push(id);
            }
            Act::Attach { dangling, seq, pos, as_loop } => {
                let d = seqs[dangling];
                let mut sb = b.instr_seq(seqs[seq]);
                match (as_loop, pos) {
                    (false, None) => {
                        sb.instr(Block { seq: d });
                    }
                    (false, Some(p)) => {
                        sb.instr_at(p, Block { seq: d });
                    }
                    (true, None) => {
                        sb.instr(Loop { seq: d });
                    }
                    (true, Some(p)) => {
                        sb.instr_at(p, Loop { seq: d });
                    }
                }
            }
        }
    }
    let func = b.finish(vec![p0, p1], &mut module.funcs);
    module.exports.add("f", func);
    Built { module, func, seq_ids: seqs }
}

/// compare the emitted body with the reference flattening
pub fn judge(t: &RefTree, out: &[u8]) -> Result<(), (String, String)> {
    if let Err(e) = wmodel::validate214(out, wmodel::FeatureSet::DEFAULT) {
        return Err(("emitted-function-invalid".into(), e));
    }
    let m = wmodel::decode(out).map_err(|e| ("undecodable".to_string(), e))?;
    let f = m.funcs.iter().find(|f| f.body.is_some()).ok_or(("no-function".to_string(), String::new()))?;
    let body = f.body.as_ref().unwrap();
    let want = t.flatten();
    let got: Vec<&wmodel::Op> = body.ops.iter().map(|o| &o.0).collect();
    // locals: P0 must be index 0; A and B one distinct slot each of the right type
    let mut slot: std::collections::BTreeMap<i64, u32> = std::collections::BTreeMap::new();
    let (mut i, mut j) = (0usize, 0usize);
    while i < want.len() || j < got.len() {
        if i >= want.len() || j >= got.len() {
            return Err(("builder-length-mismatch".into(), format!("reference has {} operators, emitted {}", want.len(), got.len())));
        }
        let (wn, wi) = (&want[i].0, want[i].1);
        let g = got[j];
        // tolerated: an empty else arm emitted without `else`
        if wn == "Else" && g.name == "End" && i + 1 < want.len() && want[i + 1].0 == "End" {
            i += 1;
            continue;
        }
        if wn != g.name {
            return Err((format!("builder-op-mismatch:{}->{}", wn, g.name), format!("at reference #{} / emitted #{}: expected {} got {}", i, j, wn, g.show())));
        }
        match (wn.as_str(), g.imms.first()) {
            ("I32Const", Some(wmodel::Imm::I32(k))) if *k as i64 != wi => return Err(("builder-const-mismatch".into(), format!("#{}: expected {} got {}", i, wi, k))),
            ("I64Const", Some(wmodel::Imm::I64(k))) if *k != wi => return Err(("builder-const-mismatch".into(), format!("#{}: expected {} got {}", i, wi, k))),
            ("Br", Some(wmodel::Imm::Depth(d))) | ("BrIf", Some(wmodel::Imm::Depth(d))) if *d as i64 != wi => {
                return Err(("builder-branch-depth".into(), format!("#{}: {} expected depth {} got {}", i, wn, wi, d)))
            }
            ("LocalSet", Some(wmodel::Imm::Local(x))) | ("LocalGet", Some(wmodel::Imm::Local(x))) => {
                let e = slot.entry(wi).or_insert(*x);
                if *e != *x {
                    return Err(("builder-local-slot-changed".into(), format!("local {:?} seen at slots {} and {}", wi, e, x)));
                }
                // Loc discriminants: P0 = 0, A = 1, B = 2, P1 = 3
                let want_param = if wi == 0 { Some(0u32) } else if wi == 3 { Some(1u32) } else { None };
                if let Some(pp) = want_param {
                    if *x != pp {
                        return Err(("builder-param-moved".into(), format!("parameter {} emitted as local {}", pp, x)));
                    }
                } else if *x < 2 {
                    return Err(("builder-local-on-param-slot".into(), format!("local {:?} emitted at parameter slot {}", wi, x)));
                }
                let ty = if *x < 2 { Some(&wmodel::VT::I32) } else { body.locals.get(*x as usize - 2) };
                let wt = if wi == 2 { wmodel::VT::I64 } else { wmodel::VT::I32 };
                if ty != Some(&wt) {
                    return Err(("builder-local-type".into(), format!("local {:?} emitted at slot {} of type {:?}", wi, x, ty)));
                }
            }
            ("Block", Some(wmodel::Imm::Block(bt))) | ("Loop", Some(wmodel::Imm::Block(bt))) | ("If", Some(wmodel::Imm::Block(bt))) => {
                if *bt != wmodel::BlockTy::Empty {
                    return Err(("builder-block-type".into(), format!("{:?}", bt)));
                }
            }
            _ => {}
        }
        i += 1;
        j += 1;
    }
    let mut seen = HashSet::new();
    for (_, s) in &slot {
        if !seen.insert(*s) {
            return Err(("builder-locals-share-slot".into(), format!("{:?}", slot)));
        }
    }
    // one declared slot per local the tree mentions: what only a sequence that was never attached
    // (or no instruction at all) mentions is not part of the function
    let used = slot.keys().filter(|k| **k == 1 || **k == 2).count();
    if body.locals.len() != used {
        return Err(("builder-declared-locals".into(), format!("the tree uses {} non-parameter locals, the emitted function declares {:?}", used, body.locals)));
    }
    Ok(())
}

pub fn check_history(acts: &[Act]) -> Option<(String, String)> {
    let mut t = RefTree::new();
    for a in acts {
        t.apply(a);
    }
    let r = catch_unwind(AssertUnwindSafe(|| {
        let mut b = build(acts);
        b.module.emit_wasm()
    }));
    match r {
        Ok(out) => judge(&t, &out).err(),
        Err(p) => {
            let msg = panic_msg(p);
            Some((format!("builder-panic:{}", crate::pipe::norm_panic(&msg)), msg))
        }
    }
}

pub struct Explore {
    pub states: AtomicU64,
    pub transitions: AtomicU64,
    pub distinct: Mutex<HashSet<u64>>,
    pub found: Mutex<Vec<(Vec<Act>, String, String)>>,
}

fn is_append(a: &Act) -> bool {
    match a {
        Act::Unit { pos, .. } | Act::Construct { pos, .. } | Act::Attach { pos, .. } => pos.is_none(),
        Act::NewDangling => true,
    }
}

/// second pass: one level deeper than `dfs`, restricted to the append API (no positional
/// inserts), so that longer construction orders (e.g. a dangling sequence created before the
/// sequence that later encloses it, then branched to) are covered in the quick tier too
pub fn dfs_append(t: &RefTree, hist: &mut Vec<Act>, depth: usize, max_nest: usize, ex: &Explore, visit: &(dyn Fn(&[Act], &RefTree) -> Option<(String, String)> + Sync)) {
    if hist.len() == depth {
        ex.states.fetch_add(1, Ordering::Relaxed);
        if let Some((sig, d)) = visit(hist, t) {
            let mut f = ex.found.lock().unwrap();
            if f.len() < 2000 {
                f.push((hist.clone(), sig, d));
            }
        }
        return;
    }
    for a in t.actions(max_nest) {
        if !is_append(&a) {
            continue;
        }
        let mut t2 = t.clone();
        t2.apply(&a);
        hist.push(a);
        ex.transitions.fetch_add(1, Ordering::Relaxed);
        dfs_append(&t2, hist, depth, max_nest, ex, visit);
        hist.pop();
    }
}

pub fn explore_append(depth: usize, max_nest: usize, threads: usize, ex: &Explore, visit: &(dyn Fn(&[Act], &RefTree) -> Option<(String, String)> + Sync)) {
    let root = RefTree::new();
    let mut work: Vec<Vec<Act>> = vec![];
    for a in root.actions(max_nest).into_iter().filter(is_append) {
        let mut t = root.clone();
        t.apply(&a);
        for b in t.actions(max_nest).into_iter().filter(is_append) {
            work.push(vec![a, b]);
        }
    }
    pmap(&work, threads, None, |h| {
        let mut t = root.clone();
        for a in h {
            t.apply(a);
        }
        let mut hist = h.clone();
        dfs_append(&t, &mut hist, depth, max_nest, ex, visit);
    });
}

pub fn dfs(t: &RefTree, hist: &mut Vec<Act>, depth: usize, max_nest: usize, ex: &Explore, visit: &(dyn Fn(&[Act], &RefTree) -> Option<(String, String)> + Sync)) {
    ex.states.fetch_add(1, Ordering::Relaxed);
    if let Some((sig, d)) = visit(hist, t) {
        let mut f = ex.found.lock().unwrap();
        if f.len() < 2000 {
            f.push((hist.clone(), sig, d));
        }
    }
    if hist.len() == depth {
        return;
    }
    for a in t.actions(max_nest) {
        let mut t2 = t.clone();
        t2.apply(&a);
        hist.push(a);
        ex.transitions.fetch_add(1, Ordering::Relaxed);
        dfs(&t2, hist, depth, max_nest, ex, visit);
        hist.pop();
    }
}

/// explore all histories up to `depth`, in parallel over the first action
pub fn explore_all(depth: usize, max_nest: usize, threads: usize, visit: &(dyn Fn(&[Act], &RefTree) -> Option<(String, String)> + Sync)) -> Explore {
    let ex = Explore { states: AtomicU64::new(0), transitions: AtomicU64::new(0), distinct: Mutex::new(HashSet::new()), found: Mutex::new(vec![]) };
    let root = RefTree::new();
    ex.states.fetch_add(1, Ordering::Relaxed);
    if let Some((sig, d)) = visit(&[], &root) {
        ex.found.lock().unwrap().push((vec![], sig, d));
    }
    let firsts = root.actions(max_nest);
    // two levels of fan-out for balance
    let mut work: Vec<Vec<Act>> = vec![];
    for a in &firsts {
        let mut t = root.clone();
        t.apply(a);
        if depth >= 2 {
            ex.states.fetch_add(1, Ordering::Relaxed);
            ex.transitions.fetch_add(1, Ordering::Relaxed);
            if let Some((sig, d)) = visit(&[*a], &t) {
                ex.found.lock().unwrap().push((vec![*a], sig, d));
            }
            for b in t.actions(max_nest) {
                work.push(vec![*a, b]);
            }
        } else {
            work.push(vec![*a]);
        }
    }
    pmap(&work, threads, None, |h| {
        let mut t = root.clone();
        for a in h {
            t.apply(a);
        }
        let mut hist = h.clone();
        ex.transitions.fetch_add(1, Ordering::Relaxed);
        dfs(&t, &mut hist, depth, max_nest, &ex, visit);
    });
    ex
}

pub fn acts_json(h: &[Act]) -> serde_json::Value {
    json!(h.iter().map(|a| format!("{:?}", a)).collect::<Vec<_>>())
}

/// parse the Debug form back (replay files)
pub fn acts_from_json(v: &serde_json::Value) -> Vec<Act> {
    fn num(s: &str, key: &str) -> Option<usize> {
        let i = s.find(key)? + key.len();
        let rest = &s[i..];
        let end = rest.find(|c: char| !c.is_ascii_digit()).unwrap_or(rest.len());
        rest[..end].parse().ok()
    }
    fn pos(s: &str) -> Option<usize> {
        if s.contains("pos: None") {
            None
        } else {
            num(s, "pos: Some(")
        }
    }
    let loc = |s: &str| if s.contains("(P0)") { Loc::P0 } else if s.contains("(P1)") { Loc::P1 } else if s.contains("(A)") { Loc::A } else { Loc::B };
    v.as_array()
        .map(|arr| {
            arr.iter()
                .filter_map(|x| {
                    let s = x.as_str()?;
                    if s.starts_with("Unit") {
                        let unit = if s.contains("ConstDrop") {
                            Unit::ConstDrop
                        } else if s.contains("ConstSet") {
                            Unit::ConstSet(loc(s))
                        } else if s.contains("GetDrop") {
                            Unit::GetDrop(loc(s))
                        } else if s.contains("BrIf(") {
                            Unit::BrIf(num(s, "BrIf(")?)
                        } else {
                            Unit::Br(num(s, "Br(")?)
                        };
                        Some(Act::Unit { seq: num(s, "seq: ")?, pos: pos(s), unit })
                    } else if s.starts_with("Construct") {
                        let kind = if s.contains("IfElse") { CK::IfElse } else if s.contains("Loop") { CK::Loop } else { CK::Block };
                        Some(Act::Construct { seq: num(s, "seq: ")?, pos: pos(s), kind, fill: s.contains("fill: true") })
                    } else if s.starts_with("NewDangling") {
                        Some(Act::NewDangling)
                    } else {
                        Some(Act::Attach { dangling: num(s, "dangling: ")?, seq: num(s, ", seq: ")?, pos: pos(s), as_loop: s.contains("as_loop: true") })
                    }
                })
                .collect()
        })
        .unwrap_or_default()
}

fn recheck(c: &Case) -> Vec<Violation> {
    if c.cfg.get("census").is_some() {
        return crate::props::builder_ops::check_case(c);
    }
    if c.cfg.get("resurrected_type").is_some() {
        return crate::props::builder_ops::check_resurrected_type_case(c);
    }
    if c.cfg.get("br_table").is_some() {
        return crate::props::builder_ops::check_br_table_case(c);
    }
    if c.cfg.get("replace_args").is_some() {
        return crate::props::builder_ops::check_replace_args_case(c);
    }
    if c.cfg.get("op_names").is_some() {
        return crate::props::builder_ops::check_op_name_case(c);
    }
    if c.cfg.get("block_type_census").is_some() {
        return crate::props::builder_ops::check_block_type_case(c);
    }
    if c.cfg.get("locals_census").is_some() {
        return crate::props::builder_ops::check_locals_case(c);
    }
    let acts = acts_from_json(&c.cfg["history"]);
    match check_history(&acts) {
        Some((sig, d)) => vec![Violation::new("C15", sig, d, c)],
        None => vec![],
    }
}

pub fn bounds(args: &Args) -> (usize, usize) {
    if args.tier == Tier::Quick {
        (3, 2)
    } else {
        (4, 3)
    }
}

pub fn run(args: &Args) -> i32 {
    let mut ev = Ev::new("C15");
    if let Some(p) = &args.replay {
        let (case, _) = match read_replay(p) {
            Ok(x) => x,
            Err(e) => {
                eprintln!("MACHINERY: {}", e);
                return 2;
            }
        };
        ev.evaluations = 1;
        let v = recheck(&case);
        return finish(args, ev, v, &recheck);
    }
    let (depth, nest) = bounds(args);
    let distinct: Mutex<HashSet<u64>> = Mutex::new(HashSet::new());
    let visit = |h: &[Act], t: &RefTree| {
        let key = wmodel::fnv(format!("{:?}", t.flatten()).as_bytes());
        distinct.lock().unwrap().insert(key);
        check_history(h)
    };
    let ex = explore_all(depth, nest, args.threads, &visit);
    // one level deeper with the append API only (states of exactly that length)
    let append_depth = depth + 1;
    explore_append(append_depth, nest.max(2), args.threads, &ex, &visit);
    ev.extra.insert("append_only_pass".into(), json!({"history_length": append_depth}));
    ev.states = ex.states.load(Ordering::Relaxed);
    ev.transitions = ex.transitions.load(Ordering::Relaxed);
    ev.evaluations = ev.states;
    ev.nontrivial = distinct.lock().unwrap().len() as u64;
    ev.max_depth = depth as u64;
    let mut viol = vec![];
    for (h, sig, d) in ex.found.into_inner().unwrap() {
        let c = Case { family: "builder".into(), coords: format!("{} actions", h.len()), wasm: vec![0; h.len()], cfg: json!({"history": acts_json(&h)}) };
        viol.push(Violation::new("C15", sig, d, &c));
    }
    // the operand census through the builder (props/builder_ops.rs)
    let census = crate::props::builder_ops::cases();
    for c in &census {
        ev.evaluations += 1;
        ev.transitions += 1;
        viol.extend(crate::props::builder_ops::check_case(c));
    }
    {
        let mut ev2 = Ev::new("C15");
        let cen = crate::props::census::cases(args, &mut ev2);
        let oc = crate::props::builder_ops::op_name_cases(&cen);
        let mut names = std::collections::BTreeSet::new();
        for c in &oc {
            ev.evaluations += 1;
            ev.transitions += 2;
            names.insert(c.cfg["wasm_op"].as_str().unwrap_or("").to_string());
            viol.extend(crate::props::builder_ops::check_op_name_case(c));
        }
        ev.extra.insert("builder_operator_name_census".into(), json!({"cases": oc.len(), "distinct_unary_and_binary_operators": names.len()}));
    }
    for c in &crate::props::builder_ops::resurrected_type_cases() {
        ev.evaluations += 1;
        ev.transitions += 1;
        viol.extend(crate::props::builder_ops::check_resurrected_type_case(c));
    }
    for c in &crate::props::builder_ops::br_table_cases() {
        ev.evaluations += 1;
        ev.transitions += 1;
        viol.extend(crate::props::builder_ops::check_br_table_case(c));
    }
    for c in &crate::props::builder_ops::replace_args_cases() {
        ev.evaluations += 1;
        ev.transitions += 1;
        viol.extend(crate::props::builder_ops::check_replace_args_case(c));
    }
    let bc = crate::props::builder_ops::block_type_cases();
    for c in &bc {
        ev.evaluations += 1;
        ev.transitions += 1;
        viol.extend(crate::props::builder_ops::check_block_type_case(c));
    }
    ev.extra.insert("builder_block_type_census".into(), json!({"cases": bc.len()}));
    let lc = crate::props::builder_ops::locals_cases();
    for c in &lc {
        ev.evaluations += 1;
        ev.transitions += 1;
        viol.extend(crate::props::builder_ops::check_locals_case(c));
    }
    ev.extra.insert("builder_local_type_census".into(), json!({"types": 7, "max_locals": 3, "cases": lc.len()}));
    ev.extra.insert("builder_operand_census".into(), json!({"instruction_kinds": crate::props::builder_ops::KINDS.len(), "cases": census.len()}));
    ev.sample(json!({"history": ["Construct{seq:0,pos:None,kind:Block,fill:true}", "Unit{seq:1,pos:Some(1),unit:BrIf(0)}", "Unit{seq:0,pos:Some(0),unit:ConstSet(B)}"]}));
    ev.rule = format!(
        "every history of at most {} builder actions (append/insert-at-every-instruction-position of 5 stack-neutral units + br/br_if to every enclosing sequence; block/loop/if_else through the \
         closure API with empty or filled closures; dangling sequence created and attached later at any position as block or loop), nesting <= {}, replayed on the real FunctionBuilder and on a \
         reference tree; the oracle runs in every state (every prefix); plus every history of exactly {} actions that uses the append API only. plus the builder operand census: every entity-naming instruction of the builder API x every assignment of its operands over two entities per index space x two creation orders, emitted and decoded, \
         the immediates must denote the entities given; the block-type census (every (params, results) over four small type lists x block / loop / if-else through `InstrSeqType::new`: the emitted signature must be exactly that); and the local-type census: every sequence of <= 3 locals over the 7 value types (x 0/2 parameters), each written and read with its own type, must validate with one slot per local. states = histories; non-trivial = distinct reference flattenings reached",
        depth, nest, append_depth
    );
    ev.bounds = json!({"actions": depth, "nesting": nest});
    ev.assumptions = vec!["the reference tree and its flattening (written from the wasm spec) define the expected body; tolerated: an empty else arm emitted without `else`".into()];
    finish(args, ev, viol, &recheck)
}
