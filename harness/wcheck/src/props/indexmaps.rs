//! C19: the parse-time IndicesToIds and the emit-time IdsToIndices agree with the binaries.

use crate::core::*;
use crate::pipe::*;
use crate::props::conv::*;
use crate::sweep::*;
use serde_json::json;
use std::borrow::Cow;
use std::sync::{Arc, Mutex};
use walrus::*;
use wmodel::{decode, iso, IsoMode, Space, WModule};

#[derive(Default, Debug)]
struct Captured {
    funcs: Vec<FunctionId>,
    types: Vec<TypeId>,
    tables: Vec<TableId>,
    mems: Vec<MemoryId>,
    globals: Vec<GlobalId>,
    elems: Vec<ElementId>,
    datas: Vec<DataId>,
    /// findings raised while interrogating the parse-time map: (signature, detail)
    findings: Vec<(String, String)>,
    ran: usize,
}

fn ref_func_desc(a: &WModule, i: usize) -> String {
    let f = &a.funcs[i];
    let sig = a.sig(f.ty).cloned();
    let imp = match f.import {
        Some(k) => format!("import {}.{}", a.imports[k].module, a.imports[k].name),
        None => "local".into(),
    };
    format!("{} {:?} marker={:?}", imp, sig.map(|s| (s.params, s.results)), wmodel::iso::func_marker(a, i as u32))
}

fn walrus_func_desc(m: &Module, id: FunctionId) -> String {
    let f = m.funcs.get(id);
    let ty = m.types.get(f.ty());
    let (imp, marker) = match &f.kind {
        FunctionKind::Import(i) => {
            let im = m.imports.get(i.import);
            (format!("import {}.{}", im.module, im.name), None)
        }
        FunctionKind::Local(l) => {
            let b = l.block(l.entry_block());
            let mk = if b.instrs.len() >= 2 {
                match (&b.instrs[0].0, &b.instrs[1].0) {
                    (ir::Instr::Const(ir::Const { value: ir::Value::I32(k) }), ir::Instr::Drop(_)) => Some(*k),
                    _ => None,
                }
            } else {
                None
            };
            ("local".to_string(), mk)
        }
        FunctionKind::Uninitialized(_) => ("uninitialized".to_string(), None),
    };
    format!("{} {:?} marker={:?}", imp, Some((vts(ty.params()), vts(ty.results()))), marker)
}

fn interrogate(a: &WModule, m: &Module, ids: &IndicesToIds, cap: &mut Captured) {
    cap.ran += 1;
    macro_rules! bad {
        ($sig:expr, $($arg:tt)*) => { cap.findings.push(($sig.to_string(), format!($($arg)*))) };
    }
    // functions
    for i in 0..a.funcs.len() {
        match ids.get_func(i as u32) {
            Ok(id) => {
                cap.funcs.push(id);
                let (w, r) = (walrus_func_desc(m, id), ref_func_desc(a, i));
                if w != r {
                    bad!("parse-map:func", "function index {}: map gives [{}], the binary defines [{}]", i, w, r);
                }
            }
            Err(e) => bad!("parse-map:func-missing", "function index {}: {}", i, e),
        }
    }
    if ids.get_func(a.funcs.len() as u32).is_ok() {
        bad!("parse-map:func-past-end", "get_func({}) succeeded", a.funcs.len());
    }
    // types
    for i in 0..a.types.len() {
        match ids.get_type(i as u32) {
            Ok(id) => {
                cap.types.push(id);
                let t = m.types.get(id);
                let got = (vts(t.params()), vts(t.results()));
                let want = a.types[i].clone().map(|s| (s.params, s.results));
                if Some(got.clone()) != want {
                    bad!("parse-map:type", "type index {}: map gives {:?}, the binary defines {:?}", i, got, want);
                }
            }
            Err(e) => bad!("parse-map:type-missing", "type index {}: {}", i, e),
        }
    }
    if ids.get_type(a.types.len() as u32).is_ok() {
        bad!("parse-map:type-past-end", "get_type({}) succeeded", a.types.len());
    }
    // tables
    for i in 0..a.tables.len() {
        match ids.get_table(i as u32) {
            Ok(id) => {
                cap.tables.push(id);
                let t = m.tables.get(id);
                let got = (rt(t.element_ty), t.initial, t.maximum, t.table64, t.import.is_some());
                let w = &a.tables[i];
                let want = (w.ty.elem.clone(), w.ty.lim.min, w.ty.lim.max, w.ty.lim.is64, w.import.is_some());
                if got != want {
                    bad!("parse-map:table", "table index {}: map gives {:?}, the binary defines {:?}", i, got, want);
                }
            }
            Err(e) => bad!("parse-map:table-missing", "table index {}: {}", i, e),
        }
    }
    if ids.get_table(a.tables.len() as u32).is_ok() {
        bad!("parse-map:table-past-end", "get_table({}) succeeded", a.tables.len());
    }
    // memories
    for i in 0..a.memories.len() {
        match ids.get_memory(i as u32) {
            Ok(id) => {
                cap.mems.push(id);
                let t = m.memories.get(id);
                let got = (t.initial, t.maximum, t.shared, t.memory64, t.import.is_some());
                let w = &a.memories[i];
                let want = (w.ty.lim.min, w.ty.lim.max, w.ty.lim.shared, w.ty.lim.is64, w.import.is_some());
                if got != want {
                    bad!("parse-map:memory", "memory index {}: map gives {:?}, the binary defines {:?}", i, got, want);
                }
            }
            Err(e) => bad!("parse-map:memory-missing", "memory index {}: {}", i, e),
        }
    }
    if ids.get_memory(a.memories.len() as u32).is_ok() {
        bad!("parse-map:memory-past-end", "get_memory({}) succeeded", a.memories.len());
    }
    // globals
    for i in 0..a.globals.len() {
        match ids.get_global(i as u32) {
            Ok(id) => {
                cap.globals.push(id);
                let g = m.globals.get(id);
                let init = match &g.kind {
                    GlobalKind::Import(_) => "import".to_string(),
                    GlobalKind::Local(ConstExpr::Value(v)) => match v {
                        ir::Value::I32(x) => format!("I32Const[I32({})]", x),
                        ir::Value::I64(x) => format!("I64Const[I64({})]", x),
                        ir::Value::F32(x) => format!("F32Const[F32({})]", x.to_bits()),
                        ir::Value::F64(x) => format!("F64Const[F64({})]", x.to_bits()),
                        ir::Value::V128(x) => format!("V128Const[V128({:?})]", x.to_le_bytes()),
                    },
                    GlobalKind::Local(ConstExpr::Global(x)) => format!("GlobalGet[Global({})]", cap.globals.iter().position(|y| y == x).map(|p| p as i64).unwrap_or(-1)),
                    GlobalKind::Local(ConstExpr::RefNull(_)) => "RefNull".to_string(),
                    GlobalKind::Local(ConstExpr::RefFunc(x)) => format!("RefFunc[Func({})]", cap.funcs.iter().position(|y| y == x).map(|p| p as i64).unwrap_or(-1)),
                };
                let w = &a.globals[i];
                let winit = match &w.init {
                    None => "import".to_string(),
                    Some(ops) => {
                        let o = &ops[0];
                        if o.name == "RefNull" {
                            "RefNull".to_string()
                        } else {
                            o.show()
                        }
                    }
                };
                let got = (vt(g.ty), g.mutable, init);
                let want = (w.ty.ty.clone(), w.ty.mutable, winit);
                if got != want {
                    bad!("parse-map:global", "global index {}: map gives {:?}, the binary defines {:?}", i, got, want);
                }
            }
            Err(e) => bad!("parse-map:global-missing", "global index {}: {}", i, e),
        }
    }
    if ids.get_global(a.globals.len() as u32).is_ok() {
        bad!("parse-map:global-past-end", "get_global({}) succeeded", a.globals.len());
    }
    // element segments
    for i in 0..a.elems.len() {
        match ids.get_element(i as u32) {
            Ok(id) => {
                cap.elems.push(id);
                let e = m.elements.get(id);
                let kind = match &e.kind {
                    ElementKind::Passive => "passive".to_string(),
                    ElementKind::Declared => "declared".to_string(),
                    ElementKind::Active { table, .. } => format!("active table {}", cap.tables.iter().position(|y| y == table).map(|p| p as i64).unwrap_or(-1)),
                };
                let items: Vec<String> = match &e.items {
                    ElementItems::Functions(fs) => fs.iter().map(|f| format!("f{}", cap.funcs.iter().position(|y| y == f).map(|p| p as i64).unwrap_or(-1))).collect(),
                    ElementItems::Expressions(_, es) => es
                        .iter()
                        .map(|x| match x {
                            ConstExpr::RefFunc(f) => format!("f{}", cap.funcs.iter().position(|y| y == f).map(|p| p as i64).unwrap_or(-1)),
                            ConstExpr::RefNull(_) => "null".to_string(),
                            ConstExpr::Global(g) => format!("g{}", cap.globals.iter().position(|y| y == g).map(|p| p as i64).unwrap_or(-1)),
                            ConstExpr::Value(_) => "value".to_string(),
                        })
                        .collect(),
                };
                let w = &a.elems[i];
                let wkind = match &w.mode {
                    wmodel::ElemMode::Passive => "passive".to_string(),
                    wmodel::ElemMode::Declared => "declared".to_string(),
                    wmodel::ElemMode::Active { table, .. } => format!("active table {}", table),
                };
                let witems: Vec<String> = wmodel::iso::norm_items(&w.items)
                    .iter()
                    .map(|it| match it {
                        wmodel::iso::Item::Func(f) => format!("f{}", f),
                        wmodel::iso::Item::Expr(ops) => match (ops[0].name, ops[0].imms.first()) {
                            ("RefNull", _) => "null".to_string(),
                            ("GlobalGet", Some(wmodel::Imm::Global(g))) => format!("g{}", g),
                            _ => "value".to_string(),
                        },
                    })
                    .collect();
                if (kind.clone(), items.clone()) != (wkind.clone(), witems.clone()) {
                    bad!("parse-map:element", "element index {}: map gives {:?}, the binary defines {:?}", i, (kind, items), (wkind, witems));
                }
            }
            Err(e) => bad!("parse-map:element-missing", "element index {}: {}", i, e),
        }
    }
    if ids.get_element(a.elems.len() as u32).is_ok() {
        bad!("parse-map:element-past-end", "get_element({}) succeeded", a.elems.len());
    }
    // data segments
    for i in 0..a.datas.len() {
        match ids.get_data(i as u32) {
            Ok(id) => {
                cap.datas.push(id);
                let d = m.data.get(id);
                let kind = match &d.kind {
                    DataKind::Passive => "passive".to_string(),
                    DataKind::Active { memory, .. } => format!("active memory {}", cap.mems.iter().position(|y| y == memory).map(|p| p as i64).unwrap_or(-1)),
                };
                let w = &a.datas[i];
                let wkind = match &w.mode {
                    wmodel::DataMode::Passive => "passive".to_string(),
                    wmodel::DataMode::Active { memory, .. } => format!("active memory {}", memory),
                };
                if kind != wkind || d.value != w.payload {
                    bad!("parse-map:data", "data index {}: map gives ({}, {} bytes), the binary defines ({}, {} bytes)", i, kind, d.value.len(), wkind, w.payload.len());
                }
            }
            Err(e) => bad!("parse-map:data-missing", "data index {}: {}", i, e),
        }
    }
    if ids.get_data(a.datas.len() as u32).is_ok() {
        bad!("parse-map:data-past-end", "get_data({}) succeeded", a.datas.len());
    }
    // locals
    for (fi, f) in a.funcs.iter().enumerate() {
        let body = match &f.body {
            Some(b) => b,
            None => continue,
        };
        let fid = match cap.funcs.get(fi) {
            Some(f) => *f,
            None => continue,
        };
        let sig = a.sig(f.ty).cloned().unwrap_or(wmodel::FuncSig { params: vec![], results: vec![] });
        let tys: Vec<&wmodel::VT> = sig.params.iter().chain(body.locals.iter()).collect();
        let mut seen = std::collections::HashSet::new();
        for (li, t) in tys.iter().enumerate() {
            match ids.get_local(fid, li as u32) {
                Ok(lid) => {
                    let got = vt(m.locals.get(lid).ty());
                    if &got != *t {
                        bad!("parse-map:local-type", "function {} local {}: map gives a {:?} local, the binary declares {:?}", fi, li, got, t);
                    }
                    if !seen.insert(lid) {
                        bad!("parse-map:local-duplicate", "function {} local {}: same LocalId as an earlier index", fi, li);
                    }
                }
                Err(e) => bad!("parse-map:local-missing", "function {} local {}: {}", fi, li, e),
            }
        }
        if tys.len() < 50_000 && ids.get_local(fid, tys.len() as u32).is_ok() {
            bad!("parse-map:local-past-end", "function {}: get_local({}) succeeded", fi, tys.len());
        }
    }
}

#[derive(Debug)]
struct Spy {
    /// the section's name: a consumer of the map may carry any name, also one a tool convention knows
    name: &'static str,
    live: Arc<Mutex<Live>>,
    out: Arc<Mutex<Vec<(Space, usize, u32)>>>,
    types_out: Arc<Mutex<Vec<(usize, u32)>>>,
}
#[derive(Default, Debug)]
struct Live {
    funcs: Vec<(usize, FunctionId)>,
    types: Vec<(usize, TypeId)>,
    tables: Vec<(usize, TableId)>,
    mems: Vec<(usize, MemoryId)>,
    globals: Vec<(usize, GlobalId)>,
    elems: Vec<(usize, ElementId)>,
    datas: Vec<(usize, DataId)>,
}

impl CustomSection for Spy {
    fn name(&self) -> &str {
        self.name
    }
    fn data(&self, ids: &IdsToIndices) -> Cow<'_, [u8]> {
        let l = self.live.lock().unwrap();
        let mut o = self.out.lock().unwrap();
        o.clear();
        for (i, id) in &l.funcs {
            o.push((Space::Func, *i, ids.get_func_index(*id)));
        }
        for (i, id) in &l.tables {
            o.push((Space::Table, *i, ids.get_table_index(*id)));
        }
        for (i, id) in &l.mems {
            o.push((Space::Mem, *i, ids.get_memory_index(*id)));
        }
        for (i, id) in &l.globals {
            o.push((Space::Global, *i, ids.get_global_index(*id)));
        }
        for (i, id) in &l.elems {
            o.push((Space::Elem, *i, ids.get_element_index(*id)));
        }
        for (i, id) in &l.datas {
            o.push((Space::Data, *i, ids.get_data_index(*id)));
        }
        let mut t = self.types_out.lock().unwrap();
        t.clear();
        for (i, id) in &l.types {
            t.push((*i, ids.get_type_index(*id)));
        }
        Cow::Borrowed(&[])
    }
}

pub fn check_case(c: &Case) -> CaseResult {
    let mut r = CaseResult::default();
    let do_gc = c.cfg.get("gc").and_then(|x| x.as_bool()).unwrap_or(false);
    if wmodel::validate214(&c.wasm, wmodel::FeatureSet::DEFAULT).is_err() {
        return r;
    }
    r.valid_input = true;
    let a = match decode(&c.wasm) {
        Ok(a) => Arc::new(a),
        Err(e) => {
            r.note = Some(format!("oracle cannot decode {}:{}: {}", c.family, c.coords, e));
            return r;
        }
    };
    let cap = Arc::new(Mutex::new(Captured::default()));
    let mut cfg = Cfg::default().config();
    {
        let (a2, cap2) = (a.clone(), cap.clone());
        cfg.on_parse(move |m, ids| {
            interrogate(&a2, m, ids, &mut cap2.lock().unwrap());
            Ok(())
        });
    }
    let parsed = std::panic::catch_unwind(std::panic::AssertUnwindSafe(|| cfg.parse(&c.wasm)));
    let mut m = match parsed {
        Ok(Ok(m)) => m,
        Ok(Err(_)) => return r,
        Err(p) => {
            let msg = panic_msg(p);
            r.violations.push(Violation::new("C19", format!("parse-map-panic:{}", norm_panic(&msg)), format!("panic while parsing / interrogating the parse-time map: {}", msg), c));
            return r;
        }
    };
    r.transitions = 1;
    let capd = cap.lock().unwrap();
    if capd.ran != 1 {
        r.violations.push(Violation::new("C19", "on-parse-count", format!("on_parse ran {} times", capd.ran), c));
    }
    for (s, d) in &capd.findings {
        r.violations.push(Violation::new("C19", s.clone(), d.clone(), c));
    }
    // emit-time map
    if do_gc {
        if gc(&mut m).is_err() {
            return r;
        }
        r.transitions += 1;
    }
    let live = Arc::new(Mutex::new(Live::default()));
    {
        let mut l = live.lock().unwrap();
        let fl: std::collections::HashSet<_> = m.funcs.iter().map(|x| x.id()).collect();
        l.funcs = capd.funcs.iter().enumerate().filter(|(_, id)| fl.contains(id)).map(|(i, id)| (i, *id)).collect();
        let tl: std::collections::HashSet<_> = m.types.iter().map(|x| x.id()).collect();
        l.types = capd.types.iter().enumerate().filter(|(_, id)| tl.contains(id)).map(|(i, id)| (i, *id)).collect();
        let x: std::collections::HashSet<_> = m.tables.iter().map(|x| x.id()).collect();
        l.tables = capd.tables.iter().enumerate().filter(|(_, id)| x.contains(id)).map(|(i, id)| (i, *id)).collect();
        let x: std::collections::HashSet<_> = m.memories.iter().map(|x| x.id()).collect();
        l.mems = capd.mems.iter().enumerate().filter(|(_, id)| x.contains(id)).map(|(i, id)| (i, *id)).collect();
        let x: std::collections::HashSet<_> = m.globals.iter().map(|x| x.id()).collect();
        l.globals = capd.globals.iter().enumerate().filter(|(_, id)| x.contains(id)).map(|(i, id)| (i, *id)).collect();
        let x: std::collections::HashSet<_> = m.elements.iter().map(|x| x.id()).collect();
        l.elems = capd.elems.iter().enumerate().filter(|(_, id)| x.contains(id)).map(|(i, id)| (i, *id)).collect();
        let x: std::collections::HashSet<_> = m.data.iter().map(|x| x.id()).collect();
        l.datas = capd.datas.iter().enumerate().filter(|(_, id)| x.contains(id)).map(|(i, id)| (i, *id)).collect();
    }
    drop(capd);
    let out_map = Arc::new(Mutex::new(vec![]));
    let types_map = Arc::new(Mutex::new(vec![]));
    m.customs.add(Spy { name: "spy", live: live.clone(), out: out_map.clone(), types_out: types_map.clone() });
    // a second consumer of the map: every custom section must see the same, complete map
    let out_map2 = Arc::new(Mutex::new(vec![]));
    let types_map2 = Arc::new(Mutex::new(vec![]));
    m.customs.add(Spy { name: "dylink.0", live: live.clone(), out: out_map2.clone(), types_out: types_map2.clone() });
    let out = match emit(&mut m) {
        Ok(o) => o,
        Err(f) => {
            // a panic of get_*_index for an id that *is* live means the map lacks an emitted entity;
            // but the same panic is C02's when it comes from walrus's own emission. Distinguish by
            // whether a plain emit (no spy) also panics.
            let plain = roundtrip(&c.wasm, &Cfg::default(), do_gc);
            if plain.is_ok() {
                r.violations.push(Violation::new("C19", format!("emit-map-{}", f.signature()), format!("querying the emit-time map for a live id failed: {}", f.detail()), c));
            }
            return r;
        }
    };
    r.transitions += 1;
    r.digests.push(wmodel::fnv(&out));
    let b = match decode(&out) {
        Ok(b) => b,
        Err(_) => return r,
    };
    let maps = match iso(&a, &b, if do_gc { IsoMode::Gc } else { IsoMode::RoundTrip }) {
        Ok(m) => m,
        Err(e) => {
            r.note = Some(format!("C19: emit-time part skipped for {}:{} because input and output are not isomorphic ({}); reported by C03/C04/C06", c.family, c.coords, e[0].sig));
            return r;
        }
    };
    r.nontrivial = maps.renumbered();
    if *out_map.lock().unwrap() != *out_map2.lock().unwrap() || *types_map.lock().unwrap() != *types_map2.lock().unwrap() {
        r.violations.push(Violation::new("C19", "emit-map:sections-see-different-maps", "two custom sections asked the same questions while serialising and got different answers".to_string(), c));
    }
    for (s, i, j) in out_map.lock().unwrap().iter() {
        let want = maps.f(*s, *i as u32);
        if want != Some(*j) {
            r.violations.push(Violation::new(
                "C19",
                format!("emit-map:{:?}", s),
                format!("{:?} that was input index {} is reported at output index {}, but it actually appears at {:?}", s, i, j, want),
                c,
            ));
        }
    }
    for (i, j) in types_map.lock().unwrap().iter() {
        let (x, y) = (a.sig(*i as u32), b.sig(*j));
        if x.is_none() || x != y {
            r.violations.push(Violation::new("C19", "emit-map:Type", format!("type that was input index {} is reported at output index {}: {:?} vs {:?}", i, j, x, y), c));
        }
    }
    r
}

pub fn run(args: &Args) -> i32 {
    let mut ev = Ev::new("C19");
    if let Some(p) = &args.replay {
        let (case, _) = match read_replay(p) {
            Ok(x) => x,
            Err(e) => {
                eprintln!("MACHINERY: {}", e);
                return 2;
            }
        };
        ev.evaluations = 1;
        let v = recheck(&case);
        return finish(args, ev, v, &recheck);
    }
    let ms = crate::props::families::members(&["fixtures", "struct", "funcs", "locals", "names", "idshift", "leb", "reach", "minimal"], args, &mut ev);
    let mut cases = vec![];
    for m in &ms {
        for gc in [false, true] {
            cases.push(Case::of(m).with(json!({"gc": gc})));
        }
    }
    ev.rule = "every member of fixtures/struct/funcs/locals/names x {no pass, gc}: inside on_parse every index of every index space (and one past the end) \
        is looked up in IndicesToIds and the entity it returns, described through public getters, is compared with entity i of the wasmparser-0.259 model of the input; \
        a spy CustomSection queries IdsToIndices for every live id while serialising and each answer is compared with the position the entity really has in the \
        emitted binary (iso maps). Plus the emit-time map over edit histories (props/indexmaps_edits.rs): explicit-state exploration of additions to every index space, import re-registration, deletions and gc \
        on a module whose entities carry physical markers; in every state every answer of the map is compared with the marker found at that index of the emitted binary. non-trivial = walrus renumbered something"
        .into();
    ev.bounds = json!({"tier": args.tier.s()});
    ev.assumptions = vec!["wmodel decoder + iso maps (forced by exports/imports/markers) identify entities in the output".into()];
    let mut viol = run_sweep(args, &mut ev, &cases, &check_case);
    viol.extend(crate::props::indexmaps_edits::run_model(args, &mut ev));
    finish(args, ev, viol, &recheck)
}

fn recheck(c: &Case) -> Vec<Violation> {
    if c.cfg.get("map_edits").is_some() {
        return crate::props::indexmaps_edits::recheck(c);
    }
    check_case(c).violations
}
