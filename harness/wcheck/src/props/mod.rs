pub mod families;
pub mod structural;
pub mod census;
pub mod bodies;
