//! The `body(Σ,L)` family as cases (one module per body) and as batches.

use crate::core::*;
use serde_json::json;
use std::sync::Mutex;
use wgen::body::*;

/// enumerate all members with length <= max_len, in parallel over the first token
pub fn enumerate_all(max_len: usize, threads: usize) -> (Vec<Vec<u8>>, u64) {
    let alpha = alphabet();
    let firsts: Vec<usize> = (0..alpha.len()).collect();
    let total = Mutex::new(0u64);
    let (res, _) = pmap(&firsts, threads, None, |f| {
        let (m, v) = enumerate(&alpha, max_len, Some(*f));
        *total.lock().unwrap() += v;
        m
    });
    let mut out = vec![];
    for r in res.into_iter().flatten() {
        out.extend(r);
    }
    // simplest first
    out.sort_by(|a, b| a.len().cmp(&b.len()).then(a.cmp(b)));
    let v = *total.lock().unwrap();
    (out, v)
}

pub fn max_len(args: &Args) -> usize {
    if args.tier == Tier::Quick {
        4
    } else {
        5
    }
}

pub fn cases(args: &Args, ev: &mut Ev) -> Vec<Case> {
    let alpha = alphabet();
    let l = max_len(args);
    let (seqs, validations) = enumerate_all(l, args.threads);
    let nt = seqs.iter().filter(|s| nontrivial(&alpha, s)).count();
    ev.extra.insert(
        "body_family".into(),
        json!({"alphabet": alpha.len(), "max_len": l, "members": seqs.len(), "with_special_construct": nt, "validator_calls_during_enumeration": validations}),
    );
    seqs.iter()
        .map(|s| Case {
            family: "body".into(),
            coords: show(&alpha, s),
            wasm: scaffold(&[body_bytes(&alpha, s)]),
            cfg: json!({}),
        })
        .collect()
}
