use crate::core::*;
pub fn cases(_args: &Args, _ev: &mut Ev) -> Vec<Case> { vec![] }
