//! The operator census as cases.

use crate::core::*;
use serde_json::json;

pub fn cases(args: &Args, ev: &mut Ev) -> Vec<Case> {
    let thorough = args.tier == Tier::Thorough;
    let (entries, rep) = wgen::opcensus::census(thorough, if thorough { None } else { Some(2) }, args.threads);
    ev.extra.insert(
        "opcensus".into(),
        json!({
            "opcode_candidates": rep.opcode_candidates, "immediate_instances": rep.instance_count, "decodable_encodings": rep.decodable,
            "validator_calls": rep.validator_calls, "accepted_entries": rep.accepted_entries,
            "distinct_operator_names_accepted": rep.accepted_names.len(),
            "names_not_accepted_with_reason": rep.not_accepted.len(),
            "unexplained_names": rep.unexplained,
            "operator_names_in_wasmparser_0_214": wmodel::validate::ALL_OP_NAMES_214.len(),
        }),
    );
    if !rep.unexplained.is_empty() {
        ev.note(format!("opcensus: {} operator names neither accepted nor shown feature-rejected: {:?}", rep.unexplained.len(), rep.unexplained));
    }
    entries
        .iter()
        .map(|e| Case { family: "opcensus".into(), coords: e.coords(), wasm: e.module(), cfg: json!({}) })
        .collect()
}
