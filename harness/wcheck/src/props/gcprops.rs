//! C06 (structural part) and C07: the GC pass keeps everything reachable, drops everything
//! else, changes nothing it keeps, and is idempotent.

use crate::core::*;
use crate::hist::*;
use crate::pipe::*;
use crate::props::modhist::{first_diff, MOp};
use crate::sweep::*;
use serde_json::json;
use wmodel::reach::reach;
use wmodel::{decode, iso, IsoMode, Space};

/// everything the independent reachability analysis finds reachable in `a` must have a
/// counterpart in `b` (maps from iso in gc mode): (signature suffix, detail) per lost kind
pub fn reachable_lost(a: &wmodel::WModule, maps: &wmodel::Maps) -> Vec<(String, String)> {
    let rs = reach(a);
    let mut out = vec![];
    for (sp, name) in [(Space::Func, "function"), (Space::Table, "table"), (Space::Mem, "memory"), (Space::Global, "global"), (Space::Elem, "element-segment"), (Space::Data, "data-segment")] {
        let lost: Vec<usize> = rs.get(sp).iter().enumerate().filter(|(i, r)| **r && maps.f(sp, *i as u32).is_none()).map(|(i, _)| i).collect();
        if !lost.is_empty() {
            out.push((name.to_string(), format!("{} {:?} reachable from the roots before gc, gone afterwards", name, lost)));
        }
    }
    out
}

/// C06 structural: parse; gc; emit -> valid, same exports, kept part isomorphic
pub fn check_c06(c: &Case) -> CaseResult {
    let mut r = CaseResult::default();
    if wmodel::validate214(&c.wasm, wmodel::FeatureSet::DEFAULT).is_err() {
        return r;
    }
    r.valid_input = true;
    let out = match roundtrip(&c.wasm, &Cfg::default(), true) {
        Ok(o) => o,
        Err(Fail::Rejected(_)) => return r,
        Err(f) => {
            r.violations.push(Violation::new("C06", f.signature(), f.detail(), c));
            return r;
        }
    };
    r.transitions = 3;
    r.digests.push(wmodel::fnv(&out));
    if let Err(e) = wmodel::validate214(&out, wmodel::FeatureSet::DEFAULT) {
        let mut sig = format!("invalid-after-gc:{}", crate::props::validity::norm_verr(&e));
        if e.contains("undeclared function reference") {
            sig = format!("{}:{}", sig, crate::props::validity::undeclared_kind(&c.wasm, &out));
        }
        r.violations.push(Violation::new("C06", sig, e, c));
        return r;
    }
    let (a, b) = match (decode(&c.wasm), decode(&out)) {
        (Ok(a), Ok(b)) => (a, b),
        _ => return r,
    };
    match iso(&a, &b, IsoMode::Gc) {
        Ok(m) => {
            r.nontrivial = m.fwd.iter().any(|v| v.iter().any(|x| x.is_none()));
            // reachability is judged on the plain round trip (walrus has already dropped dead code
            // there, which the analysis does not model), against the output after gc
            if let Ok(plain) = roundtrip(&c.wasm, &Cfg::default(), false) {
                if let Ok(p) = decode(&plain) {
                    if let Ok(pm) = iso(&p, &b, IsoMode::Gc) {
                        for (kind, detail) in reachable_lost(&p, &pm) {
                            r.violations.push(Violation::new("C06", format!("gc-removed-reachable:{}", kind), detail, c));
                        }
                    }
                }
            }
            let _ = &m;
        }
        Err(ms) => {
            r.nontrivial = true;
            for m in ms {
                r.violations.push(Violation::new("C06", format!("gc-changed-kept-part:{}", m.sig), m.detail, c));
            }
        }
    }
    r
}

/// C07 precision on one emitted binary: (signature, detail) for everything unreachable in it
pub fn precision_findings(out: &[u8]) -> Vec<(String, String)> {
    let mut fs = vec![];
    let b = match decode(out) {
        Ok(b) => b,
        Err(_) => return fs,
    };
    let rs = reach(&b);
    for (sp, name) in [(Space::Func, "function"), (Space::Table, "table"), (Space::Global, "global"), (Space::Elem, "element-segment"), (Space::Data, "data-segment")] {
        let v = rs.get(sp);
        let dead: Vec<usize> = v.iter().enumerate().filter(|(_, x)| !**x).map(|(i, _)| i).collect();
        if !dead.is_empty() {
            let imported = match sp {
                Space::Func => dead.iter().any(|i| b.funcs[*i].import.is_some()),
                Space::Table => dead.iter().any(|i| b.tables[*i].import.is_some()),
                Space::Global => dead.iter().any(|i| b.globals[*i].import.is_some()),
                _ => false,
            };
            fs.push((
                format!("gc-kept-unreachable:{}{}", if imported { "imported-" } else { "" }, name),
                format!("after gc the output still contains {} {:?}, unreachable from the roots", name, dead),
            ));
        }
    }
    // memories: tolerated residue of one memory when a data segment is retained and no memory is reachable
    let dead_m: Vec<usize> = rs.mems.iter().enumerate().filter(|(_, x)| !**x).map(|(i, _)| i).collect();
    if !dead_m.is_empty() {
        let any_reachable = rs.mems.iter().any(|x| *x);
        let tolerated = dead_m.len() == 1 && !any_reachable && !b.datas.is_empty();
        if !tolerated {
            fs.push(("gc-kept-unreachable:memory".into(), format!("after gc the output still contains unreachable memories {:?}", dead_m)));
        }
    }
    let dead_t: Vec<usize> = rs.types.iter().enumerate().filter(|(_, x)| !**x).map(|(i, _)| i).collect();
    if !dead_t.is_empty() {
        fs.push(("gc-kept-unreachable:type".into(), format!("after gc the output still contains unused types {:?}", dead_t)));
    }
    fs
}

/// C07 precision on the emitted binary
pub fn check_c07_precision(c: &Case) -> CaseResult {
    let mut r = CaseResult::default();
    if wmodel::validate214(&c.wasm, wmodel::FeatureSet::DEFAULT).is_err() {
        return r;
    }
    r.valid_input = true;
    let out = match roundtrip(&c.wasm, &Cfg::default(), true) {
        Ok(o) => o,
        Err(_) => return r,
    };
    r.transitions = 3;
    r.digests.push(wmodel::fnv(&out));
    r.nontrivial = out.len() < c.wasm.len();
    for (sig, detail) in precision_findings(&out) {
        r.violations.push(Violation::new("C07", sig, detail, c));
    }
    r
}

// ---- idempotence: explicit-state exploration over {gc, emit, reparse} -----------------------

pub struct GcSubject<'a> {
    pub wasm: &'a [u8],
}
pub struct GObj {
    m: walrus::Module,
}
impl<'a> GcSubject<'a> {
    fn build(&self, hist: &[MOp], extra_gc: bool) -> Result<Vec<u8>, String> {
        let mut m = parse(self.wasm, &Cfg::default()).map_err(|f| f.detail())?;
        for op in hist {
            match op {
                MOp::Gc => walrus::passes::gc::run(&mut m),
                MOp::Emit | MOp::EmitFile | MOp::Rewrap => {
                    m.emit_wasm();
                }
                MOp::Reparse => {
                    let o = m.emit_wasm();
                    m = Cfg::default().config().parse(&o).map_err(|e| format!("{:#}", e))?;
                }
            }
        }
        if extra_gc {
            walrus::passes::gc::run(&mut m);
        }
        Ok(m.emit_wasm())
    }
}
impl<'a> Subject for GcSubject<'a> {
    type Op = MOp;
    type Obj = GObj;
    fn fresh(&self) -> Result<GObj, String> {
        parse(self.wasm, &Cfg::default()).map(|m| GObj { m }).map_err(|f| f.detail())
    }
    fn ops(&self, _h: &[MOp]) -> Vec<MOp> {
        vec![MOp::Gc, MOp::Emit, MOp::Reparse]
    }
    fn apply(&self, o: &mut GObj, op: &MOp, _at: usize) -> Result<(), Finding> {
        match op {
            MOp::Gc => walrus::passes::gc::run(&mut o.m),
            MOp::Emit | MOp::EmitFile | MOp::Rewrap => {
                o.m.emit_wasm();
            }
            MOp::Reparse => {
                let out = o.m.emit_wasm();
                o.m = Cfg::default().config().parse(&out).map_err(|e| Finding { sig: "own-output-rejected".into(), detail: format!("{:#}", e) })?;
            }
        }
        Ok(())
    }
    fn observe(&self, mut o: GObj, hist: &[MOp]) -> (u64, Vec<Finding>) {
        let mut fs = vec![];
        let now = o.m.emit_wasm();
        if hist.contains(&MOp::Gc) {
            // a further gc must leave the canonical observation unchanged
            match self.build(hist, true) {
                Ok(after) => {
                    if after != now {
                        fs.push(Finding {
                            sig: format!("gc-not-idempotent:{}", first_diff(&now, &after)),
                            detail: format!("after {:?}, one more gc changes the emitted bytes ({} -> {} bytes)", hist, now.len(), after.len()),
                        });
                    }
                }
                Err(e) => fs.push(Finding { sig: "replay-failed".into(), detail: e }),
            }
        }
        (wmodel::fnv(&now), fs)
    }
}

fn hist_of(cfg: &serde_json::Value) -> Vec<MOp> {
    cfg.get("history")
        .and_then(|h| h.as_array())
        .map(|a| {
            a.iter()
                .filter_map(|x| match x.as_str() {
                    Some("emit") => Some(MOp::Emit),
                    Some("gc") => Some(MOp::Gc),
                    Some("reparse") => Some(MOp::Reparse),
                    _ => None,
                })
                .collect()
        })
        .unwrap_or_default()
}
fn hist_json(h: &[MOp]) -> serde_json::Value {
    json!(h.iter().map(|o| match o { MOp::Emit => "emit", MOp::Gc => "gc", MOp::Reparse => "reparse", MOp::EmitFile => "emit-file", MOp::Rewrap => "rewrap" }).collect::<Vec<_>>())
}

pub fn check_c07_idem(c: &Case, depth: usize) -> (Stats, Vec<Violation>) {
    let mut v = vec![];
    if wmodel::validate214(&c.wasm, wmodel::FeatureSet::DEFAULT).is_err() || parse(&c.wasm, &Cfg::default()).is_err() {
        return (Stats::default(), v);
    }
    let s = GcSubject { wasm: &c.wasm };
    let (st, found) = explore(&s, depth);
    for f in found {
        if f.finding.sig.starts_with("panic:") || f.finding.sig == "own-output-rejected" || f.finding.sig == "replay-failed" {
            continue; // C02 / C08 report these
        }
        let mut cc = c.clone();
        cc.cfg = json!({"history": hist_json(&f.hist), "idem": true});
        v.push(Violation::new("C07", f.finding.sig, f.finding.detail, &cc));
    }
    (st, v)
}

fn recheck(prop: &'static str, c: &Case) -> Vec<Violation> {
    if prop == "C06" {
        if c.cfg.get("edits").is_some() {
            return crate::props::edits::recheck_as("C06", c);
        }
        if c.cfg.get("bisim").is_some() {
            return crate::props::bisim::recheck("C06", c);
        }
        return check_c06(c).violations;
    }
    if c.cfg.get("edits").is_some() {
        return crate::props::edits::recheck_as("C07", c);
    }
    if c.cfg.get("idem").is_some() {
        let s = GcSubject { wasm: &c.wasm };
        let h = hist_of(&c.cfg);
        return match replay(&s, &h) {
            Ok((_, fs)) => fs.into_iter().map(|f| Violation::new("C07", f.sig, f.detail, c)).collect(),
            Err(f) => vec![Violation::new("C07", f.sig, f.detail, c)],
        };
    }
    check_c07_precision(c).violations
}

pub fn run(prop: &'static str, args: &Args) -> i32 {
    let mut ev = Ev::new(prop);
    if let Some(p) = &args.replay {
        let (case, _) = match read_replay(p) {
            Ok(x) => x,
            Err(e) => {
                eprintln!("MACHINERY: {}", e);
                return 2;
            }
        };
        ev.evaluations = 1;
        let v = recheck(prop, &case);
        return finish(args, ev, v, &|c| recheck(prop, c));
    }
    let ms = crate::props::families::members(&["reach", "struct", "fixtures", "funcs", "minimal", "reach+customs"], args, &mut ev);
    let mut cases: Vec<Case> = ms.iter().map(Case::of).collect();
    cases.extend(crate::props::bisim::stateful_cases());
    let mut viol;
    if prop == "C06" {
        viol = run_sweep(args, &mut ev, &cases, &check_c06);
        viol.extend(crate::props::bisim::run_gc(args, &mut ev, &cases));
        viol.extend(crate::props::edits::run_model_as("C06", args, &mut ev));
        ev.rule = "every member of reach(k)/struct/fixtures/funcs and the stateful modules through parse; gc; emit: no panic, output validates, export list equal, kept part isomorphic to the input \
            (iso mode=gc); everything an independent reachability analysis finds reachable in the plain round trip still present after gc; the same two rules in every state of the edit model (props/edits.rs) whose history ends in gc, against the same history without that gc; plus product exploration of input vs output instances in node/V8 (bisim) over call sequences. non-trivial = gc removed something"
            .into();
    } else {
        viol = run_sweep(args, &mut ev, &cases, &check_c07_precision);
        let depth = if args.tier == Tier::Quick { 4 } else { 6 };
        let (res, _) = pmap(&cases, args.threads, None, |c| check_c07_idem(c, depth));
        let mut merged = 0;
        for r in res.into_iter().flatten() {
            ev.states += r.0.states;
            ev.transitions += r.0.transitions * 2;
            ev.max_depth = ev.max_depth.max(r.0.max_depth);
            merged += r.0.merged;
            viol.extend(r.1);
        }
        ev.extra.insert("states_merged_by_canonicalisation".into(), json!(merged));
        viol.extend(crate::props::edits::run_model_as("C07", args, &mut ev));
        ev.rule = format!(
            "precision: every member of reach(k)/struct/fixtures/funcs/stateful through parse; gc; emit, then an independent reachability analysis (roots and edges from the property text) on the *emitted* \
             binary: nothing unreachable may remain (one memory tolerated when only data segments need it). idempotence: explicit-state exploration of all histories over {{gc, emit, reparse}} up to depth {}; \
             in every state whose history contains gc, one more gc must not change the emitted bytes. Plus the edit model (props/edits.rs): in every state whose edit history ends in gc the emitted binary \
             must hold nothing unreachable and one more gc must change nothing (functions, types and segments made through the builder API are covered this way). non-trivial = gc shrank the module",
            depth
        );
    }
    ev.bounds = json!({"tier": args.tier.s(), "reach_edges_subset_size": if args.tier == Tier::Quick { 2 } else { 3 }});
    ev.assumptions = vec!["wmodel decoder, iso and reach analysis".into()];
    finish(args, ev, viol, &|c| recheck(prop, c))
}
