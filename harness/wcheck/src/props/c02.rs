//! C02 driver: part (a) the configuration sweep, part (b) the edit-history model.

use crate::core::*;
use crate::props::validity;
use crate::sweep::*;
use serde_json::json;

pub fn recheck(c: &Case) -> Vec<Violation> {
    if c.cfg.get("edits").is_some() {
        return crate::props::edits::recheck(c);
    }
    validity::check_case(c).violations
}

pub fn run(args: &Args) -> i32 {
    let mut ev = Ev::new("C02");
    if let Some(p) = &args.replay {
        let (case, _) = match read_replay(p) {
            Ok(x) => x,
            Err(e) => {
                eprintln!("MACHINERY: {}", e);
                return 2;
            }
        };
        ev.evaluations = 1;
        let v = recheck(&case);
        return finish(args, ev, v, &recheck);
    }
    let cases = validity::sweep_cases(args, &mut ev);
    ev.rule = "(a) every member of fixtures/struct/funcs/locals/names/customs/opcensus/body x {emit, gc;emit} x {names on/off} x {producers on/off}: \
        catch_unwind around every walrus call, output judged by stand-alone wasmparser 0.214 (0.259 second opinion). (b) explicit-state exploration of \
        well-formed API edit histories (see edit_model). non-trivial = output bytes differ from input"
        .into();
    ev.bounds = json!({"tier": args.tier.s()});
    ev.assumptions = vec!["validity = wasmparser 0.214 Validator with the documented default feature set".into()];
    let mut viol = run_sweep(args, &mut ev, &cases, &validity::check_case);
    viol.extend(crate::props::edits::run_model(args, &mut ev));
    finish(args, ev, viol, &recheck)
}
