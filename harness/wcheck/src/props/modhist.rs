//! C08 (emission deterministic / repeatable / fixpoint) and C12 (unknown custom sections
//! survive): explicit-state exploration of {emit, gc, reparse} histories on real modules.

use crate::core::*;
use crate::hist::*;
use crate::pipe::*;
use serde_json::json;
use std::time::{Duration, Instant};
use wmodel::decode;

#[derive(Clone, Copy, Debug, PartialEq, Eq)]
pub enum MOp {
    Emit,
    Gc,
    Reparse,
    /// `emit_wasm_file` onto a path that already holds a longer file; the bytes left on disk must be
    /// exactly what `emit_wasm` returns
    EmitFile,
    /// C12 only, the documented idiom for taking a section over: for every name among the input's
    /// unknown sections, `while let Some(raw) = customs.remove_raw(name) { customs.add(Typed(raw)) }`
    /// where `Typed` is a user-defined `CustomSection` that reproduces name and bytes
    Rewrap,
}

#[derive(Debug)]
struct Typed {
    name: String,
    data: Vec<u8>,
}
impl walrus::CustomSection for Typed {
    fn name(&self) -> &str {
        &self.name
    }
    fn data(&self, _: &walrus::IdsToIndices) -> std::borrow::Cow<'_, [u8]> {
        std::borrow::Cow::Borrowed(&self.data)
    }
}

pub struct Obj {
    m: walrus::Module,
    emits: usize,
    gcs: usize,
    findings: Vec<Finding>,
    /// sections were removed and added back by the history: their order is the history's doing
    rewrapped: bool,
}

pub struct ModSubject<'a> {
    pub prop: &'static str,
    pub wasm: &'a [u8],
    pub cfg: Cfg,
    pub input_customs: Vec<(String, Vec<u8>)>,
}

pub fn raw_sections(b: &[u8]) -> Vec<(u8, String, Vec<u8>)> {
    // (id, custom name, raw contents) straight from the framing; independent of any decoder
    let mut out = vec![];
    let mut p = 8usize;
    while p < b.len() {
        let id = b[p];
        p += 1;
        let mut size = 0usize;
        let mut sh = 0;
        while p < b.len() {
            let x = b[p];
            p += 1;
            size |= ((x & 0x7f) as usize) << sh;
            sh += 7;
            if x & 0x80 == 0 {
                break;
            }
        }
        let end = (p + size).min(b.len());
        let body = b[p..end].to_vec();
        let mut name = String::new();
        if id == 0 && !body.is_empty() {
            let n = body[0] as usize;
            if n < 0x80 && 1 + n <= body.len() {
                name = String::from_utf8_lossy(&body[1..1 + n]).to_string();
            }
        }
        out.push((id, name, body));
        p = end;
    }
    out
}

/// name of the first section in which two binaries differ
pub fn first_diff(a: &[u8], b: &[u8]) -> String {
    let (sa, sb) = (raw_sections(a), raw_sections(b));
    let show = |s: &(u8, String, Vec<u8>)| if s.0 == 0 { format!("custom({})", if s.1.starts_with(".debug") { ".debug*" } else if s.1 == "name" || s.1 == "producers" { &s.1 } else { "other" }) } else { format!("section{}", s.0) };
    // are the non-custom sections and name/producers identical, with only other customs missing?
    let strip = |v: &Vec<(u8, String, Vec<u8>)>| -> Vec<(u8, String, Vec<u8>)> { v.iter().filter(|s| !(s.0 == 0 && s.1 != "name" && s.1 != "producers")).cloned().collect() };
    if strip(&sa) == strip(&sb) {
        let (ca, cb) = (sa.iter().filter(|s| s.0 == 0).count(), sb.iter().filter(|s| s.0 == 0).count());
        return if cb < ca { "custom-sections-dropped".into() } else if cb > ca { "custom-sections-added".into() } else { "custom-sections-changed".into() };
    }
    for i in 0..sa.len().max(sb.len()) {
        match (sa.get(i), sb.get(i)) {
            (Some(x), Some(y)) if x == y => {}
            (Some(x), Some(y)) => return if x.0 == y.0 { show(x) } else { format!("{}-vs-{}", show(x), show(y)) },
            (Some(x), None) => return format!("{}-missing", show(x)),
            (None, Some(y)) => return format!("{}-extra", show(y)),
            (None, None) => {}
        }
    }
    "length".into()
}

impl<'a> ModSubject<'a> {
    fn check_customs(&self, out: &[u8], o: &mut Obj) {
        if self.prop != "C12" {
            return;
        }
        let got = match decode(out) {
            Ok(m) => m.uninterpreted_customs(),
            Err(_) => return, // undecodable output is C02's business
        };
        let same = if o.rewrapped {
            let mut a = got.clone();
            let mut b = self.input_customs.clone();
            a.sort();
            b.sort();
            a == b
        } else {
            got == self.input_customs
        };
        if !same {
            let kind = if got.len() < self.input_customs.len() {
                "missing"
            } else if got.len() > self.input_customs.len() {
                "duplicated-or-added"
            } else {
                let mut a = got.clone();
                let mut b = self.input_customs.clone();
                a.sort();
                b.sort();
                if a == b {
                    "reordered"
                } else {
                    "content-changed"
                }
            };
            let nth = if o.emits >= 2 { "emit#2+".to_string() } else { "emit#1".to_string() };
            let after_gc = if o.gcs > 0 { ":after-gc" } else { "" };
            // a loss that only shows on a repeated emit is a different defect from one on the first
            let sig = if o.emits >= 2 { format!("customs-{}:{}", kind, nth) } else { format!("customs-{}:{}{}", kind, nth, after_gc) };
            o.findings.push(Finding {
                sig,
                detail: format!(
                    "uninterpreted custom sections after emit #{}: {:?}, input had {:?}",
                    o.emits,
                    got.iter().map(|c| (&c.0, c.1.len())).collect::<Vec<_>>(),
                    self.input_customs.iter().map(|c| (&c.0, c.1.len())).collect::<Vec<_>>()
                ),
            });
        }
    }
}

impl<'a> Subject for ModSubject<'a> {
    type Op = MOp;
    type Obj = Obj;
    fn fresh(&self) -> Result<Obj, String> {
        match parse(self.wasm, &self.cfg) {
            Ok(m) => Ok(Obj { m, emits: 0, gcs: 0, findings: vec![], rewrapped: false }),
            Err(f) => Err(f.detail()),
        }
    }
    fn ops(&self, _h: &[MOp]) -> Vec<MOp> {
        if self.prop == "C12" {
            vec![MOp::Emit, MOp::Gc, MOp::Reparse, MOp::EmitFile, MOp::Rewrap]
        } else {
            vec![MOp::Emit, MOp::Gc, MOp::Reparse, MOp::EmitFile]
        }
    }
    fn apply(&self, o: &mut Obj, op: &MOp, _at: usize) -> Result<(), Finding> {
        match op {
            MOp::Rewrap => {
                let mut names: Vec<String> = vec![];
                for (n, _) in &self.input_customs {
                    if !names.contains(n) {
                        names.push(n.clone());
                    }
                }
                for n in names {
                    let mut guard = 0;
                    while let Some(raw) = o.m.customs.remove_raw(&n) {
                        o.m.customs.add(Typed { name: raw.name, data: raw.data });
                        guard += 1;
                        if guard > 64 {
                            o.findings.push(Finding { sig: "remove-raw-never-exhausted".into(), detail: format!("remove_raw({:?}) keeps returning sections after they were all taken", n) });
                            break;
                        }
                    }
                }
                o.rewrapped = true;
            }
            MOp::EmitFile => {
                static SERIAL: std::sync::atomic::AtomicUsize = std::sync::atomic::AtomicUsize::new(0);
                let dir = std::path::Path::new("/verif/work/modhist");
                let _ = std::fs::create_dir_all(dir);
                let path = dir.join(format!("{}-{}.wasm", std::process::id(), SERIAL.fetch_add(1, std::sync::atomic::Ordering::SeqCst)));
                // something longer than any module of the families is already there
                let _ = std::fs::write(&path, vec![0xEEu8; 70_000]);
                let res = o.m.emit_wasm_file(&path);
                o.emits += 1;
                let on_disk = std::fs::read(&path).unwrap_or_default();
                let _ = std::fs::remove_file(&path);
                if let Err(e) = res {
                    o.findings.push(Finding { sig: "emit-file-failed".into(), detail: format!("{:#}", e) });
                } else {
                    self.check_customs(&on_disk, o);
                    let mem = o.m.emit_wasm();
                    o.emits += 1;
                    if self.prop == "C08" && mem != on_disk {
                        o.findings.push(Finding {
                            sig: format!("emit-file-differs-from-emit:{}", if on_disk.len() > mem.len() && on_disk.starts_with(&mem) { "stale-tail".to_string() } else { first_diff(&mem, &on_disk) }),
                            detail: format!("emit_wasm_file left {} bytes on disk, emit_wasm on the same module returns {} bytes", on_disk.len(), mem.len()),
                        });
                    }
                    self.check_customs(&mem, o);
                }
            }
            MOp::Emit => {
                let out = o.m.emit_wasm();
                o.emits += 1;
                self.check_customs(&out, o);
            }
            MOp::Gc => {
                walrus::passes::gc::run(&mut o.m);
                o.gcs += 1;
            }
            MOp::Reparse => {
                let out = o.m.emit_wasm();
                o.emits += 1;
                self.check_customs(&out, o);
                match self.cfg.config().parse(&out) {
                    Ok(m) => {
                        o.m = m;
                        // a fresh module: its emit counter starts again
                        o.emits = 0;
                    }
                    Err(e) => {
                        // an output the reference validator rejects too is C02's violation (reported
                        // there with the precise reason); the history simply ends here
                        let sig = if wmodel::validate214(&out, wmodel::FeatureSet::DEFAULT).is_err() { "panic:invalid-output-ends-history" } else { "own-output-rejected" };
                        return Err(Finding { sig: sig.into(), detail: format!("walrus rejects its own output: {:#}", e) });
                    }
                }
            }
        }
        Ok(())
    }
    fn observe(&self, mut o: Obj, _h: &[MOp]) -> (u64, Vec<Finding>) {
        let mut fs = std::mem::take(&mut o.findings);
        // probe: what would the next emit return?  (this object is never reused)
        let e1 = o.m.emit_wasm();
        o.emits += 1;
        self.check_customs(&e1, &mut o);
        fs.append(&mut o.findings);
        let live = (
            o.m.funcs.iter().count(),
            o.m.globals.iter().count(),
            o.m.tables.iter().count(),
            o.m.memories.iter().count(),
            o.m.data.iter().count(),
            o.m.elements.iter().count(),
            o.m.types.iter().count(),
            o.m.imports.iter().count(),
            o.m.exports.iter().count(),
        );
        let digest = wmodel::fnv(&e1) ^ wmodel::fnv(format!("{:?}", live).as_bytes()).rotate_left(17);
        if self.prop == "C08" {
            let e2 = o.m.emit_wasm();
            if e1 != e2 {
                fs.push(Finding {
                    sig: format!("emit-not-repeatable:{}", first_diff(&e1, &e2)),
                    detail: format!("two consecutive emit_wasm() calls on one Module returned {} and {} bytes", e1.len(), e2.len()),
                });
            }
            match self.cfg.config().parse(&e1) {
                Ok(mut m2) => {
                    let e3 = m2.emit_wasm();
                    if e3 != e1 {
                        fs.push(Finding {
                            sig: format!("not-a-fixpoint:{}", first_diff(&e1, &e3)),
                            detail: format!("emit(parse(emit(s))) differs from emit(s): {} vs {} bytes", e3.len(), e1.len()),
                        });
                    }
                }
                Err(e) => {
                    if wmodel::validate214(&e1, wmodel::FeatureSet::DEFAULT).is_ok() {
                        fs.push(Finding { sig: "own-output-rejected".into(), detail: format!("walrus rejects its own (valid) output: {:#}", e) })
                    }
                }
            }
        }
        (digest, fs)
    }
}

fn hist_of(cfg: &serde_json::Value) -> Vec<MOp> {
    cfg.get("history")
        .and_then(|h| h.as_array())
        .map(|a| {
            a.iter()
                .filter_map(|x| match x.as_str() {
                    Some("emit") => Some(MOp::Emit),
                    Some("gc") => Some(MOp::Gc),
                    Some("reparse") => Some(MOp::Reparse),
                    Some("emit-file") => Some(MOp::EmitFile),
                    Some("rewrap") => Some(MOp::Rewrap),
                    _ => None,
                })
                .collect()
        })
        .unwrap_or_default()
}
fn hist_json(h: &[MOp]) -> serde_json::Value {
    json!(h.iter().map(|o| match o { MOp::Emit => "emit", MOp::Gc => "gc", MOp::Reparse => "reparse", MOp::EmitFile => "emit-file", MOp::Rewrap => "rewrap" }).collect::<Vec<_>>())
}

pub struct CaseOut {
    pub stats: Stats,
    pub violations: Vec<Violation>,
    pub valid: bool,
    pub digest: u64,
}

fn subject<'a>(prop: &'static str, c: &'a Case) -> ModSubject<'a> {
    let input_customs = decode(&c.wasm).map(|m| m.uninterpreted_customs()).unwrap_or_default();
    ModSubject { prop, wasm: &c.wasm, cfg: Cfg::from_json(&c.cfg), input_customs }
}

pub fn explore_case(prop: &'static str, c: &Case, depth: usize) -> CaseOut {
    let mut out = CaseOut { stats: Stats::default(), violations: vec![], valid: false, digest: 0 };
    if wmodel::validate214(&c.wasm, wmodel::FeatureSet::DEFAULT).is_err() {
        return out;
    }
    if parse(&c.wasm, &Cfg::from_json(&c.cfg)).is_err() {
        return out;
    }
    out.valid = true;
    let s = subject(prop, c);
    let (st, found) = explore(&s, depth);
    out.stats = st;
    for f in found {
        // panics and rejected own output belong to C02; keep them visible as violations of this
        // property only when they are about this property's oracle
        if f.finding.sig.starts_with("panic:") || f.finding.sig == "fresh-failed" {
            continue;
        }
        let mut cc = c.clone();
        let mut cfg = c.cfg.clone();
        cfg["history"] = hist_json(&f.hist);
        cc.cfg = cfg;
        out.violations.push(Violation::new(prop, f.finding.sig, f.finding.detail, &cc));
    }
    // per-case digest for the cross-process comparison: the first emit
    if let Ok(b) = roundtrip(&c.wasm, &Cfg::from_json(&c.cfg), false) {
        out.digest = wmodel::fnv(&b);
    }
    out
}

/// re-execute one recorded history without the explorer
pub fn recheck(prop: &'static str, c: &Case) -> Vec<Violation> {
    if c.cfg.get("edits").is_some() {
        return crate::props::edits::recheck_as("C08", c);
    }
    let s = subject(prop, c);
    let h = hist_of(&c.cfg);
    let mut v = vec![];
    match replay(&s, &h) {
        Ok((_, fs)) => {
            for f in fs {
                v.push(Violation::new(prop, f.sig, f.detail, c));
            }
        }
        Err(f) => v.push(Violation::new(prop, f.sig, f.detail, c)),
    }
    v
}

pub fn run(prop: &'static str, args: &Args) -> i32 {
    let mut ev = Ev::new(prop);
    if let Some(p) = &args.replay {
        let (case, _) = match read_replay(p) {
            Ok(x) => x,
            Err(e) => {
                eprintln!("MACHINERY: {}", e);
                return 2;
            }
        };
        ev.evaluations = 1;
        let v = recheck(prop, &case);
        return finish(args, ev, v, &|c| recheck(prop, c));
    }
    let worker = std::env::var("WCHECK_WORKER").is_ok();
    let fams: &[&str] = if prop == "C08" { &["fixtures", "struct", "funcs", "locals", "names", "customs", "idshift", "ctrl", "reach", "leb", "minimal"] } else { &["customs", "fixtures"] };
    let depth = if args.tier == Tier::Quick { 4 } else { 6 };
    let ms = crate::props::families::members(fams, args, &mut ev);
    let mut cases: Vec<Case> = ms.iter().map(|m| Case::of(m).with(Cfg::default().json())).collect();
    if prop == "C12" {
        // the same members under the configurations that route custom sections through other code
        // paths (code-transform preservation, DWARF generation, name / producers generation off)
        for cfg in [
            Cfg { preserve_ct: true, ..Cfg::default() },
            Cfg { dwarf: true, ..Cfg::default() },
            Cfg { names: false, producers: false, ..Cfg::default() },
        ] {
            cases.extend(ms.iter().map(|m| Case::of(m).with(cfg.json())));
        }
    }
    let deadline = Instant::now() + Duration::from_secs_f64(args.budget_s);
    let (res, done) = pmap(&cases, args.threads, Some(deadline), |c| explore_case(prop, c, if worker { 0 } else { depth }));
    if worker {
        // worker mode: print one digest per case and exit
        for (i, r) in res.iter().enumerate() {
            if let Some(r) = r {
                println!("D {} {:016x}", i, r.digest);
            }
        }
        return 0;
    }
    if done < cases.len() {
        ev.cap_hit = true;
        ev.note(format!("wall cap hit: {} of {} cases", done, cases.len()));
    }
    let mut viol = vec![];
    let mut merged = 0;
    let mut digests = vec![];
    for (c, r) in cases.iter().zip(res.into_iter()) {
        let r = match r {
            Some(r) => r,
            None => {
                digests.push(None);
                continue;
            }
        };
        ev.evaluations += 1;
        digests.push(if r.valid { Some(r.digest) } else { None });
        if r.valid {
            ev.states += r.stats.states;
            ev.transitions += r.stats.transitions;
            ev.max_depth = ev.max_depth.max(r.stats.max_depth);
            merged += r.stats.merged;
            if r.stats.states > 1 {
                ev.nontrivial += 1;
            }
        }
        let f = ev.families.entry(c.family.clone()).or_insert(json!({"members": 0}));
        f["members"] = json!(f["members"].as_u64().unwrap_or(0) + 1);
        viol.extend(r.violations);
    }
    ev.extra.insert("states_merged_by_canonicalisation".into(), json!(merged));
    if prop == "C08" {
        // the same oracle on modules edited through the public API (named additions included)
        viol.extend(crate::props::edits::run_model_as("C08", args, &mut ev));
    }
    // determinism across processes (sampled by process count; labelled as such)
    if prop == "C08" {
        let nproc = if args.tier == Tier::Quick { 3 } else { 8 };
        let exe = std::env::current_exe().unwrap();
        let mut children = vec![];
        for _ in 0..nproc {
            let ch = std::process::Command::new(&exe)
                .args(["C08", "--tier", args.tier.s(), "--repo"])
                .arg(&args.repo)
                .arg("--verif")
                .arg(&args.verif)
                .env("WCHECK_WORKER", "1")
                .stdout(std::process::Stdio::piped())
                .stderr(std::process::Stdio::null())
                .spawn();
            match ch {
                Ok(c) => children.push(c),
                Err(e) => {
                    eprintln!("MACHINERY: cannot spawn worker: {}", e);
                    return 2;
                }
            }
        }
        let mut compared = 0u64;
        for (k, ch) in children.into_iter().enumerate() {
            let out = match ch.wait_with_output() {
                Ok(o) => o,
                Err(e) => {
                    eprintln!("MACHINERY: worker failed: {}", e);
                    return 2;
                }
            };
            for line in String::from_utf8_lossy(&out.stdout).lines() {
                let p: Vec<&str> = line.split_whitespace().collect();
                if p.len() == 3 && p[0] == "D" {
                    let i: usize = p[1].parse().unwrap_or(usize::MAX);
                    let d = u64::from_str_radix(p[2], 16).unwrap_or(0);
                    if let Some(Some(mine)) = digests.get(i) {
                        compared += 1;
                        if *mine != d {
                            viol.push(Violation::new(
                                prop,
                                "emit-differs-across-processes",
                                format!("process {} emitted different bytes for the same input (digest {:016x} vs {:016x})", k, d, mine),
                                &cases[i].clone().with(json!({"cross_process": true})),
                            ));
                        }
                    }
                }
            }
        }
        ev.extra.insert("cross_process".into(), json!({"processes": nproc + 1, "digests_compared": compared, "note": "per-process hash keys are sampled by the process count, not enumerated"}));
        ev.transitions += compared;
    }
    ev.rule = format!(
        "for every member of {:?}: breadth-first exploration of all histories over {{emit, gc, reparse}} up to depth {} on the real Module \
         (successors by replay, states de-duplicated on the bytes the next emit returns + live arena counts); the oracle runs in every state; \
         for C08 additionally every history of public-API edits of C02's edit model (named additions included) on its base modules. \
         non-trivial = member whose exploration reached more than one distinct state",
        fams, depth
    );
    ev.bounds = json!({"depth": depth, "families": fams});
    ev.assumptions = vec!["the canonical observation (next-emit bytes + live counts) determines all futures of a state".into()];
    if !cases.is_empty() {
        for i in [0, cases.len() / 2, cases.len() - 1] {
            ev.sample(json!({"family": cases[i].family, "coords": cases[i].coords, "histories": "all sequences over {emit,gc,reparse}", "depth": depth}));
        }
    }
    finish(args, ev, viol, &|c| {
        if c.cfg.get("cross_process").is_some() {
            // cannot be re-executed in-process; trust the recorded digests
            return vec![Violation::new(prop, "emit-differs-across-processes", "", c)];
        }
        recheck(prop, c)
    })
}
