//! C13: debug names stay attached to the same entities.

use crate::core::*;
use crate::pipe::*;
use crate::sweep::*;
use serde_json::json;
use std::collections::BTreeMap;
use wmodel::{decode, iso, IsoMode, Space};

pub fn check_case(c: &Case) -> CaseResult {
    let mut r = CaseResult::default();
    let do_gc = c.cfg.get("gc").and_then(|x| x.as_bool()).unwrap_or(false);
    if wmodel::validate214(&c.wasm, wmodel::FeatureSet::DEFAULT).is_err() {
        return r;
    }
    r.valid_input = true;
    let a = match decode(&c.wasm) {
        Ok(a) => a,
        Err(_) => return r,
    };
    if a.names.error.is_some() {
        r.note = Some(format!("input name section of {}:{} is malformed for the oracle's reader; skipped", c.family, c.coords));
        return r;
    }
    // with synthetic names on, walrus names what the input left unnamed (and treats empty local
    // names as absent): tolerated exactly there, everything the input did name is checked as usual
    let synth = c.cfg.get("synthetic").and_then(|x| x.as_bool()).unwrap_or(false);
    let out = match roundtrip(&c.wasm, &Cfg { synthetic: synth, ..Cfg::default() }, do_gc) {
        Ok(o) => o,
        Err(_) => return r,
    };
    r.transitions = if do_gc { 3 } else { 2 };
    r.digests.push(wmodel::fnv(&out));
    let b = match decode(&out) {
        Ok(b) => b,
        Err(_) => return r,
    };
    let maps = match iso(&a, &b, if do_gc { IsoMode::Gc } else { IsoMode::RoundTrip }) {
        Ok(m) => m,
        Err(e) => {
            r.note = Some(format!("C13: {}:{} skipped, input/output not isomorphic ({})", c.family, c.coords, e[0].sig));
            return r;
        }
    };
    r.nontrivial = a.names.present && maps.renumbered();
    if let Some(e) = &b.names.error {
        r.violations.push(Violation::new("C13", "output-name-section-malformed", e.clone(), c));
        return r;
    }
    let mut bad = |sig: String, d: String| r.violations.push(Violation::new("C13", sig, d, c));
    if a.names.duplicates.is_empty() && !b.names.duplicates.is_empty() {
        bad(
            format!("name-map-duplicate-or-unsorted:subsection-{}", b.names.duplicates[0].0),
            format!("the output name section lists indices twice or out of order (subsection id, index): {:?}", b.names.duplicates),
        );
    }
    if a.names.module != b.names.module && a.names.module.is_some() {
        bad("name-lost:module".into(), format!("{:?} -> {:?}", a.names.module, b.names.module));
    }
    let kinds: [(&str, Space, &BTreeMap<u32, String>, &BTreeMap<u32, String>); 6] = [
        ("function", Space::Func, &a.names.funcs, &b.names.funcs),
        ("table", Space::Table, &a.names.tables, &b.names.tables),
        ("memory", Space::Mem, &a.names.memories, &b.names.memories),
        ("global", Space::Global, &a.names.globals, &b.names.globals),
        ("element", Space::Elem, &a.names.elems, &b.names.elems),
        ("data", Space::Data, &a.names.datas, &b.names.datas),
    ];
    for (kind, sp, na, nb) in kinds {
        for (i, n) in na {
            if let Some(j) = maps.f(sp, *i) {
                match nb.get(&j) {
                    Some(n2) if n2 == n => {}
                    Some(n2) => bad(format!("name-changed:{}", kind), format!("{} {} (output {}) was named {:?}, now {:?}", kind, i, j, n, n2)),
                    None => bad(format!("name-lost:{}", kind), format!("{} {} (output {}) was named {:?}, now unnamed", kind, i, j, n)),
                }
            }
        }
        for (j, n2) in nb {
            match maps.r(sp, *j) {
                Some(i) => {
                    if na.get(&i) != Some(n2) && !(synth && na.get(&i).is_none()) {
                        bad(
                            format!("name-migrated:{}", kind),
                            format!("output {} {} is named {:?} but it is input {} {} whose name was {:?}", kind, j, n2, kind, i, na.get(&i)),
                        );
                    }
                }
                None => bad(format!("name-on-unknown:{}", kind), format!("output {} {} named {:?} corresponds to no input entity", kind, j, n2)),
            }
        }
    }
    // types: compared by signature (walrus may merge identical types)
    for (j, n2) in &b.names.types {
        let sj = b.sig(*j);
        let ok = a.names.types.iter().any(|(i, n)| n == n2 && a.sig(*i) == sj && sj.is_some());
        if !ok {
            bad("name-migrated:type".into(), format!("output type {} {:?} is named {:?}; no input type with that signature had this name", j, sj, n2));
        }
    }
    for (i, n) in &a.names.types {
        let si = a.sig(*i);
        let still: Vec<u32> = (0..b.types.len() as u32).filter(|j| b.sig(*j) == si && si.is_some()).collect();
        if !still.is_empty() && !still.iter().any(|j| b.names.types.contains_key(j)) {
            bad("name-lost:type".into(), format!("input type {} named {:?}: no output type with signature {:?} carries a name", i, n, si));
        }
    }
    // locals
    for ((fi, li), n) in &a.names.locals {
        if synth && n.is_empty() {
            continue;
        }
        let fj = match maps.f(Space::Func, *fi) {
            Some(j) => j,
            None => continue,
        };
        let nparams = a.func_sig(*fi).map(|s| s.params.len()).unwrap_or(0) as u32;
        let corr = maps.bodies.get(fi);
        let lj = if *li < nparams { Some(*li) } else { corr.and_then(|c| c.local_map.get(li).copied()) };
        let lj = match lj {
            Some(l) => l,
            None => continue, // unused local: not emitted, name may be dropped
        };
        match b.names.locals.get(&(fj, lj)) {
            Some(n2) if n2 == n => {}
            Some(n2) => bad("name-changed:local".into(), format!("local {} of function {} (output {}/{}) was {:?}, now {:?}", li, fi, fj, lj, n, n2)),
            None => bad(
                if *li < nparams { "name-lost:param".into() } else { "name-lost:local".into() },
                format!("local {} of function {} (output {}/{}) was named {:?}, now unnamed", li, fi, fj, lj, n),
            ),
        }
    }
    for ((fj, lj), n2) in &b.names.locals {
        let fi = match maps.r(Space::Func, *fj) {
            Some(i) => i,
            None => continue,
        };
        let nparams = a.func_sig(fi).map(|s| s.params.len()).unwrap_or(0) as u32;
        let li = if *lj < nparams { Some(*lj) } else { maps.bodies.get(&fi).and_then(|c| c.local_map.iter().find(|(_, v)| *v == lj).map(|(k, _)| *k)) };
        let was = li.and_then(|li| a.names.locals.get(&(fi, li)));
        if was != Some(n2) && !(synth && was.map(|w| w.is_empty()).unwrap_or(true)) {
            bad("name-migrated:local".into(), format!("output local {}/{} is named {:?}; it is input local {:?} of function {} whose name was {:?}", fj, lj, n2, li, fi, was));
        }
    }
    r
}

/// names across an edit: the export `which` of the all-names module is retargeted with
/// `replace_exported_func`; the original function (recognised by its `i32.const K; drop` prologue)
/// is still emitted and must still carry its input name, and the function behind the export now
/// must not carry a name that the input gave to another function
pub fn check_replace(c: &Case) -> CaseResult {
    let mut r = CaseResult::default();
    let which = c.cfg["replace_export"].as_str().unwrap_or("a").to_string();
    let with_gc = c.cfg["gc"].as_bool().unwrap_or(false);
    r.valid_input = true;
    let a = match wmodel::decode(&c.wasm) {
        Ok(a) => a,
        Err(_) => return r,
    };
    let out = std::panic::catch_unwind(std::panic::AssertUnwindSafe(|| -> Option<Vec<u8>> {
        let mut m = parse(&c.wasm, &Cfg::default()).ok()?;
        let fid = m.exports.get_func(&which).ok()?;
        m.replace_exported_func(fid, |(b, _)| {
            b.unreachable();
        })
        .ok()?;
        // keep the original reachable: export it under another name
        m.exports.add("kept-original", fid);
        if with_gc {
            walrus::passes::gc::run(&mut m);
        }
        Some(m.emit_wasm())
    }));
    let out = match out {
        Ok(Some(o)) => o,
        _ => return r, // panics and refusals are C02's / C18's
    };
    r.transitions = 4;
    r.nontrivial = true;
    r.digests.push(wmodel::fnv(&out));
    let b = match wmodel::decode(&out) {
        Ok(b) => b,
        Err(_) => return r,
    };
    let orig_idx = match a.exports.iter().find(|e| e.name == which) {
        Some(e) => e.index,
        None => return r,
    };
    let marker = wmodel::iso::func_marker(&a, orig_idx);
    let want = a.names.funcs.get(&orig_idx).cloned();
    let kept = b.exports.iter().find(|e| e.name == "kept-original").map(|e| e.index);
    let newf = b.exports.iter().find(|e| e.name == which).map(|e| e.index);
    if let (Some(k), Some(w)) = (kept, &want) {
        if marker.is_some() && wmodel::iso::func_marker(&b, k) == marker && b.names.funcs.get(&k) != Some(w) {
            r.violations.push(Violation::new("C13", "name-lost:function:after-replace-exported", format!("the function exported as {:?} was named {:?}; after replace_exported_func it is still emitted but named {:?}", which, w, b.names.funcs.get(&k)), c));
        }
    }
    if let Some(n) = newf {
        if let Some(g) = b.names.funcs.get(&n) {
            if a.names.funcs.values().any(|x| x == g) {
                r.violations.push(Violation::new("C13", "name-migrated:function:after-replace-exported", format!("the function newly built for export {:?} carries the input name {:?} of another function", which, g), c));
            }
        }
    }
    r
}

pub fn run(args: &Args) -> i32 {
    let mut ev = Ev::new("C13");
    if let Some(p) = &args.replay {
        let (case, _) = match read_replay(p) {
            Ok(x) => x,
            Err(e) => {
                eprintln!("MACHINERY: {}", e);
                return 2;
            }
        };
        ev.evaluations = 1;
        let v = recheck(&case);
        return finish(args, ev, v, &recheck);
    }
    let ms = crate::props::families::members(&["names", "locals-named", "fixtures"], args, &mut ev);
    let mut cases = vec![];
    for m in &ms {
        for gc in [false, true] {
            cases.push(Case::of(m).with(json!({"gc": gc})));
            if m.family != "fixtures" && (m.family == "locals-named" || m.coords.contains("mask=111111111") || m.coords.contains("sparse")) {
                cases.push(Case::of(m).with(json!({"gc": gc, "synthetic": true})));
            }
        }
    }
    ev.rule = "every subset of the 9 name subsections (x module shapes in the thorough tier) on modules whose functions are permuted by walrus's size sort, every declaration order of <= 3 named locals over 4 types x used subsets x 0-2 params, plus all fixtures, x {no pass, gc}: \
        the output name section is decoded with wasmparser 0.259 and every name is traced back to the input entity through the iso maps (forced by exports / markers, never by names). \
        plus names across an edit: each exported function of the all-names module retargeted with replace_exported_func (with and without gc), the original - recognised by its marker prologue - keeps its name and the new function takes none. \
        non-trivial = input has a name section and walrus renumbered something"
        .into();
    ev.bounds = json!({"tier": args.tier.s()});
    ev.assumptions = vec!["iso maps identify entities; tolerated: names of unused locals, label/field/tag subsections, merged types carrying one of their names".into()];
    let mut viol = run_sweep(args, &mut ev, &cases, &check_case);
    let mut rc = vec![];
    for shape in if args.tier == Tier::Quick { vec![0usize] } else { vec![0usize, 1, 2] } {
        for mask in [0x1ffu32, 0b000000010, 0b000000110] {
            for which in ["a", "b", "c"] {
                for gc in [false, true] {
                    rc.push(Case { family: "names-edit".into(), coords: format!("shape={} mask={:09b} replace_exported_func({}) gc={}", shape, mask, which, gc), wasm: wgen::families::build_names(shape, mask), cfg: json!({"replace_export": which, "gc": gc}) });
                }
            }
        }
    }
    viol.extend(run_sweep(args, &mut ev, &rc, &check_replace));
    finish(args, ev, viol, &recheck)
}

fn recheck(c: &Case) -> Vec<Violation> {
    if c.cfg.get("replace_export").is_some() {
        return check_replace(c).violations;
    }
    check_case(c).violations
}
