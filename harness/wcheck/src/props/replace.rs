//! C18: function replacement edits rewire exactly one thing.  The expected module is written
//! independently (WAT text with the replacement spliced in by name); the module walrus
//! produces must be isomorphic to it and behave identically in V8.

use crate::core::*;
use crate::pipe::*;
use crate::props::bisim::{diff_sig, run_node, spec_of, Job};
use serde_json::json;
use walrus::*;
use wmodel::{decode, iso, IsoMode};

#[derive(Clone, Debug)]
pub struct Variant {
    pub with_start: bool,
    pub reexport: bool,
    pub double_export: bool,
    pub two_imports: bool,
    /// a second import with the *same* module/field names as `a` but another signature:
    /// 0 = none, 1 = placed before `a`, 2 = placed after `a`
    pub dup_names: u8,
    /// `$loc` is the target of a `ref.func` in some body and is declared for that only by being
    /// exported (it is not listed in the element segment)
    pub ref_func_loc: bool,
    /// the module already holds a declared element segment, written in the expression form
    pub declared_expr_segment: bool,
    /// the start function is a local function `$init` that is also exported as `s_exp`
    pub local_start: bool,
    /// a second memory (bodies that copy between memories; V8 in node 20 cannot run these, the structural comparison can)
    pub two_mem: bool,
}

#[derive(Clone, Copy, Debug, PartialEq, Eq)]
pub enum Target {
    ImportA,
    ImportB,
    ImportS,
    ExportLoc,
    /// the export `s_exp` of the start function: only the export is retargeted, the start section
    /// keeps running the original
    ExportStart,
}

/// "scratch": the new body keeps an intermediate value in a local of its own, which has to be
/// created before the replace call (the closure only gets the body builder), so its id is smaller
/// than the ids of the argument locals the call creates
/// "bulk": the new body uses memory.init / data.drop on the module's (active) data segment, which
/// the input - and its lack of a data-count section - did not
/// "loop": the new body iterates; the loop is put in front of an instruction that is already there
/// with the positional `loop_at`, and its back edge is a `br_if` to the loop itself
/// "param-block": the new body passes a value into a block whose type (one parameter, one result)
/// is made with `InstrSeqType::new`
/// "mem-copy": the new body copies from the first memory to the second (positional builder method)
pub const BODIES: [&str; 10] = ["const", "arg", "call-other", "global", "unreachable", "scratch", "bulk", "loop", "param-block", "mem-copy"];

/// WAT of the module. `replaced`: None = original; Some((target, body, which_export)) = expected
fn wat(v: &Variant, replaced: Option<(Target, usize, usize)>) -> String {
    let body_t = |b: usize, other: &str| -> String {
        match b {
            0 => "(i32.const 77)".into(),
            1 => "(local.get 0)".into(),
            2 => format!("(call ${} (local.get 0))", other),
            3 => "(global.set $g (local.get 0)) (global.get $g)".into(),
            5 => "(local i32) (local.set 1 (i32.add (local.get 0) (i32.const 1))) (i32.add (local.get 1) (local.get 0))".into(),
            8 => "(local.get 0) (block (param i32) (result i32) (i32.const 1) (i32.add))".into(),
            9 => "(memory.copy 1 0 (i32.const 0) (i32.const 8) (i32.const 4)) (local.get 0)".into(),
            6 => "(memory.init $d (i32.const 8) (i32.const 0) (i32.const 0)) (data.drop $d) (local.get 0)".into(),
            7 => "(loop $l (local.set 0 (i32.shr_u (local.get 0) (i32.const 1))) (br_if $l (local.get 0))) (local.get 0)".into(),
            _ => "(unreachable)".into(),
        }
    };
    let body_s = |b: usize| -> String {
        match b {
            0 | 1 => "".into(),
            2 => "(drop (call $a (i32.const 1)))".into(),
            3 => "(global.set $g (i32.const 5))".into(),
            5 => "(local i32) (local.set 0 (i32.const 3)) (global.set $g (local.get 0))".into(),
            8 => "(i32.const 3) (block (param i32) (result i32) (i32.const 1) (i32.add)) (global.set $g)".into(),
            9 => "(memory.copy 1 0 (i32.const 0) (i32.const 8) (i32.const 4))".into(),
            6 => "(data.drop $d)".into(),
            7 => "(loop $l (global.set $g (i32.shr_u (global.get $g) (i32.const 1))) (br_if $l (global.get $g)))".into(),
            _ => "(unreachable)".into(),
        }
    };
    let rep_a = matches!(replaced, Some((Target::ImportA, _, _)));
    let rep_b = matches!(replaced, Some((Target::ImportB, _, _)));
    let rep_s = matches!(replaced, Some((Target::ImportS, _, _)));
    let rb = replaced.map(|r| r.1).unwrap_or(0);
    let mut s = String::from("(module\n  (type $t (func (param i32) (result i32)))\n  (type $v (func))\n  (type $t64 (func (param i64) (result i64)))\n");
    if v.dup_names == 1 {
        s += "  (import \"env\" \"a\" (func $dup (type $t64)))\n";
    }
    if !rep_a {
        s += "  (import \"env\" \"a\" (func $a (type $t)))\n";
    }
    if v.dup_names == 2 {
        s += "  (import \"env\" \"a\" (func $dup (type $t64)))\n";
    }
    if v.two_imports && !rep_b {
        s += "  (import \"env\" \"b\" (func $b (type $t)))\n";
    }
    if v.with_start && !rep_s {
        s += "  (import \"env\" \"s\" (func $s (type $v)))\n";
    }
    s += "  (import \"env\" \"mg\" (global $g (mut i32)))\n";
    s += "  (table (export \"tab\") 4 funcref)\n";
    s += "  (memory (export \"mem\") 1)\n";
    if v.two_mem {
        s += "  (memory (export \"mem1\") 1)\n";
    }
    s += "  (data $d (i32.const 0) \"hello\")\n";
    let other_for_a = if v.two_imports { "b" } else { "loc" };
    if rep_a {
        s += &format!("  (func $a (type $t) {})\n", body_t(rb, other_for_a));
    }
    if v.two_imports && rep_b {
        s += &format!("  (func $b (type $t) {})\n", body_t(rb, "a"));
    }
    if v.with_start && rep_s {
        s += &format!("  (func $s (type $v) {})\n", body_s(rb));
    }
    s += "  (func $loc (type $t) (i32.add (local.get 0) (i32.const 100)))\n";
    if v.declared_expr_segment {
        s += "  (func $h (type $v))\n  (elem declare funcref (ref.func $h))\n  (func (export \"rh\") (result i32) (ref.is_null (ref.func $h)))\n";
    }
    if v.ref_func_loc {
        s += &format!("  (elem (i32.const 0) $a {} $a)\n", if v.two_imports { "$b" } else { "$a" });
        s += "  (func (export \"rf\") (result i32) (ref.is_null (ref.func $loc)))\n";
    } else {
        s += &format!("  (elem (i32.const 0) $a {} $loc)\n", if v.two_imports { "$b" } else { "$loc" });
    }
    s += "  (func (export \"direct_a\") (param i32) (result i32) (call $a (local.get 0)))\n";
    if v.two_imports {
        s += "  (func (export \"direct_b\") (param i32) (result i32) (call $b (i32.add (local.get 0) (i32.const 1))))\n";
    }
    s += "  (func (export \"indirect\") (param i32 i32) (result i32) (call_indirect (type $t) (local.get 1) (i32.and (local.get 0) (i32.const 3))))\n";
    s += "  (func (export \"inner\") (param i32) (result i32) (call $loc (local.get 0)))\n";
    if v.dup_names != 0 {
        s += "  (func (export \"direct_dup\") (param i64) (result i64) (call $dup (local.get 0)))\n";
    }
    s += "  (func (export \"getg\") (result i32) (global.get $g))\n";
    // exports of $loc: possibly retargeted
    let (l1, l2) = match replaced {
        Some((Target::ExportLoc, _, 0)) => ("$repl", "$loc"),
        Some((Target::ExportLoc, _, _)) => ("$loc", "$repl"),
        _ => ("$loc", "$loc"),
    };
    if let Some((Target::ExportLoc, b, _)) = replaced {
        s += &format!("  (func $repl (type $t) {})\n", body_t(b, "a"));
    }
    s += &format!("  (export \"loc\" (func {}))\n", l1);
    if v.double_export {
        s += &format!("  (export \"loc2\" (func {}))\n", l2);
    }
    if v.ref_func_loc && !v.double_export && matches!(replaced, Some((Target::ExportLoc, _, _))) {
        // $loc lost the export that declared it for ref.func: any correct result declares it some other way
        s += "  (elem declare func $loc)\n";
    }
    if v.reexport {
        s += "  (export \"re_a\" (func $a))\n";
    }
    if v.with_start {
        s += "  (start $s)\n";
    }
    if v.local_start {
        s += "  (func $init (type $v) (global.set $g (i32.const 11)))\n";
        if let Some((Target::ExportStart, b, _)) = replaced {
            s += &format!("  (func $repl (type $v) {})\n  (export \"s_exp\" (func $repl))\n", body_s(b));
        } else {
            s += "  (export \"s_exp\" (func $init))\n";
        }
        s += "  (start $init)\n";
    }
    s += ")\n";
    s
}

fn assemble(src: &str) -> Result<Vec<u8>, String> {
    // wat lives in wgen's dependency tree; re-exported helper
    wgen::stateful::assemble(src)
}

/// perform the edit with the real walrus API
fn edit(orig: &[u8], v: &Variant, target: Target, body: usize) -> Result<Vec<u8>, Fail> {
    let mut m = parse(orig, &Cfg::default())?;
    let r = std::panic::catch_unwind(std::panic::AssertUnwindSafe(|| -> Result<Vec<u8>, String> {
        let g = m.globals.iter().next().map(|g| g.id()).ok_or("no global")?;
        // the import `env.a` of type (i32)->i32 (a second import may share its names)
        let fa = m
            .imports
            .iter()
            .filter(|i| i.module == "env" && i.name == "a")
            .filter_map(|i| match i.kind {
                ImportKind::Function(f) => Some(f),
                _ => None,
            })
            .find(|f| m.types.get(m.funcs.get(*f).ty()).params() == [ValType::I32])
            .ok_or("no import env.a")?;
        let fb = m.imports.get_func("env", "b").ok();
        let floc = m.exports.get_func("loc").map_err(|e| e.to_string())?;
        let scratch = if body == 5 { Some(m.locals.add(ValType::I32)) } else { None };
        let pblock = walrus::ir::InstrSeqType::new(&mut m.types, &[ValType::I32], &[ValType::I32]);
        let mem = m.memories.iter().next().map(|x| x.id()).ok_or("no memory")?;
        let mem1 = m.memories.iter().nth(1).map(|x| x.id()).unwrap_or(mem);
        let dat = m.data.iter().next().map(|x| x.id()).ok_or("no data")?;
        match target {
            Target::ImportA | Target::ImportB => {
                let (fid, other) = if target == Target::ImportA { (fa, if v.two_imports { fb.unwrap() } else { floc }) } else { (fb.ok_or("no b")?, fa) };
                m.replace_imported_func(fid, |(b, args)| match body {
                    0 => {
                        b.i32_const(77);
                    }
                    1 => {
                        b.local_get(args[0]);
                    }
                    2 => {
                        b.local_get(args[0]).call(other);
                    }
                    3 => {
                        b.local_get(args[0]).global_set(g).global_get(g);
                    }
                    5 => {
                        let s = scratch.unwrap();
                        b.local_get(args[0]).i32_const(1).binop(walrus::ir::BinaryOp::I32Add).local_set(s).local_get(s).local_get(args[0]).binop(walrus::ir::BinaryOp::I32Add);
                    }
                    6 => {
                        b.i32_const(8).i32_const(0).i32_const(0).memory_init(mem, dat).data_drop(dat).local_get(args[0]);
                    }
                    7 => {
                        let a = args[0];
                        b.local_get(a);
                        b.loop_at(0, None, |l| {
                            let me = l.id();
                            l.local_get(a).i32_const(1).binop(walrus::ir::BinaryOp::I32ShrU).local_set(a).local_get(a).br_if(me);
                        });
                    }
                    8 => {
                        b.local_get(args[0]).block(pblock, |blk| {
                            blk.i32_const(1).binop(walrus::ir::BinaryOp::I32Add);
                        });
                    }
                    9 => {
                        // builder order: (src, dst)
                        b.i32_const(0).i32_const(8).i32_const(4).memory_copy(mem, mem1).local_get(args[0]);
                    }
                    _ => {
                        b.unreachable();
                    }
                })
                .map_err(|e| e.to_string())?;
            }
            Target::ImportS | Target::ExportStart => {
                let fill = |b: &mut walrus::InstrSeqBuilder| match body {
                    0 | 1 => {}
                    2 => {
                        b.i32_const(1).call(fa).drop();
                    }
                    3 => {
                        b.i32_const(5).global_set(g);
                    }
                    5 => {
                        let s = scratch.unwrap();
                        b.i32_const(3).local_set(s).local_get(s).global_set(g);
                    }
                    6 => {
                        b.data_drop(dat);
                    }
                    7 => {
                        b.loop_at(0, None, |l| {
                            let me = l.id();
                            l.global_get(g).i32_const(1).binop(walrus::ir::BinaryOp::I32ShrU).global_set(g).global_get(g).br_if(me);
                        });
                    }
                    8 => {
                        b.i32_const(3).block(pblock, |blk| {
                            blk.i32_const(1).binop(walrus::ir::BinaryOp::I32Add);
                        }).global_set(g);
                    }
                    9 => {
                        b.i32_const(0).i32_const(8).i32_const(4).memory_copy(mem, mem1);
                    }
                    _ => {
                        b.unreachable();
                    }
                };
                if target == Target::ImportS {
                    let fs = m.imports.get_func("env", "s").map_err(|e| e.to_string())?;
                    m.replace_imported_func(fs, |(b, _)| fill(b)).map_err(|e| e.to_string())?;
                } else {
                    let fs = m.exports.get_func("s_exp").map_err(|e| e.to_string())?;
                    m.replace_exported_func(fs, |(b, _)| fill(b)).map_err(|e| e.to_string())?;
                }
            }
            Target::ExportLoc => {
                m.replace_exported_func(floc, |(b, args)| match body {
                    0 => {
                        b.i32_const(77);
                    }
                    1 => {
                        b.local_get(args[0]);
                    }
                    2 => {
                        b.local_get(args[0]).call(fa);
                    }
                    3 => {
                        b.local_get(args[0]).global_set(g).global_get(g);
                    }
                    5 => {
                        let s = scratch.unwrap();
                        b.local_get(args[0]).i32_const(1).binop(walrus::ir::BinaryOp::I32Add).local_set(s).local_get(s).local_get(args[0]).binop(walrus::ir::BinaryOp::I32Add);
                    }
                    6 => {
                        b.i32_const(8).i32_const(0).i32_const(0).memory_init(mem, dat).data_drop(dat).local_get(args[0]);
                    }
                    7 => {
                        let a = args[0];
                        b.local_get(a);
                        b.loop_at(0, None, |l| {
                            let me = l.id();
                            l.local_get(a).i32_const(1).binop(walrus::ir::BinaryOp::I32ShrU).local_set(a).local_get(a).br_if(me);
                        });
                    }
                    8 => {
                        b.local_get(args[0]).block(pblock, |blk| {
                            blk.i32_const(1).binop(walrus::ir::BinaryOp::I32Add);
                        });
                    }
                    9 => {
                        // builder order: (src, dst)
                        b.i32_const(0).i32_const(8).i32_const(4).memory_copy(mem, mem1).local_get(args[0]);
                    }
                    _ => {
                        b.unreachable();
                    }
                })
                .map_err(|e| e.to_string())?;
            }
        }
        Ok(m.emit_wasm())
    }));
    match r {
        Ok(Ok(b)) => Ok(b),
        Ok(Err(e)) => Err(Fail::Rejected(e)),
        Err(p) => Err(Fail::Panic { stage: "edit", msg: panic_msg(p) }),
    }
}

pub struct Planned {
    pub case: Case,
    pub orig: Vec<u8>,
    pub expected: Vec<Vec<u8>>,
    pub variant: Variant,
    pub target: Target,
    pub body: usize,
}

fn target_of(s: &str) -> Target {
    match s {
        "ImportA" => Target::ImportA,
        "ImportB" => Target::ImportB,
        "ImportS" => Target::ImportS,
        "ExportStart" => Target::ExportStart,
        _ => Target::ExportLoc,
    }
}

pub fn plan_one(v: &Variant, t: Target, body: usize) -> Result<Planned, String> {
    let orig = assemble(&wat(v, None))?;
    let mut expected = vec![assemble(&wat(v, Some((t, body, 0))))?];
    if t == Target::ExportLoc && v.double_export {
        expected.push(assemble(&wat(v, Some((t, body, 1))))?);
    }
    let cfg = json!({"with_start": v.with_start, "reexport": v.reexport, "double_export": v.double_export, "two_imports": v.two_imports, "dup_names": v.dup_names, "ref_func_loc": v.ref_func_loc, "declared_expr_segment": v.declared_expr_segment, "local_start": v.local_start, "two_mem": v.two_mem, "target": format!("{:?}", t), "body": body});
    Ok(Planned {
        case: Case { family: "replace".into(), coords: format!("{:?} {:?} body={}", v, t, BODIES[body]), wasm: orig.clone(), cfg },
        orig,
        expected,
        variant: v.clone(),
        target: t,
        body,
    })
}

pub fn plan() -> Vec<Planned> {
    let mut out = vec![];
    for bits in 0..144u32 {
        // the third block of 48: ref_func_loc together with an expression-form declared segment
        let v = Variant { with_start: bits & 1 != 0, reexport: bits & 2 != 0, double_export: bits & 4 != 0, two_imports: bits & 8 != 0, dup_names: ((bits / 16) % 3) as u8, ref_func_loc: bits >= 48, declared_expr_segment: bits >= 96, local_start: false, two_mem: false };
        if bits >= 96 && (v.dup_names != 0 || v.reexport) {
            continue;
        }
        let mut targets = vec![Target::ImportA, Target::ExportLoc];
        if v.two_imports {
            targets.push(Target::ImportB);
        }
        if v.with_start {
            targets.push(Target::ImportS);
        }
        for t in targets {
            for body in 0..9 {
                if (t == Target::ImportS || t == Target::ExportStart) && body == 1 {
                    continue;
                }
                match plan_one(&v, t, body) {
                    Ok(p) => out.push(p),
                    Err(e) => panic!("C18 generator: {}", e),
                }
            }
        }
    }
    // a local start function that is also exported: replacing that export, or anything else, leaves the start section alone
    for bits in 0..4u32 {
        let v = Variant { with_start: false, reexport: bits & 1 != 0, double_export: bits & 2 != 0, two_imports: false, dup_names: 0, ref_func_loc: false, declared_expr_segment: false, local_start: true, two_mem: false };
        for t in [Target::ExportStart, Target::ExportLoc, Target::ImportA] {
            for body in 0..9 {
                if t == Target::ExportStart && body == 1 {
                    continue;
                }
                match plan_one(&v, t, body) {
                    Ok(p) => out.push(p),
                    Err(e) => panic!("C18 generator: {}", e),
                }
            }
        }
    }
    // two memories: replacement bodies that copy from one to the other
    for bits in 0..2u32 {
        let v = Variant { with_start: bits & 1 != 0, reexport: false, double_export: false, two_imports: false, dup_names: 0, ref_func_loc: false, declared_expr_segment: false, local_start: false, two_mem: true };
        let mut targets = vec![Target::ImportA, Target::ExportLoc];
        if v.with_start {
            targets.push(Target::ImportS);
        }
        for t in targets {
            for body in [0usize, 9] {
                match plan_one(&v, t, body) {
                    Ok(p) => out.push(p),
                    Err(e) => panic!("C18 generator: {}", e),
                }
            }
        }
    }
    out
}

/// structural part; returns the edited bytes when they exist
pub fn check_struct(p: &Planned) -> (Vec<Violation>, Option<Vec<u8>>) {
    let mut v = vec![];
    let edited = match edit(&p.orig, &p.variant, p.target, p.body) {
        Ok(b) => b,
        Err(f) => {
            v.push(Violation::new("C18", format!("replace-{}", f.signature()), f.detail(), &p.case));
            return (v, None);
        }
    };
    if let Err(e) = wmodel::validate214(&edited, wmodel::FeatureSet::DEFAULT) {
        v.push(Violation::new("C18", format!("replace-invalid-output:{}", crate::props::validity::norm_verr(&e)), e, &p.case));
        return (v, None);
    }
    let b = match decode(&edited) {
        Ok(b) => b,
        Err(_) => return (v, None),
    };
    let mut errs = vec![];
    let mut ok = false;
    for e in &p.expected {
        let a = decode(e).unwrap();
        match iso(&a, &b, IsoMode::RoundTrip) {
            Ok(maps) => {
                ok = true;
                // names: every function of the expected module except the freshly built `$repl` keeps
                // its name (the original function and a replaced import keep their identifiers, and with
                // them their names); the new function must not have taken the name of another one
                for (fi, name) in &a.names.funcs {
                    let fj = match maps.f(wmodel::Space::Func, *fi) {
                        Some(j) => j,
                        None => continue,
                    };
                    let got = b.names.funcs.get(&fj);
                    if name == "repl" {
                        if let Some(g) = got {
                            if a.names.funcs.values().any(|n| n == g && n != "repl") {
                                v.push(Violation::new("C18", "replace-name-migrated", format!("the new function carries the name {:?}, which belongs to another function of the module", g), &p.case));
                            }
                        }
                    } else if got != Some(name) {
                        v.push(Violation::new("C18", "replace-name-lost", format!("function {:?} is still there after the edit but is now named {:?}", name, got), &p.case));
                    }
                }
                break;
            }
            Err(ms) => errs.push(ms),
        }
    }
    if !ok {
        let m = &errs[0][0];
        v.push(Violation::new("C18", format!("replace-structure:{:?}:{}", p.target, m.sig), format!("the edited module is not the original with exactly this replacement: {}", m.detail), &p.case));
    }
    (v, Some(edited))
}

fn replan(c: &Case) -> Option<Planned> {
    let v = Variant {
        with_start: c.cfg["with_start"].as_bool()?,
        reexport: c.cfg["reexport"].as_bool()?,
        double_export: c.cfg["double_export"].as_bool()?,
        two_imports: c.cfg["two_imports"].as_bool()?,
        dup_names: c.cfg["dup_names"].as_u64().unwrap_or(0) as u8,
        ref_func_loc: c.cfg["ref_func_loc"].as_bool().unwrap_or(false),
        declared_expr_segment: c.cfg["declared_expr_segment"].as_bool().unwrap_or(false),
        local_start: c.cfg["local_start"].as_bool().unwrap_or(false),
        two_mem: c.cfg["two_mem"].as_bool().unwrap_or(false),
    };
    plan_one(&v, target_of(c.cfg["target"].as_str()?), c.cfg["body"].as_u64()? as usize).ok()
}

fn run_behaviour(args: &Args, planned: &[Planned], edited: &[Option<Vec<u8>>], ev: &mut Ev, depth: usize) -> Vec<Violation> {
    let mut viol = vec![];
    if !crate::props::bisim::node_available() {
        ev.note("node not available: behavioural part of C18 skipped");
        ev.exhaustive = false;
        return viol;
    }
    let mut jobs = vec![];
    let mut owner = vec![];
    for (i, (p, e)) in planned.iter().zip(edited.iter()).enumerate() {
        let e = match e {
            Some(e) => e,
            None => continue,
        };
        for exp in &p.expected {
            let a = decode(exp).unwrap();
            let mut spec = spec_of(&a);
            spec["mode"] = json!("bfs");
            spec["depth"] = json!(depth);
            spec["full_values"] = json!(false);
            spec["max_transitions"] = json!(4000);
            jobs.push(Job { id: 0, spec, a: exp.clone(), b: e.clone() });
            owner.push(i);
        }
    }
    let res = match run_node(args, "C18", &jobs) {
        Ok(r) => r,
        Err(e) => {
            ev.note(format!("bisim engine failure: {}", e));
            ev.exhaustive = false;
            return viol;
        }
    };
    // a case passes if any of its expected modules matches
    let mut by_case: std::collections::BTreeMap<usize, Vec<&crate::props::bisim::NodeResult>> = Default::default();
    for (k, r) in res.iter().enumerate() {
        ev.states += r.states;
        ev.transitions += r.transitions;
        by_case.entry(owner[k]).or_default().push(r);
    }
    for (i, rs) in by_case {
        if rs.iter().any(|r| r.verdict == "ok") {
            ev.nontrivial += 1;
            continue;
        }
        if let Some(r) = rs.iter().find(|r| r.verdict == "diff") {
            let mut c = planned[i].case.clone();
            c.cfg["bisim"] = json!(true);
            viol.push(Violation::new("C18", format!("replace-{}", diff_sig(&r.detail)), r.detail.clone(), &c));
        } else {
            ev.note(format!("C18 bisim machinery event on {}: {} {}", planned[i].case.coords, rs[0].verdict, rs[0].detail));
        }
    }
    viol
}

fn recheck(args: &Args, c: &Case) -> Vec<Violation> {
    let p = match replan(c) {
        Some(p) => p,
        None => return vec![],
    };
    let (mut v, e) = check_struct(&p);
    if c.cfg.get("bisim").is_some() {
        let mut ev = Ev::new("C18");
        let mut a2 = Args { id: "C18".into(), tier: args.tier, seed: 0, repo: args.repo.clone(), verif: args.verif.clone(), replay: None, threads: 1, budget_s: 60.0 };
        a2.threads = 1;
        v.extend(run_behaviour(&a2, std::slice::from_ref(&p), &[e], &mut ev, 2));
    }
    v
}

pub fn run(args: &Args) -> i32 {
    let mut ev = Ev::new("C18");
    if let Some(p) = &args.replay {
        let (case, _) = match read_replay(p) {
            Ok(x) => x,
            Err(e) => {
                eprintln!("MACHINERY: {}", e);
                return 2;
            }
        };
        ev.evaluations = 1;
        let v = recheck(args, &case);
        return finish(args, ev, v, &|c| recheck(args, c));
    }
    let planned = plan();
    let mut viol = vec![];
    let mut edited = vec![];
    for p in &planned {
        ev.evaluations += 1;
        ev.transitions += 3;
        let (v, e) = check_struct(p);
        viol.extend(v);
        edited.push(e);
    }
    ev.states += planned.len() as u64;
    let depth = if args.tier == Tier::Quick { 2 } else { 3 };
    viol.extend(run_behaviour(args, &planned, &edited, &mut ev, depth));
    ev.sample(json!({"case": planned[0].case.coords, "original_wat": wat(&planned[0].variant, None)}));
    ev.sample(json!({"case": planned[planned.len() - 1].case.coords}));
    ev.rule = format!(
        "all 48 module variants (start route, re-export, two exports of one function, one or two imports, a second import sharing the replaced import's module/field names placed before or after it; every import also reached by direct call and through an element segment + call_indirect) x \
         every imported / exported function x 5 replacement bodies = {} edits performed with replace_imported_func / replace_exported_func on the real Module. The expected module is written independently \
         as WAT with the replacement spliced in by name; the edited module must validate, be isomorphic to it (iso, RoundTrip) and behave identically in V8 (BFS over call sequences, depth {}). \
         non-trivial = edits whose behavioural comparison ran and agreed",
        planned.len(),
        depth
    );
    ev.bounds = json!({"variants": 48, "bodies": 5, "call_depth": depth});
    ev.assumptions = vec!["for a function exported twice, retargeting either export (exactly one) is accepted".into()];
    finish(args, ev, viol, &|c| recheck(args, c))
}
