//! C03 (bodies) and C04 (module-level structure): `wmodel::iso` between the input and the
//! bytes walrus emits for it.

use crate::core::*;
use crate::pipe::*;
use crate::sweep::*;
use serde_json::json;
use wmodel::{decode, iso, FeatureSet, IsoMode};

/// does this iso signature describe a function-body difference (C03) rather than a
/// module-level one (C04)?
pub fn is_body_sig(sig: &str) -> bool {
    const P: [&str; 16] = [
        "op-changed", "imm-changed", "imm-count-changed", "memarg-", "op-dropped", "op-inserted", "block-type-changed",
        "type-operand-changed", "local-", "locals-merged", "param-moved", "body-structure-changed", "retargeted", "merged",
        "index-out-of-range", "input-malformed",
    ];
    if !P.iter().any(|p| sig.starts_with(p)) {
        return false;
    }
    // entity-level signatures count as body differences only when raised inside an operator
    if sig.starts_with("retargeted") || sig.starts_with("merged") || sig.starts_with("index-out-of-range") {
        return sig.contains(":in-");
    }
    true
}

pub fn check_case(prop: &str, c: &Case) -> CaseResult {
    let mut r = CaseResult::default();
    let cfg = Cfg::from_json(&c.cfg);
    if wmodel::validate214(&c.wasm, FeatureSet::DEFAULT).is_err() {
        return r;
    }
    r.valid_input = true;
    r.transitions = 2;
    // C03 also follows the operands through a gc between parse and emit (entities are renumbered
    // around what the pass removed); module-level differences after gc are C06's
    let with_gc = c.cfg.get("gc").and_then(|x| x.as_bool()).unwrap_or(false);
    let out = match roundtrip(&c.wasm, &cfg, with_gc) {
        Ok(o) => o,
        Err(f) => {
            // acceptance and panics are judged by C05 / C02; here the case simply has no output -
            // except that for C03 a panic while emitting a module walrus accepted means that no
            // instruction of it survived the round trip
            if prop == "C03" {
                if let crate::pipe::Fail::Panic { stage, msg } = &f {
                    if *stage != "parse" {
                        r.violations.push(Violation::new(prop, format!("no-instruction-survives:{}-panic:{}", stage, crate::pipe::norm_panic(msg)), msg.clone(), c));
                        return r;
                    }
                }
            }
            r.note = Some(format!("{}: no output ({}) for {}:{}", prop, f.signature(), c.family, c.coords));
            return r;
        }
    };
    r.digests.push(wmodel::fnv(&out));
    let a = match decode(&c.wasm) {
        Ok(a) => a,
        Err(e) => {
            r.note = Some(format!("oracle cannot decode input {}:{}: {}", c.family, c.coords, e));
            return r;
        }
    };
    let b = match decode(&out) {
        Ok(b) => b,
        Err(e) => {
            // undecodable output is C02's finding; note it here
            r.note = Some(format!("oracle cannot decode output of {}:{}: {}", c.family, c.coords, e));
            return r;
        }
    };
    match iso(&a, &b, if with_gc { IsoMode::Gc } else { IsoMode::RoundTrip }) {
        Ok(maps) => {
            r.nontrivial = maps.renumbered() || maps.elided_ops > 0 || maps.inserted_else > 0 || out != c.wasm;
            if with_gc && prop == "C04" {
                // what the pass was asked to drop is the unused; a table / memory it keeps still is
                // initialised by every one of its active segments
                use wmodel::decode::{DataMode, ElemMode, Space};
                for (i, e) in a.elems.iter().enumerate() {
                    if let ElemMode::Active { table, .. } = &e.mode {
                        if maps.f(Space::Table, *table).is_some() && maps.f(Space::Elem, i as u32).is_none() {
                            r.violations.push(Violation::new(prop, "after-gc:active-segment-of-kept-table-dropped", format!("table {} survives gc, its active element segment {} does not", table, i), c));
                        }
                    }
                }
                for (i, d) in a.datas.iter().enumerate() {
                    if let DataMode::Active { memory, .. } = &d.mode {
                        if maps.f(Space::Mem, *memory).is_some() && maps.f(Space::Data, i as u32).is_none() {
                            r.violations.push(Violation::new(prop, "after-gc:active-segment-of-kept-memory-dropped", format!("memory {} survives gc, its active data segment {} does not", memory, i), c));
                        }
                    }
                }
            }
        }
        Err(ms) => {
            r.nontrivial = true;
            for m in ms {
                // in the operator census and the body family the module-level structure is a fixed
                // scaffold whose entities are only reachable through operator operands: an entity
                // mismatch there means an operand denotes the wrong entity, which is C03's business
                let scaffold = c.family == "opcensus" || c.family == "body";
                let body = is_body_sig(&m.sig) || scaffold;
                if with_gc && !(is_body_sig(&m.sig) || m.sig.starts_with("data-") || m.sig.starts_with("elem-")) {
                    continue;
                }
                let body = body || with_gc;
                if (prop == "C03") == body {
                    let sig = if with_gc {
                        format!("after-gc:{}", m.sig)
                    } else if scaffold && !is_body_sig(&m.sig) {
                        format!("operand-denotes-other-entity:{}", m.sig)
                    } else {
                        m.sig
                    };
                    r.violations.push(Violation::new(prop, sig, m.detail, c));
                }
            }
        }
    }
    r
}

pub fn run(prop: &'static str, args: &Args) -> i32 {
    let mut ev = Ev::new(prop);
    if let Some(p) = &args.replay {
        let (case, _) = match read_replay(p) {
            Ok(x) => x,
            Err(e) => {
                eprintln!("MACHINERY: {}", e);
                return 2;
            }
        };
        ev.evaluations = 1;
        let v = recheck(prop, &case);
        return finish(args, ev, v, &|c| recheck(prop, c));
    }
    let fams: &[&str] = if prop == "C03" { &["fixtures", "struct", "funcs", "locals", "names", "ctrl", "idshift", "leb", "reach", "minimal"] } else { &["fixtures", "struct", "funcs", "locals", "names", "customs", "reach", "leb", "idshift", "minimal"] };
    let ms = crate::props::families::members(fams, args, &mut ev);
    let mut cases: Vec<Case> = ms.iter().map(|m| Case::of(m).with(Cfg::default().json())).collect();
    if prop == "C04" {
        for m in ms.iter().filter(|m| ["reach", "minimal", "struct", "fixtures"].contains(&m.family)) {
            let mut j = Cfg::default().json();
            j["gc"] = json!(true);
            cases.push(Case::of(m).with(j));
        }
    }
    if prop == "C03" {
        for m in ms.iter().filter(|m| ["reach", "minimal", "struct", "funcs"].contains(&m.family)) {
            let mut j = Cfg::default().json();
            j["gc"] = json!(true);
            cases.push(Case::of(m).with(j));
        }
        cases.extend(crate::props::census::cases(args, &mut ev));
        cases.extend(crate::props::bodies::cases(args, &mut ev));
    }
    ev.rule = "every member of each listed family (complete enumeration inside the family's bound) is parsed and re-emitted by the real walrus; \
        input and output are decoded with wasmparser 0.259 and compared by isomorphism-up-to-renumbering (DESIGN 3.1). A member is non-trivial \
        when the reference validator accepts it and walrus changed something (renumbering, elision, re-encoding); distinct by input bytes+config"
        .into();
    ev.bounds = json!({"tier": args.tier.s(), "families": fams});
    ev.assumptions = vec![
        "wasmparser 0.259 decoder and the iso normaliser (wmodel) are the trusted base".into(),
        "validity is judged by stand-alone wasmparser 0.214 with the documented default feature set".into(),
    ];
    let mut viol = run_sweep(args, &mut ev, &cases, &|c| check_case(prop, c));
    if prop == "C04" {
        // the module as it reaches the disk: rewritten in place over an older, longer build it must be
        // the module that was emitted, with nothing of the old file left behind
        let fcases: Vec<Case> = ms.iter().filter(|m| ["minimal", "fixtures"].contains(&m.family)).map(|m| Case::of(m).with(json!({"via_file": true}))).collect();
        let verif = args.verif.clone();
        viol.extend(run_sweep(args, &mut ev, &fcases, &|c| {
            let mut r = CaseResult::default();
            if wmodel::validate214(&c.wasm, FeatureSet::DEFAULT).is_err() {
                return r;
            }
            r.valid_input = true;
            r.transitions = 1;
            if let Some(d) = crate::props::bisim::file_output_differs(&c.wasm, false, &verif) {
                r.violations.push(Violation::new("C04", "module-on-disk-is-not-the-emitted-module", d, c));
            }
            r
        }));
    }
    if prop == "C04" {
        // "nothing is added, dropped, duplicated or retargeted unless asked to": additions made
        // through the edit API must leave everything that was there before as it was
        viol.extend(crate::props::edits::run_model_as("C04", args, &mut ev));
        ev.rule.push_str(
            ". Plus explicit-state exploration of the edit model (props/edits.rs): in every state reached by additions only, the unedited output must embed in the edited output \
             (iso mode=embed: every old entity, export, segment and the start keep their structure and their targets) and exactly as many entities are new as the history added",
        );
    }
    finish(args, ev, viol, &|c| recheck(prop, c))
}

fn recheck(prop: &'static str, c: &Case) -> Vec<Violation> {
    if c.cfg.get("edits").is_some() {
        return crate::props::edits::recheck_as("C04", c);
    }
    if c.cfg.get("via_file").is_some() {
        return crate::props::bisim::file_output_differs(&c.wasm, false, std::path::Path::new("/verif")).into_iter().map(|d| Violation::new("C04", "module-on-disk-is-not-the-emitted-module", d, c)).collect();
    }
    check_case(prop, c).violations
}
