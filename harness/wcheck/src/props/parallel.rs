//! C09: parallel and serial builds agree under every schedule.  This side generates the inputs,
//! computes the serial results (this binary links walrus *without* `parallel`), writes the work
//! list and drives harness-par/wpar (walrus with `parallel` on the controlled rayon-core).

use crate::core::*;
use crate::pipe::*;
use serde_json::{json, Value};
use std::io::Write;
use std::process::{Command, Stdio};
use wgen::mb::*;

pub struct PCase {
    pub name: String,
    pub wasm: Vec<u8>,
    pub preserve_ct: bool,
    pub n_funcs: usize,
    /// run the gc pass between parse and emit
    pub gc: bool,
    /// parse with a non-injective `on_instr_loc` hook (offset mod 7): several instructions, in
    /// several functions, carry the same location id
    pub loc_mod: bool,
    /// names off, and after parsing two pairs of builder-made functions are added that share a `LocalId`
    /// (a parameter of one, a plain local of the other)
    pub shared_locals: bool,
}

/// n functions with the given sizes; `bad` = index of a function whose body is invalid;
/// `data` = add a passive data segment and a memory.init in the last function; `names` = name section
pub fn build(sizes: &[usize], bad: &[usize], data: bool, names: bool) -> Vec<u8> {
    build_x(sizes, bad, data, names, false)
}

/// as `build`; with `dead_last` the last function (the one that uses the data segment) is neither
/// exported nor called: the gc pass deletes it, and with it the only reason for a data-count section
pub fn build_x(sizes: &[usize], bad: &[usize], data: bool, names: bool, dead_last: bool) -> Vec<u8> {
    let mut mb = MB::default();
    let t1 = mb.ty(&[I32], &[I32]);
    if data {
        mb.mems.push(Lim::new(1, None));
        mb.datas.push(data_seg(0, 0, &i32_const(0), b"act"));
        mb.needs_data_count = true;
    }
    let n = sizes.len();
    let mut fn_names: Vec<(u32, String)> = vec![];
    for (i, sz) in sizes.iter().enumerate() {
        let mut code = cat(&[&i32_const(6000 + i as i32), &[DROP]]);
        for k in 0..*sz {
            code.extend_from_slice(&cat(&[&local_get(0), &i32_const(k as i32 + 1), &[0x6a], &local_set(0)]));
        }
        if i + 1 < n && !(dead_last && i + 2 == n) {
            code.extend_from_slice(&cat(&[&local_get(0), &call(i as u32 + 1), &local_set(0)]));
        }
        if data && i == n - 1 {
            // memory.init of an *active* segment: only the per-function scan can tell that the
            // data-count section is needed
            code.extend_from_slice(&cat(&[&i32_const(0), &i32_const(0), &i32_const(0), &[0xfc, 0x08, 0x00, 0x00]]));
        }
        if bad.contains(&i) {
            code.extend_from_slice(&[0x6a]); // i32.add on an empty stack: type error
        }
        code.extend_from_slice(&local_get(0));
        code.push(END);
        let f = mb.func(t1, vec![(1, I64)], code);
        if !(dead_last && i == n - 1) {
            mb.export(&format!("f{}", i), 0, f);
        }
        fn_names.push((f, format!("fun{}", i)));
    }
    if names {
        let e: Vec<(u32, &str)> = fn_names.iter().map(|(i, n)| (*i, n.as_str())).collect();
        mb.customs.push((12, "name".into(), name_section(&[(1, name_map(&e))])));
    }
    mb.build()
}

pub fn inputs(tier: Tier) -> Vec<PCase> {
    let mut v = vec![];
    // "twins": two functions with the same signature and byte-identical code of which only one
    // declares the local the code uses - the other is invalid, the module must be rejected
    for (k, (n, bad_at)) in [(2usize, 1usize), (3, 1), (3, 2), (4, 1), (4, 3)].iter().enumerate() {
        let mut mb = MB::default();
        let t0 = mb.ty(&[], &[]);
        for i in 0..*n {
            let code = cat(&[&local_get(0), &[DROP], &[END]]);
            let locals = if i == *bad_at { vec![] } else { vec![(1, I32)] };
            let f = mb.func(t0, locals, code);
            mb.export(&format!("f{}", i), 0, f);
        }
        v.push(PCase { name: format!("twin bodies #{}: n={} the one without the local declaration is #{}", k, n, bad_at), wasm: mb.build(), preserve_ct: false, n_funcs: *n, gc: false, loc_mod: false, shared_locals: false });
    }
    // bulk-memory instructions that only dead code holds (directly after a return, and inside a
    // construct that starts after it); no passive segment, so whether a data-count section is
    // needed is decided by scanning the function bodies
    for (k, src) in [
        r#"(module (memory 1) (data (i32.const 0) "a") (func (export "f") (i32.const 6100) (drop) (return) (block (data.drop 0))) (func (export "g") (i32.const 6101) (drop)))"#,
        r#"(module (memory 1) (data (i32.const 0) "a") (func (export "f") (i32.const 6102) (drop) (return) (data.drop 0)) (func (export "g") (i32.const 6103) (drop)))"#,
        r#"(module (memory 1) (data (i32.const 0) "a") (func (export "f") (i32.const 6104) (drop) (unreachable) (loop (memory.init 0 (i32.const 0) (i32.const 0) (i32.const 0)))) (func (export "g") (i32.const 6105) (drop)) (func (export "h") (i32.const 6106) (drop)))"#,
    ]
    .iter()
    .enumerate()
    {
        if let Ok(wasm) = wgen::stateful::assemble(src) {
            for gc in [false, true] {
                v.push(PCase { name: format!("data op only in dead code #{} gc={}", k, gc), wasm: wasm.clone(), preserve_ct: false, n_funcs: 2, gc, loc_mod: false, shared_locals: false });
            }
        }
    }
    // builder-made functions that share a LocalId (parameter here, plain local there), names off
    for n in if tier == Tier::Quick { vec![1usize] } else { vec![1usize, 2, 3] } {
        let inc: Vec<usize> = (1..=n).collect();
        v.push(PCase { name: format!("n={} + two pairs of built functions sharing a local, names off", n), wasm: build(&inc, &[], false, false), preserve_ct: false, n_funcs: n + 4, gc: false, loc_mod: false, shared_locals: true });
    }
    // one function body of more than 256 KiB (what a per-function stack or chunking heuristic would key on)
    v.push(PCase { name: "one function of about 300 KiB".into(), wasm: build(&[37_500], &[], false, false), preserve_ct: false, n_funcs: 1, gc: false, loc_mod: false, shared_locals: false });
    v.push(PCase { name: "two functions, the second about 300 KiB".into(), wasm: build(&[2, 37_500], &[], false, false), preserve_ct: false, n_funcs: 2, gc: false, loc_mod: false, shared_locals: false });
    // the code section's own size prefix at its LEB boundary: one or two functions whose entries
    // total 120..136 bytes, with the code-transform dump as the observer of every reported offset
    for n in [1usize, 2] {
        for s in 112..=134usize {
            v.push(PCase { name: format!("n={} body size {} (code section size around 127), preserve_ct", n, s), wasm: wgen::families::build_leb_full(n, 0, s, false, false, 0, 0), preserve_ct: true, n_funcs: n, gc: false, loc_mod: false, shared_locals: false });
        }
    }
    let maxn = if tier == Tier::Quick { 4 } else { 6 };
    for n in 1..=maxn {
        // equal sizes, increasing, decreasing (the size sort permutes), one tie
        let mut size_sets: Vec<Vec<usize>> = vec![vec![1; n], (1..=n).collect(), (1..=n).rev().collect()];
        if n >= 3 {
            let mut t: Vec<usize> = (1..=n).collect();
            t[1] = t[0];
            size_sets.push(t);
        }
        size_sets.dedup();
        for sizes in size_sets {
            v.push(PCase { name: format!("sizes={:?}", sizes), wasm: build(&sizes, &[], false, false), preserve_ct: false, n_funcs: n, gc: false, loc_mod: false, shared_locals: false });
        }
        let inc: Vec<usize> = (1..=n).collect();
        for b in 0..n {
            v.push(PCase { name: format!("n={} invalid body #{}", n, b), wasm: build(&inc, &[b], false, false), preserve_ct: false, n_funcs: n, gc: false, loc_mod: false, shared_locals: false });
        }
        if n >= 2 {
            v.push(PCase { name: format!("n={} invalid bodies #0 and #{}", n, n - 1), wasm: build(&inc, &[0, n - 1], false, false), preserve_ct: false, n_funcs: n, gc: false, loc_mod: false, shared_locals: false });
        }
        v.push(PCase { name: format!("n={} data+memory.init", n), wasm: build(&inc, &[], true, false), preserve_ct: false, n_funcs: n, gc: false, loc_mod: false, shared_locals: false });
        // the same pipelines with a gc between parse and emit (functions deleted before the parallel emit)
        v.push(PCase { name: format!("n={} gc", n), wasm: build(&inc, &[], false, false), preserve_ct: false, n_funcs: n, gc: true, loc_mod: false, shared_locals: false });
        if n >= 2 {
            v.push(PCase { name: format!("n={} data+memory.init only in a dead function, gc", n), wasm: build_x(&inc, &[], true, false, true), preserve_ct: false, n_funcs: n, gc: true, loc_mod: false, shared_locals: false });
            v.push(PCase { name: format!("n={} data+memory.init only in a dead function, no gc", n), wasm: build_x(&inc, &[], true, false, true), preserve_ct: false, n_funcs: n, gc: false, loc_mod: false, shared_locals: false });
        }
        v.push(PCase { name: format!("n={} names+preserve_ct", n), wasm: build(&inc, &[], false, true), preserve_ct: true, n_funcs: n, gc: false, loc_mod: false, shared_locals: false });
        // several functions share location ids (a hook mapping offsets to a handful of source lines): whose offset a shared id ends up with is decided by function order
        v.push(PCase { name: format!("n={} preserve_ct, location ids = offset mod 7", n), wasm: build(&inc, &[], false, false), preserve_ct: true, n_funcs: n, gc: false, loc_mod: true, shared_locals: false });
        let dec: Vec<usize> = inc.iter().rev().cloned().collect();
        v.push(PCase { name: format!("n={} preserve_ct, location ids = offset mod 7, sizes decreasing", n), wasm: build(&dec, &[], false, false), preserve_ct: true, n_funcs: n, gc: false, loc_mod: true, shared_locals: false });
    }
    v
}


/// a consumer of the code transform: its payload is the transform itself (code section start, every
/// function range, every (input location, output offset) pair), so the emitted bytes depend on it
#[derive(Debug, Default)]
pub struct CtDump(pub Vec<u8>);
impl walrus::CustomSection for CtDump {
    fn name(&self) -> &str {
        "ct-dump"
    }
    fn data(&self, _: &walrus::IdsToIndices) -> std::borrow::Cow<'_, [u8]> {
        std::borrow::Cow::Borrowed(&self.0)
    }
    fn apply_code_transform(&mut self, t: &walrus::CodeTransform) {
        let mut v = vec![];
        v.extend_from_slice(&(t.code_section_start as u32).to_le_bytes());
        for (id, r) in &t.function_ranges {
            v.extend_from_slice(&(id.index() as u32).to_le_bytes());
            v.extend_from_slice(&(r.start as u32).to_le_bytes());
            v.extend_from_slice(&(r.end as u32).to_le_bytes());
        }
        for (loc, off) in &t.instruction_map {
            v.extend_from_slice(&loc.data().to_le_bytes());
            v.extend_from_slice(&(*off as u32).to_le_bytes());
        }
        self.0 = v;
    }
}


/// two pairs of builder-made functions that share a `LocalId`: a parameter of the first, a plain
/// local of the second (module-level locals can be used that way); each pair is adjacent in the
/// size order walrus emits functions in, the parameter user first
fn add_functions_sharing_locals(m: &mut walrus::Module) {
    use walrus::{FunctionBuilder, ValType};
    for (k, pairs) in [6i32, 2].iter().enumerate() {
        let l = m.locals.add(ValType::I32);
        let mut b1 = FunctionBuilder::new(&mut m.types, &[ValType::I32], &[ValType::I32]);
        {
            let mut body = b1.func_body();
            for j in 0..*pairs {
                body.i32_const(9000 + j).drop();
            }
            body.local_get(l);
        }
        let f1 = b1.finish(vec![l], &mut m.funcs);
        let mut b2 = FunctionBuilder::new(&mut m.types, &[], &[ValType::I32]);
        {
            let mut body = b2.func_body();
            for j in 0..(*pairs - 2) {
                body.i32_const(9100 + j).drop();
            }
            body.i32_const(5).local_set(l).local_get(l);
        }
        let f2 = b2.finish(vec![], &mut m.funcs);
        m.exports.add(&format!("shared_param_{}", k), f1);
        m.exports.add(&format!("shared_local_{}", k), f2);
    }
}

fn serial(c: &PCase) -> Result<Vec<u8>, ()> {
    let mut cfg = Cfg { preserve_ct: c.preserve_ct, ..Cfg::default() };
    if c.shared_locals {
        cfg.names = false;
    }
    let mut m = if c.loc_mod {
        let mut wc = cfg.config();
        wc.on_instr_loc(|pos| walrus::InstrLocId::new((*pos % 7) as u32));
        std::panic::catch_unwind(std::panic::AssertUnwindSafe(|| wc.parse(&c.wasm))).map_err(|_| ())?.map_err(|_| ())?
    } else {
        parse(&c.wasm, &cfg).map_err(|_| ())?
    };
    if c.preserve_ct {
        m.customs.add(CtDump::default());
    }
    if c.shared_locals {
        std::panic::catch_unwind(std::panic::AssertUnwindSafe(|| add_functions_sharing_locals(&mut m))).map_err(|_| ())?;
    }
    if c.gc {
        gc(&mut m).map_err(|_| ())?;
    }
    emit(&mut m).map_err(|_| ())
}

pub fn wpar_path(args: &Args) -> std::path::PathBuf {
    args.verif.join("harness-par/target/verif/wpar")
}

fn run_wpar(args: &Args, cases: &[PCase], items: &[Value], tag: &str) -> Result<Vec<Value>, String> {
    let dir = args.verif.join("work").join("c09").join(tag);
    let _ = std::fs::remove_dir_all(&dir);
    std::fs::create_dir_all(&dir).map_err(|e| e.to_string())?;
    let cpath = dir.join("cases.bin");
    write_cases(&cpath, cases)?;
    let ipath = dir.join("items.json");
    std::fs::write(&ipath, serde_json::to_string(items).unwrap()).map_err(|e| e.to_string())?;
    let exe = wpar_path(args);
    if !exe.exists() {
        return Err(format!("{} not built", exe.display()));
    }
    let nprocs = args.threads.max(1).min(items.len().max(1));
    let mut ch = vec![];
    for p in 0..nprocs {
        // output goes to a file: nothing reads a pipe while the watchdog polls
        let of = std::fs::File::create(dir.join(format!("out_{}.jsonl", p))).map_err(|e| e.to_string())?;
        ch.push(Command::new(&exe).arg(&cpath).arg(&ipath).arg(p.to_string()).arg(nprocs.to_string()).stdout(Stdio::from(of)).stderr(Stdio::null()).spawn().map_err(|e| e.to_string())?);
    }
    let mut out: Vec<Value> = vec![Value::Null; items.len()];
    // watchdog: the explorer's own caps are checked between runs; a run that never returns (a
    // deadlock under the controlled scheduler) must end as a machinery failure, not as a wait for ever
    let limit = std::time::Duration::from_secs(if args.tier == Tier::Quick { 900 } else { 4 * 3600 });
    let t0 = std::time::Instant::now();
    loop {
        let mut running = false;
        for c in ch.iter_mut() {
            if let Ok(None) = c.try_wait() {
                running = true;
            }
        }
        if !running {
            break;
        }
        if t0.elapsed() > limit {
            for c in ch.iter_mut() {
                let _ = c.kill();
            }
            return Err(format!("a wpar process did not finish within {:?} (killed): a run under the controlled scheduler never returned", limit));
        }
        std::thread::sleep(std::time::Duration::from_millis(100));
    }
    for (p, mut c) in ch.into_iter().enumerate() {
        let status = c.wait().map_err(|e| e.to_string())?;
        if !status.success() {
            return Err(format!("wpar exited with {:?}", status));
        }
        let text = std::fs::read_to_string(dir.join(format!("out_{}.jsonl", p))).unwrap_or_default();
        for l in text.lines() {
            if let Ok(v) = serde_json::from_str::<Value>(l) {
                if let Some(i) = v["item"].as_u64() {
                    out[i as usize] = v;
                }
            }
        }
    }
    let _ = std::fs::remove_dir_all(&dir);
    Ok(out)
}

/// inputs for the free-running supplement: many functions in few size classes (ties in the size
/// sort), so that any order-sensitivity of the per-function work shows
pub fn real_inputs() -> Vec<PCase> {
    let mut v = vec![];
    for (n, classes) in [(64usize, 1usize), (200, 4), (600, 3)] {
        let sizes: Vec<usize> = (0..n).map(|i| 1 + i % classes).collect();
        v.push(PCase { name: format!("{} functions in {} size classes", n, classes), wasm: build(&sizes, &[], false, true), preserve_ct: true, n_funcs: n, gc: false, loc_mod: false, shared_locals: false });
    }
    let sizes: Vec<usize> = (0..150).map(|i| 1 + i % 2).collect();
    v.push(PCase { name: "150 functions, invalid body #149".into(), wasm: build(&sizes, &[149], false, false), preserve_ct: false, n_funcs: 150, gc: false, loc_mod: false, shared_locals: false });
    v.push(PCase { name: "150 functions, data + memory.init".into(), wasm: build(&sizes, &[], true, false), preserve_ct: false, n_funcs: 150, gc: false, loc_mod: false, shared_locals: false });
    v
}

fn write_cases(path: &std::path::Path, cases: &[PCase]) -> Result<(), String> {
    let mut f = std::io::BufWriter::new(std::fs::File::create(path).map_err(|e| e.to_string())?);
    for c in cases {
        let exp = serial(c);
        f.write_all(&(c.wasm.len() as u32).to_le_bytes()).unwrap();
        f.write_all(&c.wasm).unwrap();
        f.write_all(&[c.preserve_ct as u8 | (c.gc as u8) << 1 | (c.loc_mod as u8) << 2 | (c.shared_locals as u8) << 3, exp.is_ok() as u8]).unwrap();
        let e = exp.unwrap_or_default();
        f.write_all(&(e.len() as u32).to_le_bytes()).unwrap();
        f.write_all(&e).unwrap();
    }
    Ok(())
}

/// SAMPLING supplement on the real rayon-core (labelled as such in the evidence)
fn run_real(args: &Args, ev: &mut Ev, tier: Tier) -> Vec<Violation> {
    let mut viol = vec![];
    let exe = args.verif.join("harness-par-real/target/verif/wreal");
    if !exe.exists() {
        ev.note("free-running supplement (wreal) not built; skipped");
        return viol;
    }
    let mut cases = real_inputs();
    cases.extend(inputs(Tier::Quick));
    let dir = args.verif.join("work").join("c09").join("real");
    let _ = std::fs::create_dir_all(&dir);
    let cpath = dir.join("cases.bin");
    if write_cases(&cpath, &cases).is_err() {
        return viol;
    }
    let repeats = if tier == Tier::Quick { 3 } else { 20 };
    let o = Command::new(&exe).arg(&cpath).arg(repeats.to_string()).stdout(Stdio::piped()).stderr(Stdio::null()).output();
    let _ = std::fs::remove_dir_all(&dir);
    let o = match o {
        Ok(o) => o,
        Err(e) => {
            ev.note(format!("wreal failed to start: {}", e));
            return viol;
        }
    };
    let mut runs = 0u64;
    for l in String::from_utf8_lossy(&o.stdout).lines() {
        if let Ok(v) = serde_json::from_str::<Value>(l) {
            runs += v["runs"].as_u64().unwrap_or(0);
            if v["verdict"] == "diff" {
                let k = v["case"].as_u64().unwrap_or(0) as usize;
                let c = &cases[k];
                let case = Case {
                    family: "parallel-free-running".into(),
                    coords: format!("{} RAYON threads={}", c.name, v["threads"]),
                    wasm: c.wasm.clone(),
                    cfg: json!({"free_running": true, "threads": v["threads"], "preserve_ct": c.preserve_ct, "gc": c.gc, "loc_mod": c.loc_mod, "shared_locals": c.shared_locals}),
                };
                let d = v["detail"].as_str().unwrap_or("");
                viol.push(Violation::new("C09", format!("{}:free-running", sig_of(d)), format!("{} (real rayon-core, {} threads; sampling supplement)", d, v["threads"]), &case));
            }
        }
    }
    ev.extra.insert(
        "free_running_supplement".into(),
        json!({"kind": "SAMPLING (not exhaustive, not the deciding step)", "runs": runs, "thread_counts": "1..=16", "repeats_per_count": repeats, "inputs": cases.len(),
               "why": "interleavings inside one rayon task (e.g. rayon's par_bridge) are invisible to the task-granular explorer; any difference found here is a real difference"}),
    );
    ev.transitions += runs;
    viol
}

pub fn plan(tier: Tier, cases: &[PCase]) -> Vec<Value> {
    let mut items = vec![];
    let full_n = if tier == Tier::Quick { 3 } else { 4 };
    let cap_ms: u64 = if tier == Tier::Quick { 20_000 } else { 600_000 };
    for (k, c) in cases.iter().enumerate() {
        for t in [1usize, 2, 3, 4, 16] {
            for migrated in [false, true] {
                if c.n_funcs <= full_n {
                    items.push(json!({"case": k, "threads": t, "migrated": migrated, "mode": "full", "cap": 400000, "cap_ms": cap_ms}));
                } else {
                    // deviation-bounded + each fan-out exhaustively with the others on the default order
                    if migrated && t != 4 {
                        continue;
                    }
                    items.push(json!({"case": k, "threads": t, "migrated": migrated, "mode": "dev", "bound": 2, "cap": 60000, "cap_ms": cap_ms}));
                    if t == 4 || t == 2 {
                        for f in 1..=3 {
                            items.push(json!({"case": k, "threads": t, "migrated": migrated, "mode": "fanout", "fanout": f, "cap": 60000, "cap_ms": cap_ms}));
                        }
                    }
                }
            }
        }
    }
    items
}

fn audit(repo: &std::path::Path) -> Vec<String> {
    // task-granularity justification: the closures run per function must not share mutable state
    let mut hits = vec![];
    let pats = ["Mutex", "RwLock", "sync::atomic", "AtomicUsize", "AtomicBool", "AtomicU32", "AtomicU64", "AtomicI32", "AtomicI64", "AtomicPtr", "RefCell", "Cell<", "thread_local", "static mut", "unsafe "];
    fn walk(d: &std::path::Path, out: &mut Vec<std::path::PathBuf>) {
        if let Ok(rd) = std::fs::read_dir(d) {
            for e in rd.flatten() {
                let p = e.path();
                if p.is_dir() {
                    walk(&p, out);
                } else if p.extension().map(|x| x == "rs").unwrap_or(false) {
                    out.push(p);
                }
            }
        }
    }
    let mut files = vec![];
    walk(&repo.join("src"), &mut files);
    for f in files {
        // the DWARF conversion runs after the fan-outs, on one thread; not part of any task
        if f.to_string_lossy().contains("module/debug/") {
            continue;
        }
        if let Ok(t) = std::fs::read_to_string(&f) {
            for (ln, l) in t.lines().enumerate() {
                let code = l.split("//").next().unwrap_or("");
                for p in pats {
                    if code.contains(p) {
                        hits.push(format!("{}:{}: {}", f.strip_prefix(repo).unwrap_or(&f).display(), ln + 1, p));
                    }
                }
            }
        }
    }
    hits
}

fn recheck(args: &Args, c: &Case) -> Vec<Violation> {
    if c.cfg.get("free_running").is_some() {
        // a schedule of the free-running pool cannot be replayed; re-run the same input with more
        // repeats: it must fail again to be reported
        let exe = args.verif.join("harness-par-real/target/verif/wreal");
        let pc = PCase { name: c.coords.clone(), wasm: c.wasm.clone(), preserve_ct: c.cfg["preserve_ct"].as_bool().unwrap_or(false), n_funcs: 0, gc: c.cfg["gc"].as_bool().unwrap_or(false), loc_mod: c.cfg["loc_mod"].as_bool().unwrap_or(false), shared_locals: c.cfg["shared_locals"].as_bool().unwrap_or(false) };
        let dir = args.verif.join("work").join("c09").join(format!("real-replay{}", std::process::id()));
        let _ = std::fs::create_dir_all(&dir);
        let cpath = dir.join("cases.bin");
        let _ = write_cases(&cpath, &[pc]);
        let o = Command::new(&exe).arg(&cpath).arg("40").output();
        let _ = std::fs::remove_dir_all(&dir);
        if let Ok(o) = o {
            for l in String::from_utf8_lossy(&o.stdout).lines() {
                if let Ok(v) = serde_json::from_str::<Value>(l) {
                    if v["verdict"] == "diff" {
                        let d = v["detail"].as_str().unwrap_or("");
                        return vec![Violation::new("C09", format!("{}:free-running", sig_of(d)), d.to_string(), c)];
                    }
                }
            }
        }
        return vec![];
    }
    let pc = PCase { name: c.coords.clone(), wasm: c.wasm.clone(), preserve_ct: c.cfg["preserve_ct"].as_bool().unwrap_or(false), n_funcs: 0, gc: c.cfg["gc"].as_bool().unwrap_or(false), loc_mod: c.cfg["loc_mod"].as_bool().unwrap_or(false), shared_locals: c.cfg["shared_locals"].as_bool().unwrap_or(false) };
    let item = json!({"case": 0, "threads": c.cfg["threads"], "migrated": c.cfg["migrated"], "mode": "replay", "schedule": c.cfg["schedule"]});
    match run_wpar(args, &[pc], &[item], &format!("replay{}", std::process::id())) {
        Ok(r) if r[0]["verdict"] == "diff" => vec![Violation::new("C09", sig_of(r[0]["detail"].as_str().unwrap_or("")), r[0]["detail"].as_str().unwrap_or("").to_string(), c)],
        _ => vec![],
    }
}

fn sig_of(detail: &str) -> String {
    let k = detail.split(':').next().unwrap_or("differs");
    format!("parallel-{}", k)
}

pub fn run(args: &Args) -> i32 {
    let mut ev = Ev::new("C09");
    if let Some(p) = &args.replay {
        let (case, _) = match read_replay(p) {
            Ok(x) => x,
            Err(e) => {
                eprintln!("MACHINERY: {}", e);
                return 2;
            }
        };
        ev.evaluations = 1;
        let v = recheck(args, &case);
        return finish(args, ev, v, &|c| recheck(args, c));
    }
    let cases = inputs(args.tier);
    let items = plan(args.tier, &cases);
    let res = match run_wpar(args, &cases, &items, "main") {
        Ok(r) => r,
        Err(e) => {
            eprintln!("MACHINERY: {}", e);
            return 2;
        }
    };
    let mut viol = vec![];
    let mut capped = 0;
    let mut max_outcomes = 0;
    let mut orders = 0u64;
    for (it, r) in items.iter().zip(res.iter()) {
        if r.is_null() {
            eprintln!("MACHINERY: wpar returned no result for item {}", it);
            return 2;
        }
        let c = &cases[it["case"].as_u64().unwrap() as usize];
        ev.evaluations += r["schedules"].as_u64().unwrap_or(0);
        ev.states += r["schedules"].as_u64().unwrap_or(0);
        ev.transitions += r["task_steps"].as_u64().unwrap_or(0);
        orders += r["orders"].as_u64().unwrap_or(0);
        max_outcomes = max_outcomes.max(r["outcomes"].as_u64().unwrap_or(0));
        if r["orders"].as_u64().unwrap_or(0) > 1 {
            ev.nontrivial += 1;
        }
        if r["capped"].as_bool().unwrap_or(false) {
            capped += 1;
        }
        match r["verdict"].as_str() {
            Some("ok") => {}
            Some("diff") => {
                let case = Case {
                    family: "parallel".into(),
                    coords: format!("{} T={} migrated={}", c.name, it["threads"], it["migrated"]),
                    wasm: c.wasm.clone(),
                    cfg: json!({"threads": it["threads"], "migrated": it["migrated"], "schedule": r["schedule"], "preserve_ct": c.preserve_ct, "gc": c.gc, "loc_mod": c.loc_mod, "shared_locals": c.shared_locals}),
                };
                let d = r["detail"].as_str().unwrap_or("");
                viol.push(Violation::new("C09", sig_of(d), format!("{} under schedule {}", d, r["schedule"]), &case));
            }
            _ => {
                eprintln!("MACHINERY: {}", r["detail"]);
                return 2;
            }
        }
    }
    if capped > 0 {
        ev.cap_hit = true;
        ev.note(format!("{} exploration items hit their schedule cap; below the cap exploration is complete in DFS order", capped));
    }
    viol.extend(run_real(args, &mut ev, args.tier));
    let hits = audit(&args.repo);
    ev.extra.insert(
        "task_granularity_audit".into(),
        json!({"pattern_hits_in_repo_src": hits.len(), "task_granularity_only": !hits.is_empty(), "hits": hits.iter().take(10).collect::<Vec<_>>(),
               "meaning": "no hit = the per-function closures share only immutable borrows, so schedules at task granularity are complete"}),
    );
    ev.extra.insert("distinct_task_orders_total".into(), json!(orders));
    ev.extra.insert("max_distinct_outcomes_per_item".into(), json!(max_outcomes));
    ev.sample(json!({"input": cases[0].name, "threads": 2, "mode": "full", "schedule": "every linear extension of the fork-join DAG"}));
    ev.sample(json!({"input": cases[cases.len() - 1].name, "item": items[items.len() - 1]}));
    ev.rule = format!(
        "walrus built with --features parallel runs on a replacement rayon-core whose join/join_context hand every fork to a baton scheduler; a stateless DFS over choice sequences enumerates every linear \
         extension of the fork-join task DAG (all fan-outs: parse, data-count scan, emit) for every input with <= {} functions x T in {{1,2,3,4,16}} x migrated in {{false,true}}; larger inputs: every schedule with <= 2 \
         non-default choices plus every complete schedule of one fan-out with the others on the default order. Oracle: same Ok/Err and byte-identical output as the serial build (computed by this serial binary). \
         states = schedules; transitions = task steps; non-trivial = items with more than one distinct task order",
        if args.tier == Tier::Quick { 3 } else { 4 }
    );
    ev.bounds = json!({"full_product_up_to_functions": if args.tier == Tier::Quick { 3 } else { 4 }, "max_functions": if args.tier == Tier::Quick { 4 } else { 6 }, "deviation_bound": 2});
    ev.assumptions = vec!["schedules are enumerated at task granularity (justified by the audit printed in coverage.task_granularity_audit); rayon's own internals run deterministically under the shim".into()];
    finish(args, ev, viol, &|c| recheck(args, c))
}
