//! C14: configuration switches do exactly what they document.

use crate::core::*;
use crate::pipe::*;
use crate::props::modhist::raw_sections;
use crate::sweep::*;
use serde_json::json;
use std::sync::atomic::{AtomicUsize, Ordering};
use std::sync::Arc;
use wgen::families::{names_base, names_payload};
use wgen::mb;

fn walrus_version(repo: &std::path::Path) -> String {
    let t = std::fs::read_to_string(repo.join("Cargo.toml")).unwrap_or_default();
    for l in t.lines() {
        if let Some(v) = l.strip_prefix("version = \"") {
            return v.trim_end_matches('"').to_string();
        }
    }
    "?".into()
}

type Producers = Vec<(String, Vec<(String, String)>)>;

fn producers_variants() -> Vec<(&'static str, Option<Vec<(&'static str, Vec<(&'static str, &'static str)>)>>)> {
    vec![
        ("none", None),
        ("other-tool", Some(vec![("processed-by", vec![("rustc", "1.70"), ("wasm-opt", "114")])])),
        ("old-walrus", Some(vec![("processed-by", vec![("clang", "15"), ("walrus", "0.1.0"), ("zz", "9")])])),
        ("two-fields", Some(vec![("language", vec![("Rust", ""), ("C", "11")]), ("sdk", vec![("emscripten", "3")])])),
        ("walrus-only-current", Some(vec![("processed-by", vec![("walrus", "0.23.3")])])),
        // fields without values (valid; wat's @producers cannot write them)
        ("empty-field-in-the-middle", Some(vec![("language", vec![("Rust", "")]), ("sdk", vec![]), ("processed-by", vec![("rustc", "1"), ("clang", "2")])])),
        ("only-an-empty-field", Some(vec![("sdk", vec![])])),
        ("empty-processed-by", Some(vec![("language", vec![]), ("processed-by", vec![])])),
    ]
}

pub fn build_input(with_names: bool, prod: usize, dwarf: bool) -> Vec<u8> {
    build_input_x(with_names as u8, prod, dwarf)
}

/// `names`: 0 = no name section, 1 = one, 2 = the same names spread over two `name` sections
pub fn build_input_x(names: u8, prod: usize, dwarf: bool) -> Vec<u8> {
    let with_names = names == 1;
    let mut m = names_base(0);
    // single memory, so that the module is also valid under only_stable_features
    m.mems.truncate(1);
    m.datas.truncate(1);
    m.exports.retain(|e| e.0 != "m1");
    if with_names {
        // all subsections except memory and data names (which would name the removed entities)
        m.customs.push((12, "name".into(), names_payload(0, 0b011011111)));
    }
    if names == 3 {
        // nothing but a data segment is named
        m.customs.push((12, "name".into(), names_payload(0, 0b100000000)));
    }
    if names == 2 {
        m.customs.push((12, "name".into(), names_payload(0, 0b000000110)));
        m.customs.push((12, "name".into(), names_payload(0, 0b011011001)));
    }
    if let Some(p) = &producers_variants()[prod].1 {
        m.customs.push((12, "producers".into(), mb::producers(p)));
    }
    if dwarf {
        for (n, d) in wdwarf::minimal_sections(&m.build()) {
            m.customs.push((12, n, d));
        }
        // DWARF sections outside the set a DWARF reader needs (producers emit them too)
        for n in [".debug_pubnames", ".debug_pubtypes", ".debug_frame", ".debug_macro", ".debug_names"] {
            m.customs.push((12, n.to_string(), vec![0, 0, 0, 0]));
        }
    }
    // an uninterpreted custom section that must never be affected by any switch
    m.customs.push((5, "keepme".into(), vec![1, 2, 3]));
    m.build()
}

/// inputs without (live) code that carry data-only DWARF, a producers section and a name section:
/// "nocode" has no function at all, "deadcode" one function nothing reaches (run with gc)
pub fn build_codeless(shape: &str) -> Vec<u8> {
    let mut m = mb::MB::default();
    m.mems.push(mb::Lim::new(1, None));
    m.globals.push((mb::I32, true, mb::expr(mb::i32_const(5))));
    m.export("m", 2, 0);
    m.export("g", 3, 0);
    m.datas.push(mb::data_seg(0, 0, &mb::i32_const(0), b"dd"));
    if shape == "deadcode" {
        let t0 = m.ty(&[], &[]);
        m.func(t0, vec![], vec![0x01, mb::END]);
    }
    m.customs.push((12, "name".into(), mb::name_section(&[(0, { let mut o = vec![]; mb::name("codeless", &mut o); o }), (7, mb::name_map(&[(0, "the_global")]))])));
    m.customs.push((12, "producers".into(), mb::producers(producers_variants()[1].1.as_ref().unwrap())));
    for (n, d) in wdwarf::data_only_sections() {
        m.customs.push((12, n, d));
    }
    m.customs.push((5, "keepme".into(), vec![1, 2, 3]));
    m.build()
}

fn expected_producers(input: &Option<Producers>, version: &str) -> Producers {
    let mut f: Producers = input.clone().unwrap_or_default();
    let mut done = false;
    for (name, vals) in f.iter_mut() {
        if name == "processed-by" {
            for v in vals.iter_mut() {
                if v.0 == "walrus" {
                    v.1 = version.to_string();
                    done = true;
                }
            }
            if !done {
                vals.push(("walrus".into(), version.to_string()));
                done = true;
            }
            break;
        }
    }
    if !done {
        f.push(("processed-by".into(), vec![("walrus".into(), version.to_string())]));
    }
    f
}

fn without(b: &[u8], pred: impl Fn(&(u8, String, Vec<u8>)) -> bool) -> Vec<(u8, String, Vec<u8>)> {
    raw_sections(b).into_iter().filter(|s| !pred(s)).collect()
}

pub fn check_case(c: &Case, version: &str) -> CaseResult {
    let mut r = CaseResult::default();
    let cfg = Cfg::from_json(&c.cfg);
    let trips = c.cfg.get("trips").and_then(|x| x.as_u64()).unwrap_or(1) as usize;
    if wmodel::validate214(&c.wasm, wmodel::FeatureSet::DEFAULT).is_err() {
        return r;
    }
    r.valid_input = true;
    let input = match wmodel::decode(&c.wasm) {
        Ok(a) => a,
        Err(_) => return r,
    };
    let with_gc = c.cfg.get("gc").and_then(|x| x.as_bool()).unwrap_or(false);
    let rt = |bytes: &[u8], cfg: &Cfg, n: usize| -> Result<Vec<u8>, Fail> {
        let mut cur = bytes.to_vec();
        for _ in 0..n {
            cur = roundtrip(&cur, cfg, with_gc)?;
        }
        Ok(cur)
    };
    let out = match rt(&c.wasm, &cfg, trips) {
        Ok(o) => o,
        Err(Fail::Rejected(e)) => {
            if cfg.dwarf && c.cfg.get("dwarf_input").and_then(|x| x.as_bool()).unwrap_or(false) {
                r.note = Some(format!("C14: walrus rejects synthesized DWARF input under {}: {}", c.coords, e));
            }
            return r;
        }
        Err(_) => return r, // panics are C02's
    };
    r.transitions = 2 * trips as u32;
    r.digests.push(wmodel::fnv(&out));
    r.nontrivial = true;
    let o = match wmodel::decode(&out) {
        Ok(o) => o,
        Err(_) => return r,
    };
    let mut bad = |sig: &str, d: String| r.violations.push(Violation::new("C14", sig, d, c));
    // ---- name section
    let has_name = o.customs.iter().any(|s| s.name == "name");
    if !cfg.names && has_name {
        bad("name-section-present-when-disabled", "generate_name_section(false) but the output has a name section".into());
    }
    if cfg.names && input.names.present && !input.names.funcs.is_empty() && !has_name {
        bad("name-section-missing", "generate_name_section(true), the input names functions, but the output has no name section".into());
    }
    // ---- producers
    let n_prod = o.customs.iter().filter(|s| s.name == "producers").count();
    if !cfg.producers && n_prod > 0 {
        bad("producers-present-when-disabled", "generate_producers_section(false) but the output has a producers section".into());
    }
    if cfg.producers {
        if n_prod != 1 {
            bad("producers-missing", format!("generate_producers_section(true): {} producers sections in the output", n_prod));
        } else {
            let want = expected_producers(&input.producers, version);
            let got = o.producers.clone().unwrap_or_default();
            if got != want {
                let walrus_count: usize = got.iter().filter(|f| f.0 == "processed-by").map(|f| f.1.iter().filter(|v| v.0 == "walrus").count()).sum();
                let sig = if walrus_count != 1 { format!("walrus-recorded-{}-times", walrus_count) } else { "producers-fields-changed".to_string() };
                bad(&sig, format!("after {} round trip(s): expected {:?}, got {:?}", trips, want, got));
            }
        }
    }
    // ---- DWARF
    let dbg_in = input.customs.iter().filter(|s| s.name.starts_with(".debug")).count();
    let dbg_out = o.customs.iter().filter(|s| s.name.starts_with(".debug")).count();
    if !cfg.dwarf && dbg_out > 0 {
        bad("dwarf-present-when-disabled", format!("generate_dwarf(false) but the output has {} .debug sections", dbg_out));
    }
    if cfg.dwarf && dbg_in > 0 && dbg_out == 0 {
        bad("dwarf-missing", "generate_dwarf(true), the input has DWARF, the output has none".into());
    }
    if dbg_in == 0 && dbg_out > 0 {
        bad("dwarf-invented", format!("the input has no DWARF, the output has {} .debug sections", dbg_out));
    }
    // ---- each switch alone: exactly that section and nothing else (single trip only)
    if trips == 1 {
        let is_name = |s: &(u8, String, Vec<u8>)| s.0 == 0 && s.1 == "name";
        let is_prod = |s: &(u8, String, Vec<u8>)| s.0 == 0 && s.1 == "producers";
        let is_dbg = |s: &(u8, String, Vec<u8>)| s.0 == 0 && s.1.starts_with(".debug");
        let flips: [(&str, Cfg); 6] = [
            ("names", Cfg { names: !cfg.names, ..cfg }),
            ("producers", Cfg { producers: !cfg.producers, ..cfg }),
            ("dwarf", Cfg { dwarf: !cfg.dwarf, ..cfg }),
            ("preserve-ct", Cfg { preserve_ct: !cfg.preserve_ct, ..cfg }),
            ("stable", Cfg { stable: !cfg.stable, ..cfg }),
            ("synthetic", Cfg { synthetic: !cfg.synthetic, ..cfg }),
        ];
        for (which, other) in flips {
            let out2 = match rt(&c.wasm, &other, 1) {
                Ok(o) => o,
                Err(_) => continue,
            };
            r.transitions += 2;
            let same = match which {
                "names" => without(&out, is_name) == without(&out2, is_name),
                "producers" => without(&out, is_prod) == without(&out2, is_prod),
                "dwarf" => without(&out, is_dbg) == without(&out2, is_dbg),
                // synthetic names may only change the name section
                "synthetic" => without(&out, is_name) == without(&out2, is_name),
                _ => out == out2,
            };
            if !same {
                bad(&format!("switch-{}-changes-other-bytes", which), format!("flipping only `{}` changed bytes outside its own section ({} vs {} bytes)", which, out.len(), out2.len()));
            }
        }
    }
    r
}

/// callback-count part: every prefix and a set of single-byte substitutions of the base inputs
pub fn callback_cases(ev: &mut Ev) -> (u64, Vec<Violation>) {
    let mut viol = vec![];
    let mut n = 0u64;
    let seeds = [build_input(true, 1, false), build_input(false, 0, false)];
    for (si, seed) in seeds.iter().enumerate() {
        let mut inputs: Vec<Vec<u8>> = vec![seed.clone()];
        for l in 0..seed.len() {
            inputs.push(seed[..l].to_vec());
        }
        for p in 0..seed.len() {
            for v in [0x00u8, 0x01, 0x7f, 0x80, 0xff, seed[p].wrapping_add(1), seed[p] ^ 0x40] {
                if v != seed[p] {
                    let mut m = seed.clone();
                    m[p] = v;
                    inputs.push(m);
                }
            }
        }
        for inp in inputs {
            n += 1;
            let count = Arc::new(AtomicUsize::new(0));
            let c2 = count.clone();
            let mut cfg = walrus::ModuleConfig::new();
            cfg.on_parse(move |_, _| {
                c2.fetch_add(1, Ordering::SeqCst);
                Ok(())
            });
            let res = std::panic::catch_unwind(std::panic::AssertUnwindSafe(|| cfg.parse(&inp).is_ok()));
            let k = count.load(Ordering::SeqCst);
            let case = Case { family: "callback".into(), coords: format!("seed{} ", si), wasm: inp.clone(), cfg: json!({"callback": true}) };
            match res {
                Ok(true) if k != 1 => viol.push(Violation::new("C14", format!("on-parse-count:{}:on-ok", k.min(2)), format!("parse succeeded, callback ran {} times", k), &case)),
                Ok(false) if k != 0 => viol.push(Violation::new("C14", format!("on-parse-count:{}:on-err", k.min(2)), format!("parse failed, callback ran {} times", k), &case)),
                _ => {}
            }
        }
    }
    ev.extra.insert("callback_inputs".into(), json!(n));
    (n, viol)
}

// ---- the configuration builder as a state machine ---------------------------------------------
// Every sequence of setter calls up to a length bound; model = last write wins per switch
// (generate_dwarf(true) also turns code-transform preservation on, as documented).  The output
// must be byte-identical to the output under the canonical configuration of the model state.

const SETTERS: [&str; 8] = ["names", "producers", "dwarf", "preserve_ct", "stable", "synthetic", "strict", "on_parse"];

fn apply_setter(c: &mut walrus::ModuleConfig, name: &str, v: bool, counts: &mut Vec<Arc<AtomicUsize>>) {
    match name {
        "names" => {
            c.generate_name_section(v);
        }
        "producers" => {
            c.generate_producers_section(v);
        }
        "dwarf" => {
            c.generate_dwarf(v);
        }
        "preserve_ct" => {
            c.preserve_code_transform(v);
        }
        "stable" => {
            c.only_stable_features(v);
        }
        "synthetic" => {
            c.generate_synthetic_names_for_anonymous_items(v);
        }
        "strict" => {
            c.strict_validate(v);
        }
        _ => {
            // every registration gets a counter of its own: a later registration replaces the earlier one
            let mine = Arc::new(AtomicUsize::new(0));
            counts.push(mine.clone());
            c.on_parse(move |_, _| {
                mine.fetch_add(1, Ordering::SeqCst);
                Ok(())
            });
        }
    }
}

fn seq_of(c: &Case) -> Vec<(String, bool)> {
    c.cfg["setters"].as_array().map(|a| a.iter().map(|x| (x[0].as_str().unwrap_or("").to_string(), x[1].as_bool().unwrap_or(false))).collect()).unwrap_or_default()
}

pub fn check_setters(c: &Case) -> CaseResult {
    let mut r = CaseResult::default();
    let seq = seq_of(c);
    // model
    let mut st = Cfg::default();
    let mut cb = false;
    for (n, v) in &seq {
        match n.as_str() {
            "names" => st.names = *v,
            "producers" => st.producers = *v,
            "dwarf" => {
                st.dwarf = *v;
                st.preserve_ct = st.preserve_ct || *v;
            }
            "preserve_ct" => st.preserve_ct = *v,
            "stable" => st.stable = *v,
            "synthetic" => st.synthetic = *v,
            "strict" => {}
            _ => cb = true,
        }
    }
    // real
    let mut counts: Vec<Arc<AtomicUsize>> = vec![];
    let mut real = walrus::ModuleConfig::new();
    for (n, v) in &seq {
        apply_setter(&mut real, n, *v, &mut counts);
    }
    // (runs of the last registered callback, runs of all the earlier ones together)
    let runs = |counts: &Vec<Arc<AtomicUsize>>| -> (usize, usize) {
        let last = counts.last().map(|c| c.load(Ordering::SeqCst)).unwrap_or(0);
        let earlier: usize = counts.iter().rev().skip(1).map(|c| c.load(Ordering::SeqCst)).sum();
        (last, earlier)
    };
    r.valid_input = true;
    let got = std::panic::catch_unwind(std::panic::AssertUnwindSafe(|| real.parse(&c.wasm).map(|mut m| m.emit_wasm())));
    let want = roundtrip(&c.wasm, &st, false);
    r.transitions = 4;
    let mut bad = |sig: &str, d: String| r.violations.push(Violation::new("C14", sig, d, c));
    match (got, want) {
        (Ok(Ok(g)), Ok(w)) => {
            r.nontrivial = true;
            r.digests.push(wmodel::fnv(&g));
            let (k, earlier) = runs(&counts);
            if k != cb as usize {
                bad(&format!("on-parse-count:{}:on-ok", k.min(2)), format!("after the setter calls {:?} the last registered parse callback ran {} times", seq, k));
            }
            if earlier != 0 {
                bad("on-parse-replaced-callback-ran", format!("after the setter calls {:?} a callback that a later registration replaced ran {} times", seq, earlier));
            }
            if g != w {
                let names = |b: &[u8]| raw_sections(b).into_iter().filter(|s| s.0 == 0).map(|s| s.1).collect::<Vec<_>>();
                let (gi, wi) = (names(&g), names(&w));
                let sig = if gi != wi {
                    let which = ["name", "producers", ".debug"].iter().find(|n| gi.iter().any(|x| x.starts_with(**n)) != wi.iter().any(|x| x.starts_with(**n))).copied().unwrap_or("other");
                    format!("setter-sequence-wrong-sections:{}", which)
                } else {
                    "setter-sequence-wrong-bytes".to_string()
                };
                bad(&sig, format!("the setter calls {:?} should amount to {:?}; custom sections emitted {:?}, expected {:?} ({} vs {} bytes)", seq, st, gi, wi, g.len(), w.len()));
            }
        }
        (Ok(Err(_)), Err(Fail::Rejected(_))) => {
            let (k, earlier) = runs(&counts);
            if k + earlier != 0 {
                bad("on-parse-count:1:on-err", format!("after the setter calls {:?} the parse failed but the callback ran", seq));
            }
        }
        (Ok(Ok(_)), Err(Fail::Rejected(e))) => bad("setter-sequence-accepts", format!("the setter calls {:?} amount to {:?}, under which the input is rejected ({}), yet it was accepted", seq, st, e)),
        (Ok(Err(e)), Ok(_)) => bad("setter-sequence-rejects", format!("the setter calls {:?} amount to {:?}, under which the input is accepted, yet it was rejected: {:#}", seq, st, e)),
        _ => {} // panics are C02's
    }
    r
}

pub fn setter_cases(args: &Args) -> Vec<Case> {
    let depth = if args.tier == Tier::Quick { 3 } else { 4 };
    let mut alphabet: Vec<(usize, bool)> = vec![];
    for (i, n) in SETTERS.iter().enumerate() {
        alphabet.push((i, true));
        if *n != "on_parse" {
            alphabet.push((i, false));
        }
    }
    // two inputs: everything present and single-memory (valid under only_stable), and a two-memory
    // module so that `stable` decides acceptance
    let inputs = [("all", build_input(true, 1, true)), ("two-memories", {
        let mut m = names_base(0);
        m.customs.push((12, "producers".into(), mb::producers(producers_variants()[1].1.as_ref().unwrap())));
        m.build()
    })];
    let mut cases = vec![];
    let mut seqs: Vec<Vec<(usize, bool)>> = vec![vec![]];
    let mut frontier = seqs.clone();
    for _ in 0..depth {
        let mut next = vec![];
        for s in &frontier {
            for a in &alphabet {
                let mut t = s.clone();
                t.push(*a);
                next.push(t);
            }
        }
        seqs.extend(next.iter().cloned());
        frontier = next;
    }
    for (iname, wasm) in inputs.iter() {
        for s in &seqs {
            let j: Vec<serde_json::Value> = s.iter().map(|(i, v)| json!([SETTERS[*i], v])).collect();
            cases.push(Case { family: "setters".into(), coords: format!("{} {:?}", iname, s.iter().map(|(i, v)| format!("{}={}", SETTERS[*i], v)).collect::<Vec<_>>()), wasm: wasm.clone(), cfg: json!({"setters": j}) });
        }
    }
    cases
}

// ---- entry points -------------------------------------------------------------------------------
// Every public way of parsing with a configuration must apply it: ModuleConfig::parse,
// ModuleConfig::parse_file, Module::from_buffer_with_config, Module::from_file_with_config; and the
// configuration-less Module::from_buffer / Module::from_file must behave like the default one.

pub const ENTRIES: [&str; 6] = ["parse", "parse_file", "from_buffer_with_config", "from_file_with_config", "from_buffer", "from_file"];

pub fn check_entry(c: &Case, verif: &std::path::Path) -> CaseResult {
    let mut r = CaseResult::default();
    let entry = c.cfg["entry"].as_str().unwrap_or("parse").to_string();
    let uses_cfg = !matches!(entry.as_str(), "from_buffer" | "from_file");
    let cfg = if uses_cfg { Cfg::from_json(&c.cfg) } else { Cfg::default() };
    r.valid_input = true;
    let want = roundtrip(&c.wasm, &cfg, false);
    let count = Arc::new(AtomicUsize::new(0));
    let mut wc = cfg.config();
    {
        let c2 = count.clone();
        wc.on_parse(move |_, _| {
            c2.fetch_add(1, Ordering::SeqCst);
            Ok(())
        });
    }
    let dir = verif.join("work").join("c14");
    let _ = std::fs::create_dir_all(&dir);
    static SERIAL: AtomicUsize = AtomicUsize::new(0);
    let path = dir.join(format!("{}-{}.wasm", std::process::id(), SERIAL.fetch_add(1, Ordering::SeqCst)));
    if entry.contains("file") && std::fs::write(&path, &c.wasm).is_err() {
        r.note = Some("C14: cannot write the scratch file for the file entry points".into());
        return r;
    }
    let got = std::panic::catch_unwind(std::panic::AssertUnwindSafe(|| {
        let m = match entry.as_str() {
            "parse" => wc.parse(&c.wasm),
            "parse_file" => wc.parse_file(&path),
            "from_buffer_with_config" => walrus::Module::from_buffer_with_config(&c.wasm, &wc),
            "from_file_with_config" => walrus::Module::from_file_with_config(&path, &wc),
            "from_buffer" => walrus::Module::from_buffer(&c.wasm),
            _ => walrus::Module::from_file(&path),
        };
        m.map(|mut m| m.emit_wasm())
    }));
    let _ = std::fs::remove_file(&path);
    r.transitions = 4;
    let k = count.load(Ordering::SeqCst);
    match (got, want) {
        (Ok(Ok(g)), Ok(w)) => {
            r.nontrivial = true;
            r.digests.push(wmodel::fnv(&g));
            if g != w {
                r.violations.push(Violation::new("C14", format!("entry-point-ignores-configuration:{}", entry), format!("{} with {:?} emits {} bytes, ModuleConfig::parse with the same configuration {} bytes", entry, cfg, g.len(), w.len()), c));
            }
            if uses_cfg && k != 1 {
                r.violations.push(Violation::new("C14", format!("on-parse-count:{}:on-ok:{}", k.min(2), entry), format!("{}: parse succeeded, the callback ran {} times", entry, k), c));
            }
        }
        (Ok(Err(e)), Err(Fail::Rejected(_))) if wmodel::validate214(&c.wasm, if cfg.stable { wmodel::FeatureSet::STABLE } else { wmodel::FeatureSet::DEFAULT }).is_ok() => {
            // every entry point agrees, but on the wrong answer: the switches leave this module inside the documented feature set
            r.violations.push(Violation::new("C14", format!("switches-reject-a-module-inside-their-feature-set:{}", if cfg.stable { "only-stable" } else { "default" }), format!("{} with {:?} rejects a module the documented feature set admits: {:#}", entry, cfg, e), c));
        }
        (Ok(Err(_)), Err(Fail::Rejected(_))) => {
            if k != 0 {
                r.violations.push(Violation::new("C14", format!("on-parse-count:1:on-err:{}", entry), format!("{}: parse failed, the callback ran", entry), c));
            }
        }
        (Ok(Ok(_)), Err(Fail::Rejected(_))) | (Ok(Err(_)), Ok(_)) => {
            r.violations.push(Violation::new("C14", format!("entry-point-ignores-configuration:{}", entry), format!("{} with {:?} and ModuleConfig::parse disagree on accepting the input", entry, cfg), c));
        }
        _ => {}
    }
    r
}

pub fn entry_cases() -> Vec<Case> {
    let finished = wgen::stateful::assemble(r#"(module (memory 1) (table 1 funcref) (type $t (func (result i32))) (func $a (type $t) (i32.const 1)) (elem (i32.const 0) func $a)
        (func (export "f") (param v128 v128 v128 i64) (result v128) (drop (i32.extend8_s (i32.trunc_sat_f32_s (f32.const 1)))) (memory.fill (i32.const 0) (i32.const 0) (i32.const 1))
          (drop (ref.is_null (ref.func $a))) (f32x4.relaxed_madd (local.get 0) (local.get 1) (local.get 2)))
        (func (export "g") (type $t) (return_call $a)) (func (export "h") (result i32 i32) (i32.const 1) (i32.const 2)))"#).unwrap();
    let inputs = [("finished-proposals", finished), ("all", build_input(true, 1, true)), ("two-memories", {
        let mut m = names_base(0);
        m.customs.push((12, "producers".into(), mb::producers(producers_variants()[1].1.as_ref().unwrap())));
        m.build()
    })];
    let mut out = vec![];
    for (iname, wasm) in inputs.iter() {
        for entry in ENTRIES {
            for bits in 0..64u32 {
                let cfg = Cfg { names: bits & 1 != 0, producers: bits & 2 != 0, dwarf: bits & 4 != 0, preserve_ct: bits & 8 != 0, stable: bits & 16 != 0, synthetic: bits & 32 != 0 };
                if (entry == "from_buffer" || entry == "from_file") && bits != 0 {
                    continue;
                }
                let mut j = cfg.json();
                j["entry"] = json!(entry);
                out.push(Case { family: "entry-points".into(), coords: format!("{} {} switches={:06b}", iname, entry, bits), wasm: wasm.clone(), cfg: j });
            }
        }
    }
    out
}

fn recheck(c: &Case, version: &str) -> Vec<Violation> {
    if c.cfg.get("entry").is_some() {
        return check_entry(c, std::path::Path::new("/verif")).violations;
    }
    if c.cfg.get("setters").is_some() {
        return check_setters(c).violations;
    }
    if c.cfg.get("callback").is_some() {
        let count = Arc::new(AtomicUsize::new(0));
        let c2 = count.clone();
        let mut cfg = walrus::ModuleConfig::new();
        cfg.on_parse(move |_, _| {
            c2.fetch_add(1, Ordering::SeqCst);
            Ok(())
        });
        let res = std::panic::catch_unwind(std::panic::AssertUnwindSafe(|| cfg.parse(&c.wasm).is_ok()));
        let k = count.load(Ordering::SeqCst);
        return match res {
            Ok(true) if k != 1 => vec![Violation::new("C14", format!("on-parse-count:{}:on-ok", k.min(2)), "", c)],
            Ok(false) if k != 0 => vec![Violation::new("C14", format!("on-parse-count:{}:on-err", k.min(2)), "", c)],
            _ => vec![],
        };
    }
    check_case(c, version).violations
}

pub fn run(args: &Args) -> i32 {
    let mut ev = Ev::new("C14");
    let version = walrus_version(&args.repo);
    if let Some(p) = &args.replay {
        let (case, _) = match read_replay(p) {
            Ok(x) => x,
            Err(e) => {
                eprintln!("MACHINERY: {}", e);
                return 2;
            }
        };
        ev.evaluations = 1;
        let v = recheck(&case, &version);
        return finish(args, ev, v, &|c| recheck(c, &version));
    }
    let mut cases = vec![];
    for with_names in [0u8, 1, 2, 3] {
        for prod in 0..producers_variants().len() {
            if with_names >= 2 && prod > 1 {
                continue;
            }
            for dwarf_in in [false, true] {
                let wasm = build_input_x(with_names, prod, dwarf_in);
                for bits in 0..64u32 {
                    let cfg = Cfg {
                        names: bits & 1 != 0,
                        producers: bits & 2 != 0,
                        dwarf: bits & 4 != 0,
                        preserve_ct: bits & 8 != 0,
                        stable: bits & 16 != 0,
                        synthetic: bits & 32 != 0,
                    };
                    for trips in 1..=3usize {
                        let mut j = cfg.json();
                        j["trips"] = json!(trips);
                        j["dwarf_input"] = json!(dwarf_in);
                        cases.push(Case {
                            family: "config".into(),
                            coords: format!("names_in={} producers_in={} dwarf_in={} switches={:06b} trips={}", with_names, producers_variants()[prod].0, dwarf_in, bits, trips),
                            wasm: wasm.clone(),
                            cfg: j,
                        });
                    }
                }
            }
        }
    }
    // modules without (live) code: the sections walrus generates itself must not depend on a code section
    for (shape, gc) in [("nocode", false), ("deadcode", true), ("deadcode", false)] {
        let wasm = build_codeless(shape);
        for bits in 0..64u32 {
            let cfg = Cfg { names: bits & 1 != 0, producers: bits & 2 != 0, dwarf: bits & 4 != 0, preserve_ct: bits & 8 != 0, stable: bits & 16 != 0, synthetic: bits & 32 != 0 };
            for trips in 1..=2usize {
                let mut j = cfg.json();
                j["trips"] = json!(trips);
                j["dwarf_input"] = json!(true);
                j["gc"] = json!(gc);
                cases.push(Case { family: "config".into(), coords: format!("codeless={} gc={} switches={:06b} trips={}", shape, gc, bits, trips), wasm: wasm.clone(), cfg: j });
            }
        }
    }
    ev.rule = "all 2^6 combinations of {name section, producers, DWARF, code-transform preservation, only-stable, synthetic names} x inputs {with/without name section} x \
        {5 producers variants} x {with/without DWARF} x {1,2,3} round trips, plus three code-less shapes (no function at all; one dead function, with and without gc) carrying data-only DWARF; section inventory + producers content + 'flipping one switch changes only its own section' (byte comparison of raw sections); \
        plus the configuration builder as a state machine: every sequence of setter calls (8 setters, 15 actions) up to length 3 (quick) / 4 (thorough) on two inputs, model = last write wins \
        (generate_dwarf(true) implies code-transform preservation), oracle = output byte-identical to the output under the canonical configuration of the model state, same accept/reject, callback count; \
        plus every public parsing entry point (ModuleConfig::parse / parse_file, Module::from_buffer_with_config / from_file_with_config, from_buffer / from_file) x 64 switch combinations x two inputs: same bytes, same accept/reject and same callback count as ModuleConfig::parse; \
        plus the parse callback counted on every prefix and 7 substitutions per byte of two seeds. non-trivial = every accepted case (each is a distinct configuration/input pair)"
        .into();
    ev.bounds = json!({"switch_combinations": 64, "inputs": 20, "round_trips": 3});
    ev.assumptions = vec![format!("walrus's version string is read from /repo/Cargo.toml ({})", version)];
    let mut viol = run_sweep(args, &mut ev, &cases, &|c| check_case(c, &version));
    let sc = setter_cases(args);
    ev.extra.insert("setter_sequences".into(), json!({"alphabet": 15, "max_length": if args.tier == Tier::Quick { 3 } else { 4 }, "sequences_x_inputs": sc.len()}));
    viol.extend(run_sweep(args, &mut ev, &sc, &check_setters));
    let ec = entry_cases();
    ev.extra.insert("entry_points".into(), json!({"entries": ENTRIES, "cases": ec.len()}));
    let verif = args.verif.clone();
    viol.extend(run_sweep(args, &mut ev, &ec, &|c| check_entry(c, &verif)));
    let (n, v) = callback_cases(&mut ev);
    ev.evaluations += n;
    ev.transitions += n;
    viol.extend(v);
    finish(args, ev, viol, &|c| recheck(c, &version))
}
