//! Product exploration of input vs output instances in node/V8 (DESIGN §3.5): the Rust side.
//! Builds shards of {spec, a.wasm, b.wasm}, runs up to 16 node processes on js/bisim.js and
//! turns the verdicts into violations.  Used by C01 (round trip), C06 (gc) and C18 (edits).

use crate::core::*;
use crate::pipe::*;
use serde_json::{json, Value};
use std::io::Write;
use std::process::{Command, Stdio};
use wmodel::{decode, Space, WModule, VT};

#[derive(Clone)]
pub struct Job {
    pub id: usize,
    pub spec: Value,
    pub a: Vec<u8>,
    pub b: Vec<u8>,
}

#[derive(Debug, Clone, Default)]
pub struct NodeResult {
    pub verdict: String,
    pub detail: String,
    pub states: u64,
    pub transitions: u64,
}

fn ty(t: &VT) -> &'static str {
    match t {
        VT::I32 => "i32",
        VT::I64 => "i64",
        VT::F32 => "f32",
        VT::F64 => "f64",
        VT::V128 => "v128",
        VT::FuncRef => "funcref",
        VT::ExternRef => "externref",
        VT::Other(_) => "other",
    }
}

/// the import/export interface of a module as the JS side needs it
pub fn spec_of(m: &WModule) -> Value {
    let imports: Vec<Value> = m
        .imports
        .iter()
        .map(|i| match &i.kind {
            wmodel::ImportKind::Func(t) => {
                let s = m.sig(*t).cloned().unwrap_or(wmodel::FuncSig { params: vec![], results: vec![] });
                json!({"module": i.module, "name": i.name, "kind": "func", "params": s.params.iter().map(ty).collect::<Vec<_>>(), "results": s.results.iter().map(ty).collect::<Vec<_>>()})
            }
            wmodel::ImportKind::Table(t) => json!({"module": i.module, "name": i.name, "kind": "table", "elem": ty(&t.elem), "min": t.lim.min, "max": t.lim.max, "is64": t.lim.is64}),
            wmodel::ImportKind::Memory(t) => json!({"module": i.module, "name": i.name, "kind": "memory", "min": t.lim.min, "max": t.lim.max, "shared": t.lim.shared, "is64": t.lim.is64}),
            wmodel::ImportKind::Global(t) => json!({"module": i.module, "name": i.name, "kind": "global", "ty": ty(&t.ty), "mutable": t.mutable}),
            wmodel::ImportKind::Tag(_) => json!({"module": i.module, "name": i.name, "kind": "tag"}),
        })
        .collect();
    let exports: Vec<Value> = m
        .exports
        .iter()
        .map(|e| match e.space {
            Space::Func => {
                let s = m.func_sig(e.index).cloned().unwrap_or(wmodel::FuncSig { params: vec![], results: vec![] });
                json!({"name": e.name, "kind": "func", "params": s.params.iter().map(ty).collect::<Vec<_>>(), "results": s.results.iter().map(ty).collect::<Vec<_>>()})
            }
            Space::Table => json!({"name": e.name, "kind": "table"}),
            Space::Mem => json!({"name": e.name, "kind": "memory"}),
            Space::Global => json!({"name": e.name, "kind": "global", "ty": m.globals.get(e.index as usize).map(|g| ty(&g.ty.ty)).unwrap_or("other")}),
            _ => json!({"name": e.name, "kind": "other"}),
        })
        .collect();
    json!({"imports": imports, "exports": exports})
}

pub fn node_available() -> bool {
    Command::new("node").arg("--version").stdout(Stdio::null()).stderr(Stdio::null()).status().map(|s| s.success()).unwrap_or(false)
}

/// Run all jobs through node; results are indexed like `jobs`.
pub fn run_node(args: &Args, tag: &str, jobs: &[Job]) -> Result<Vec<NodeResult>, String> {
    let dir = args.verif.join("work").join("bisim").join(tag);
    let _ = std::fs::remove_dir_all(&dir);
    std::fs::create_dir_all(&dir).map_err(|e| e.to_string())?;
    let nshards = args.threads.max(1).min(jobs.len().max(1));
    let mut files = vec![];
    for s in 0..nshards {
        let path = dir.join(format!("shard{}.bin", s));
        let mut f = std::io::BufWriter::new(std::fs::File::create(&path).map_err(|e| e.to_string())?);
        for (k, j) in jobs.iter().enumerate() {
            if k % nshards != s {
                continue;
            }
            let mut spec = j.spec.clone();
            spec["id"] = json!(k);
            let sj = spec.to_string().into_bytes();
            for part in [&sj[..], &j.a[..], &j.b[..]] {
                f.write_all(&(part.len() as u32).to_le_bytes()).map_err(|e| e.to_string())?;
                f.write_all(part).map_err(|e| e.to_string())?;
            }
        }
        f.flush().map_err(|e| e.to_string())?;
        files.push(path);
    }
    let script = args.verif.join("js").join("bisim.js");
    let out: std::sync::Mutex<Vec<NodeResult>> = std::sync::Mutex::new(vec![NodeResult { verdict: "missing".into(), ..Default::default() }; jobs.len()]);
    let errs: std::sync::Mutex<Vec<String>> = std::sync::Mutex::new(vec![]);
    // one supervising thread per shard: a case that produces no output for WATCHDOG seconds is
    // killed, recorded as a time-out (a machinery event, never a verdict) and the shard resumes
    // after it
    const WATCHDOG: u64 = 20;
    std::thread::scope(|sc| {
        for p in &files {
            let (out, errs, script) = (&out, &errs, &script);
            sc.spawn(move || {
                let mut from = 0usize; // position inside the shard
                let mut restarts = 0;
                loop {
                    let child = Command::new("node")
                        .arg("--experimental-wasm-memory64")
                        .arg("--experimental-wasm-relaxed-simd")
                        .arg("--stack-size=900")
                        .arg(script)
                        .arg(p)
                        .arg(from.to_string())
                        .stdout(Stdio::piped())
                        .stderr(Stdio::null())
                        .spawn();
                    let mut child = match child {
                        Ok(c) => c,
                        Err(e) => {
                            errs.lock().unwrap().push(format!("cannot start node: {}", e));
                            return;
                        }
                    };
                    let stdout = child.stdout.take().unwrap();
                    let (tx, rx) = std::sync::mpsc::channel::<String>();
                    let reader = std::thread::spawn(move || {
                        use std::io::BufRead;
                        for line in std::io::BufReader::new(stdout).lines() {
                            match line {
                                Ok(l) => {
                                    if tx.send(l).is_err() {
                                        break;
                                    }
                                }
                                Err(_) => break,
                            }
                        }
                    });
                    let mut current: Option<usize> = None;
                    let mut done_in_run = 0usize;
                    let mut hung = false;
                    loop {
                        match rx.recv_timeout(std::time::Duration::from_secs(WATCHDOG)) {
                            Ok(line) => {
                                if let Some(k) = line.strip_prefix("B ") {
                                    current = k.trim().parse().ok();
                                } else if let Ok(v) = serde_json::from_str::<Value>(&line) {
                                    if let Some(k) = v["case"].as_u64() {
                                        let mut o = out.lock().unwrap();
                                        if (k as usize) < o.len() {
                                            o[k as usize] = NodeResult {
                                                verdict: v["verdict"].as_str().unwrap_or("error").to_string(),
                                                detail: v["detail"].as_str().unwrap_or("").to_string(),
                                                states: v["states"].as_u64().unwrap_or(0),
                                                transitions: v["transitions"].as_u64().unwrap_or(0),
                                            };
                                        }
                                        done_in_run += 1;
                                        current = None;
                                    }
                                }
                            }
                            Err(std::sync::mpsc::RecvTimeoutError::Timeout) => {
                                hung = true;
                                let _ = child.kill();
                                break;
                            }
                            Err(std::sync::mpsc::RecvTimeoutError::Disconnected) => break,
                        }
                    }
                    let _ = child.wait();
                    let _ = reader.join();
                    if hung {
                        if let Some(k) = current {
                            let mut o = out.lock().unwrap();
                            if k < o.len() {
                                o[k] = NodeResult { verdict: "timeout".into(), detail: format!("no progress for {} s", WATCHDOG), ..Default::default() };
                            }
                        }
                        from += done_in_run + 1;
                        restarts += 1;
                        if restarts > 200 {
                            errs.lock().unwrap().push("too many watchdog restarts in one shard".into());
                            return;
                        }
                        continue;
                    }
                    return;
                }
            });
        }
    });
    let out = out.into_inner().unwrap();
    for e in errs.into_inner().unwrap() {
        eprintln!("bisim: {}", e);
    }
    let _ = std::fs::remove_dir_all(&dir);
    Ok(out)
}

/// classify a diff detail into a stable signature
pub fn diff_sig(detail: &str) -> String {
    let kind = if detail.starts_with("instantiation differs") {
        "instantiation"
    } else if detail.contains("host-call trace") {
        "host-trace"
    } else if detail.contains(": state ") || detail.starts_with("state after") {
        "state"
    } else if detail.starts_with("export lists differ") {
        "export-list"
    } else if detail.starts_with("output does not compile") {
        "output-does-not-compile"
    } else if detail.contains("trap:") {
        "trap"
    } else {
        "result"
    };
    format!("behaviour-differs:{}", kind)
}

// ---------------------------------------------------------------------------------------------

pub fn stateful_cases() -> Vec<Case> {
    wgen::stateful::stateful_modules().into_iter().map(|(n, w)| Case { family: "stateful".into(), coords: n.to_string(), wasm: w, cfg: json!({}) }).collect()
}

struct Planned {
    case: Case,
    mode: &'static str,
    depth: usize,
}

fn plan_c01(args: &Args, ev: &mut Ev) -> Vec<Planned> {
    let thorough = args.tier == Tier::Thorough;
    let mut v = vec![];
    for c in stateful_cases() {
        v.push(Planned { case: c, mode: "bfs", depth: if thorough { 5 } else { 3 } });
    }
    let ms = crate::props::families::members(&["fixtures", "funcs", "locals", "struct", "reach", "ctrl", "idshift", "minimal"], args, ev);
    for m in &ms {
        v.push(Planned { case: Case::of(m), mode: if m.family == "fixtures" { "bfs" } else { "batch" }, depth: 2 });
    }
    // bodies, batched 64 per module
    let alpha = wgen::body::alphabet();
    let (seqs, _) = crate::props::bodies::enumerate_all(crate::props::bodies::max_len(args), args.threads);
    ev.extra.insert("body_family".into(), json!({"alphabet": alpha.len(), "max_len": crate::props::bodies::max_len(args), "members": seqs.len(), "batch": 64}));
    for (bi, chunk) in seqs.chunks(64).enumerate() {
        let bodies: Vec<Vec<u8>> = chunk.iter().map(|s| wgen::body::body_bytes(&alpha, s)).collect();
        let wasm = wgen::body::scaffold(&bodies);
        let coords = format!("batch {} [{} .. {}]", bi, wgen::body::show(&alpha, &chunk[0]), wgen::body::show(&alpha, &chunk[chunk.len() - 1]));
        let seqs_json: Vec<Vec<u8>> = chunk.to_vec();
        v.push(Planned { case: Case { family: "body-batch".into(), coords, wasm, cfg: json!({"seqs": seqs_json}) }, mode: "batch", depth: 1 });
    }
    v
}

fn job_for(p: &Planned, do_gc: bool, full_values: bool, id: usize) -> Option<Job> {
    if wmodel::validate214(&p.case.wasm, wmodel::FeatureSet::DEFAULT).is_err() {
        return None;
    }
    let out = roundtrip(&p.case.wasm, &Cfg::default(), do_gc).ok()?;
    // an output the reference validator rejects is reported by the structural checks (C02/C06)
    if wmodel::validate214(&out, wmodel::FeatureSet::DEFAULT).is_err() {
        return None;
    }
    let a = decode(&p.case.wasm).ok()?;
    let mut spec = spec_of(&a);
    if do_gc {
        // gc may drop imports: the output side gets its own interface description
        let b = decode(&out).ok()?;
        spec["specB"] = spec_of(&b);
        spec["skip_if_input_fails"] = json!(true);
    }
    spec["mode"] = json!(p.mode);
    spec["depth"] = json!(p.depth);
    spec["full_values"] = json!(full_values);
    Some(Job { id, spec, a: p.case.wasm.clone(), b: out })
}

fn run_planned(prop: &'static str, args: &Args, ev: &mut Ev, planned: Vec<Planned>, do_gc: bool) -> Vec<Violation> {
    let mut viol = vec![];
    if !node_available() {
        ev.note("node is not available: the behavioural (bisim) part did not run; structural parts only");
        ev.exhaustive = false;
        return viol;
    }
    let full = args.tier == Tier::Thorough;
    if prop == "C01" {
        // "it instantiates against the same imports with the same outcome": an input that
        // validates (and so compiles) whose re-emitted binary does not validate cannot even be
        // compiled. C02 reports the same fact as a validity violation; for C01 it is a difference
        // in the outcome of instantiation
        let (bad, _) = pmap(&planned, args.threads, None, |p| -> Option<String> {
            if p.case.family == "body-batch" || wmodel::validate214(&p.case.wasm, wmodel::FeatureSet::DEFAULT).is_err() {
                return None;
            }
            let out = roundtrip(&p.case.wasm, &Cfg::default(), do_gc).ok()?;
            wmodel::validate214(&out, wmodel::FeatureSet::DEFAULT).err()
        });
        for (p, b) in planned.iter().zip(bad.into_iter()) {
            if let Some(Some(e)) = b {
                let mut c = p.case.clone();
                c.cfg = json!({"output_invalid": true, "gc": do_gc});
                viol.push(Violation::new(prop, format!("behaviour-differs:output-cannot-be-instantiated:{}", crate::props::validity::norm_verr(&e)), format!("the input validates, the re-emitted binary does not: {}", e), &c));
            }
        }
    }
    if prop == "C01" {
        let (bad, _) = pmap(&planned, args.threads, None, |p| -> Option<String> {
            if p.case.family == "body-batch" || wmodel::validate214(&p.case.wasm, wmodel::FeatureSet::DEFAULT).is_err() {
                return None;
            }
            file_output_differs(&p.case.wasm, do_gc, &args.verif)
        });
        let mut n = 0u64;
        for (p, b) in planned.iter().zip(bad.into_iter()) {
            if p.case.family != "body-batch" {
                n += 1;
            }
            if let Some(Some(d)) = b {
                let mut c = p.case.clone();
                c.cfg = json!({"via_file": true, "gc": do_gc});
                viol.push(Violation::new(prop, "behaviour-differs:module-written-to-file-is-not-the-emitted-module", d, &c));
            }
        }
        ev.extra.insert("file_entry_point".into(), json!({"modules_written_over_an_older_longer_build": n}));
    }
    let (jobs_opt, _) = pmap(&planned, args.threads, None, |p| job_for(p, do_gc, full, 0));
    let mut jobs = vec![];
    let mut owner = vec![];
    for (i, j) in jobs_opt.into_iter().enumerate() {
        if let Some(Some(j)) = j {
            jobs.push(j);
            owner.push(i);
        }
    }
    let res = match run_node(args, prop, &jobs) {
        Ok(r) => r,
        Err(e) => {
            ev.note(format!("bisim engine failure: {}", e));
            ev.exhaustive = false;
            return viol;
        }
    };
    let mut skipped = 0u64;
    let mut errors = 0u64;
    let mut second: Vec<Planned> = vec![];
    for (k, r) in res.iter().enumerate() {
        let p = &planned[owner[k]];
        ev.evaluations += 1;
        ev.states += r.states;
        ev.transitions += r.transitions;
        match r.verdict.as_str() {
            "ok" => {
                if r.states > 1 {
                    ev.nontrivial += 1;
                }
            }
            "skip" => skipped += 1,
            "diff" => {
                if p.case.family == "body-batch" {
                    // re-run body by body
                    let alpha = wgen::body::alphabet();
                    if let Some(seqs) = p.case.cfg["seqs"].as_array() {
                        for s in seqs {
                            let seq: Vec<u8> = s.as_array().map(|a| a.iter().map(|x| x.as_u64().unwrap_or(0) as u8).collect()).unwrap_or_default();
                            second.push(Planned {
                                case: Case { family: "body".into(), coords: wgen::body::show(&alpha, &seq), wasm: wgen::body::scaffold(&[wgen::body::body_bytes(&alpha, &seq)]), cfg: json!({}) },
                                mode: "batch",
                                depth: 1,
                            });
                        }
                    }
                } else {
                    let mut c = p.case.clone();
                    c.cfg = json!({"bisim": true, "mode": p.mode, "depth": p.depth, "gc": do_gc});
                    viol.push(Violation::new(prop, diff_sig(&r.detail), r.detail.clone(), &c));
                }
            }
            _ => {
                errors += 1;
                ev.note(format!("bisim machinery event on {}:{}: {} {}", p.case.family, p.case.coords, r.verdict, r.detail));
            }
        }
    }
    if !second.is_empty() {
        let (jobs2, _) = pmap(&second, args.threads, None, |p| job_for(p, do_gc, full, 0));
        let mut jobs = vec![];
        let mut own = vec![];
        for (i, j) in jobs2.into_iter().enumerate() {
            if let Some(Some(j)) = j {
                jobs.push(j);
                own.push(i);
            }
        }
        if let Ok(res2) = run_node(args, &format!("{}-second", prop), &jobs) {
            let mut any = false;
            for (k, r) in res2.iter().enumerate() {
                ev.transitions += r.transitions;
                if r.verdict == "diff" {
                    any = true;
                    let mut c = second[own[k]].case.clone();
                    c.cfg = json!({"bisim": true, "mode": "batch", "depth": 1, "gc": do_gc});
                    viol.push(Violation::new(prop, diff_sig(&r.detail), r.detail.clone(), &c));
                }
            }
            if !any {
                ev.note("a batched body module differed but no single body did: difference needs the batch context (reported as machinery note, batch kept in work/)");
            }
        }
    }
    ev.extra.insert("bisim".into(), json!({"cases_run_in_v8": res.len(), "exec_skipped": skipped, "machinery_events": errors}));
    viol
}

/// the module as a user gets it on disk: `emit_wasm_file` onto a path that already holds an older,
/// longer build. What is instantiated later is the file, so it has to be the module `emit_wasm` returns.
pub fn file_output_differs(wasm: &[u8], do_gc: bool, verif: &std::path::Path) -> Option<String> {
    let mut m = crate::pipe::parse(wasm, &Cfg::default()).ok()?;
    if do_gc {
        crate::pipe::gc(&mut m).ok()?;
    }
    let dir = verif.join("work").join("bisim");
    let _ = std::fs::create_dir_all(&dir);
    static SERIAL: std::sync::atomic::AtomicUsize = std::sync::atomic::AtomicUsize::new(0);
    let path = dir.join(format!("file-{}-{}.wasm", std::process::id(), SERIAL.fetch_add(1, std::sync::atomic::Ordering::SeqCst)));
    // the older build: the input itself followed by a custom section that makes it longer than any output
    let mut old = wasm.to_vec();
    old.push(0);
    old.extend_from_slice(&[0x90, 0x4e]); // 10 000 bytes
    old.push(3);
    old.extend_from_slice(b"old");
    old.extend(std::iter::repeat(0x5a).take(10_000 - 4));
    std::fs::write(&path, &old).ok()?;
    let r = std::panic::catch_unwind(std::panic::AssertUnwindSafe(|| m.emit_wasm_file(&path).map(|_| m.emit_wasm())));
    let on_disk = std::fs::read(&path).unwrap_or_default();
    let _ = std::fs::remove_file(&path);
    match r {
        Ok(Ok(mem)) if mem != on_disk => Some(format!(
            "emit_wasm_file onto a path holding an older build of {} bytes left {} bytes on disk; the module is {} bytes ({})",
            old.len(),
            on_disk.len(),
            mem.len(),
            if wmodel::validate214(&on_disk, wmodel::FeatureSet::DEFAULT).is_ok() { "the file still validates: another module" } else { "the file does not validate" }
        )),
        _ => None,
    }
}

pub fn recheck(prop: &'static str, c: &Case) -> Vec<Violation> {
    let args = Args {
        id: prop.to_string(),
        tier: Tier::Thorough,
        seed: 0,
        repo: "/repo".into(),
        verif: std::env::var("WCHECK_VERIF").map(Into::into).unwrap_or_else(|_| "/verif".into()),
        replay: None,
        threads: 1,
        budget_s: 60.0,
    };
    let do_gc = c.cfg.get("gc").and_then(|x| x.as_bool()).unwrap_or(false);
    if c.cfg.get("via_file").is_some() {
        return match file_output_differs(&c.wasm, do_gc, &args.verif) {
            Some(d) => vec![Violation::new(prop, "behaviour-differs:module-written-to-file-is-not-the-emitted-module", d, c)],
            None => vec![],
        };
    }
    if c.cfg.get("output_invalid").is_some() {
        if let Ok(out) = roundtrip(&c.wasm, &Cfg::default(), do_gc) {
            if let Err(e) = wmodel::validate214(&out, wmodel::FeatureSet::DEFAULT) {
                return vec![Violation::new(prop, format!("behaviour-differs:output-cannot-be-instantiated:{}", crate::props::validity::norm_verr(&e)), e, c)];
            }
        }
        return vec![];
    }
    let mode = if c.cfg.get("mode").and_then(|x| x.as_str()) == Some("bfs") { "bfs" } else { "batch" };
    let depth = c.cfg.get("depth").and_then(|x| x.as_u64()).unwrap_or(2) as usize;
    let p = Planned { case: c.clone(), mode, depth };
    let job = match job_for(&p, do_gc, true, 0) {
        Some(j) => j,
        None => return vec![],
    };
    match run_node(&args, &format!("{}-replay-{}", prop, std::process::id()), &[job]) {
        Ok(r) if r[0].verdict == "diff" => vec![Violation::new(prop, diff_sig(&r[0].detail), r[0].detail.clone(), c)],
        _ => vec![],
    }
}

pub fn run_gc(args: &Args, ev: &mut Ev, cases: &[Case]) -> Vec<Violation> {
    let planned: Vec<Planned> = cases
        .iter()
        .map(|c| Planned { case: c.clone(), mode: if c.family == "stateful" || c.family == "fixtures" { "bfs" } else { "batch" }, depth: if args.tier == Tier::Quick { 2 } else { 3 } })
        .collect();
    run_planned("C06", args, ev, planned, true)
}

pub fn run_c01(args: &Args) -> i32 {
    let mut ev = Ev::new("C01");
    if let Some(p) = &args.replay {
        let (case, _) = match read_replay(p) {
            Ok(x) => x,
            Err(e) => {
                eprintln!("MACHINERY: {}", e);
                return 2;
            }
        };
        ev.evaluations = 1;
        let v = recheck("C01", &case);
        return finish(args, ev, v, &|c| recheck("C01", c));
    }
    let planned = plan_c01(args, &mut ev);
    for i in [0usize, planned.len() / 2, planned.len() - 1] {
        ev.sample(json!({"family": planned[i].case.family, "coords": planned[i].case.coords, "mode": planned[i].mode, "depth": planned[i].depth}));
    }
    let viol = run_planned("C01", args, &mut ev, planned, false);
    ev.rule = "for every member (stateful modules, fixtures, funcs, locals, struct, reach, and every valid body of the body family batched 64 per module): the input and the bytes walrus re-emits are \
        instantiated in V8 against identical deterministic hosts; breadth-first search over call sequences (stateful/fixtures; re-instantiate + replay, de-duplicated on the product digest) or one long \
        deterministic history over all exports x all argument vectors (batches); after every transition results / trap class / host-call trace / exported+imported state digest must agree. \
        states = distinct product digests; non-trivial = cases that reached more than one state"
        .into();
    ev.bounds = json!({"tier": args.tier.s(), "bfs_depth_stateful": if args.tier == Tier::Quick { 3 } else { 5 }, "values_per_type": 4});
    ev.assumptions = vec![
        "V8 (node 20) is the execution oracle; modules it cannot compile (multi-memory, 64-bit tables) are exec_skipped and covered structurally by C03/C04".into(),
        "NaN payloads of float results are not observable from JS".into(),
    ];
    finish(args, ev, viol, &|c| recheck("C01", c))
}
