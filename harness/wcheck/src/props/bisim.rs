use crate::core::*;
pub fn recheck(_p: &'static str, _c: &Case) -> Vec<Violation> { vec![] }
pub fn stateful_cases() -> Vec<Case> { vec![] }
pub fn run_gc(_args: &Args, _ev: &mut Ev, _cases: &[Case]) -> Vec<Violation> { vec![] }
