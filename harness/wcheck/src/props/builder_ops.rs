//! C15 supplement: the builder-side operand census.  For every instruction the builder API
//! exposes that names module entities, and every assignment of its operands over two entities
//! per index space (memories, tables, globals, functions, passive data and element segments, two
//! function types), a module is assembled from scratch through the public API, emitted, decoded
//! with wasmparser 0.259, and the emitted instruction's immediates must denote exactly the
//! entities the builder was given (entities are recognised by their export names, segments by
//! their contents).  "Same instructions" for operands, where the structural exploration in
//! builder.rs uses locals and branch depths only.

use crate::core::*;
use serde_json::json;
use std::panic::{catch_unwind, AssertUnwindSafe};
use walrus::ir::*;
use walrus::*;
use wmodel::{Imm, Space};

pub const KINDS: [&str; 21] = [
    "memory.copy", "memory.fill", "memory.init", "data.drop", "memory.size", "memory.grow", "load", "store", "table.copy", "table.init", "elem.drop", "table.size", "table.get", "table.set", "table.grow",
    "table.fill", "global.get", "global.set", "call", "ref.func", "call_indirect",
];

/// number of entity operands of a kind
fn arity(kind: &str) -> usize {
    match kind {
        "memory.copy" | "memory.init" | "table.copy" | "table.init" | "call_indirect" => 2,
        _ => 1,
    }
}

struct Built {
    wasm: Vec<u8>,
}

fn build(kind: &str, a: usize, b: usize, order: u8) -> Built {
    let mut m = Module::default();
    // creation order of the two entities of each space: `order` 1 creates #1 first, so that arena
    // order and emitted order need not coincide with the names
    let pick = |i: usize| if order == 1 { 1 - i } else { i };
    let mut mems = [None, None];
    let mut tabs = [None, None];
    let mut globs = [None, None];
    let mut datas = [None, None];
    for k in 0..2 {
        let i = pick(k);
        mems[i] = Some(m.memories.add_local(false, false, 1 + i as u64, None, None));
        tabs[i] = Some(m.tables.add_local(false, 3 + i as u64, None, RefType::Funcref));
        globs[i] = Some(m.globals.add_local(ValType::I32, true, false, ConstExpr::Value(Value::I32(100 + i as i32))));
        datas[i] = Some(m.data.add(DataKind::Passive, vec![0xd0 + i as u8; 1 + i]));
    }
    let mems = [mems[0].unwrap(), mems[1].unwrap()];
    let tabs = [tabs[0].unwrap(), tabs[1].unwrap()];
    let globs = [globs[0].unwrap(), globs[1].unwrap()];
    let datas = [datas[0].unwrap(), datas[1].unwrap()];
    let mut funcs = vec![];
    for k in 0..2 {
        let mut fb = FunctionBuilder::new(&mut m.types, &[], &[]);
        fb.func_body().i32_const(500 + k).drop();
        funcs.push(fb.finish(vec![], &mut m.funcs));
    }
    let elems = [
        m.elements.add(ElementKind::Passive, ElementItems::Functions(vec![funcs[0]])),
        m.elements.add(ElementKind::Passive, ElementItems::Functions(vec![funcs[1], funcs[1]])),
    ];
    let tys = [m.types.add(&[], &[]), m.types.add(&[], &[ValType::I32])];
    for i in 0..2 {
        m.exports.add(&format!("m{}", i), mems[i]);
        m.exports.add(&format!("t{}", i), tabs[i]);
        m.exports.add(&format!("g{}", i), globs[i]);
        m.exports.add(&format!("f{}", i), funcs[i]);
    }
    let mut fb = FunctionBuilder::new(&mut m.types, &[], &[]);
    {
        let mut s = fb.func_body();
        s.i32_const(777).drop();
        let arg = MemArg { align: 4, offset: 0 };
        match kind {
            "memory.copy" => {
                s.i32_const(0).i32_const(0).i32_const(0).memory_copy(mems[a], mems[b]);
            }
            "memory.fill" => {
                s.i32_const(0).i32_const(0).i32_const(0).memory_fill(mems[a]);
            }
            "memory.init" => {
                s.i32_const(0).i32_const(0).i32_const(0).memory_init(mems[a], datas[b]);
            }
            "data.drop" => {
                s.data_drop(datas[a]);
            }
            "memory.size" => {
                s.memory_size(mems[a]).drop();
            }
            "memory.grow" => {
                s.i32_const(0).memory_grow(mems[a]).drop();
            }
            "load" => {
                s.i32_const(0).load(mems[a], LoadKind::I32 { atomic: false }, arg).drop();
            }
            "store" => {
                s.i32_const(0).i32_const(0).store(mems[a], StoreKind::I32 { atomic: false }, arg);
            }
            "table.copy" => {
                s.i32_const(0).i32_const(0).i32_const(0).table_copy(tabs[a], tabs[b]);
            }
            "table.init" => {
                s.i32_const(0).i32_const(0).i32_const(0).table_init(tabs[a], elems[b]);
            }
            "elem.drop" => {
                s.elem_drop(elems[a]);
            }
            "table.size" => {
                s.table_size(tabs[a]).drop();
            }
            "table.get" => {
                s.i32_const(0).table_get(tabs[a]).drop();
            }
            "table.set" => {
                s.i32_const(0).ref_null(RefType::Funcref).table_set(tabs[a]);
            }
            "table.grow" => {
                s.ref_null(RefType::Funcref).i32_const(0).table_grow(tabs[a]).drop();
            }
            "table.fill" => {
                s.i32_const(0).ref_null(RefType::Funcref).i32_const(0).table_fill(tabs[a]);
            }
            "global.get" => {
                s.global_get(globs[a]).drop();
            }
            "global.set" => {
                s.i32_const(1).global_set(globs[a]);
            }
            "call" => {
                s.call(funcs[a]);
            }
            "ref.func" => {
                s.ref_func(funcs[a]).drop();
            }
            _ => {
                // call_indirect (type a, table b); the type with a result needs a drop
                s.i32_const(0).call_indirect(tys[a], tabs[b]);
                if a == 1 {
                    s.drop();
                }
            }
        }
    }
    let subject = fb.finish(vec![], &mut m.funcs);
    m.exports.add("subject", subject);
    Built { wasm: m.emit_wasm() }
}

fn coords_of(c: &Case) -> (String, usize, usize, u8) {
    (
        c.cfg["kind"].as_str().unwrap_or("").to_string(),
        c.cfg["a"].as_u64().unwrap_or(0) as usize,
        c.cfg["b"].as_u64().unwrap_or(0) as usize,
        c.cfg["order"].as_u64().unwrap_or(0) as u8,
    )
}

pub fn check_case(c: &Case) -> Vec<Violation> {
    let (kind, a, b, order) = coords_of(c);
    let mut v = vec![];
    let built = match catch_unwind(AssertUnwindSafe(|| build(&kind, a, b, order))) {
        Ok(x) => x,
        Err(p) => {
            v.push(Violation::new("C15", format!("builder-census-panic:{}", crate::pipe::norm_panic(&panic_msg(p))), format!("building / emitting {} ({}, {}) panicked", kind, a, b), c));
            return v;
        }
    };
    if let Err(e) = wmodel::validate214(&built.wasm, wmodel::FeatureSet::DEFAULT) {
        v.push(Violation::new("C15", format!("builder-census-invalid:{}", kind), format!("{} ({}, {}): the emitted module does not validate: {}", kind, a, b, e), c));
        return v;
    }
    let w = match wmodel::decode(&built.wasm) {
        Ok(w) => w,
        Err(_) => return v,
    };
    let exp = |name: &str, sp: Space| w.exports.iter().find(|e| e.name == name && e.space == sp).map(|e| e.index);
    let subj = match exp("subject", Space::Func).and_then(|i| w.funcs.get(i as usize)).and_then(|f| f.body.as_ref()) {
        Some(b) => b,
        None => {
            v.push(Violation::new("C15", "builder-census-subject-lost", "the exported subject function is missing", c));
            return v;
        }
    };
    // the one operator that is neither scaffolding nor a constant
    let scaffolding = ["I32Const", "Drop", "End", "RefNull"];
    let ops: Vec<&wmodel::Op> = subj.ops.iter().map(|(o, _)| o).filter(|o| !scaffolding.contains(&o.name)).collect();
    if ops.len() != 1 {
        v.push(Violation::new("C15", format!("builder-census-shape:{}", kind), format!("{}: expected one instruction besides the scaffolding, found {:?}", kind, ops.iter().map(|o| o.show()).collect::<Vec<_>>()), c));
        return v;
    }
    let op = ops[0];
    let mem = |i: usize| exp(&format!("m{}", i), Space::Mem);
    let tab = |i: usize| exp(&format!("t{}", i), Space::Table);
    let glob = |i: usize| exp(&format!("g{}", i), Space::Global);
    let func = |i: usize| exp(&format!("f{}", i), Space::Func);
    let data = |i: usize| w.datas.iter().position(|d| d.payload == vec![0xd0 + i as u8; 1 + i]).map(|x| x as u32);
    let elem = |i: usize| {
        let want: Vec<wmodel::iso::Item> = (0..=i).map(|_| wmodel::iso::Item::Func(func(i).unwrap_or(u32::MAX))).collect();
        w.elems.iter().position(|e| wmodel::iso::norm_items(&e.items) == want).map(|x| x as u32)
    };
    let ty = |i: usize| {
        let want = if i == 0 { wmodel::FuncSig { params: vec![], results: vec![] } } else { wmodel::FuncSig { params: vec![], results: vec![wmodel::VT::I32] } };
        w.types.iter().position(|t| t.as_ref() == Some(&want)).map(|x| x as u32)
    };
    // expected (name, immediates) in wasmparser's field order
    let (want_name, want): (&str, Vec<Option<Imm>>) = match kind.as_str() {
        "memory.copy" => ("MemoryCopy", vec![mem(b).map(Imm::Mem), mem(a).map(Imm::Mem)]),
        "memory.fill" => ("MemoryFill", vec![mem(a).map(Imm::Mem)]),
        "memory.init" => ("MemoryInit", vec![data(b).map(Imm::Data), mem(a).map(Imm::Mem)]),
        "data.drop" => ("DataDrop", vec![data(a).map(Imm::Data)]),
        "memory.size" => ("MemorySize", vec![mem(a).map(Imm::Mem)]),
        "memory.grow" => ("MemoryGrow", vec![mem(a).map(Imm::Mem)]),
        "load" => ("I32Load", vec![mem(a).map(|m| Imm::MemArg { align: 2, offset: 0, memory: m })]),
        "store" => ("I32Store", vec![mem(a).map(|m| Imm::MemArg { align: 2, offset: 0, memory: m })]),
        "table.copy" => ("TableCopy", vec![tab(b).map(Imm::Table), tab(a).map(Imm::Table)]),
        "table.init" => ("TableInit", vec![elem(b).map(Imm::Elem), tab(a).map(Imm::Table)]),
        "elem.drop" => ("ElemDrop", vec![elem(a).map(Imm::Elem)]),
        "table.size" => ("TableSize", vec![tab(a).map(Imm::Table)]),
        "table.get" => ("TableGet", vec![tab(a).map(Imm::Table)]),
        "table.set" => ("TableSet", vec![tab(a).map(Imm::Table)]),
        "table.grow" => ("TableGrow", vec![tab(a).map(Imm::Table)]),
        "table.fill" => ("TableFill", vec![tab(a).map(Imm::Table)]),
        "global.get" => ("GlobalGet", vec![glob(a).map(Imm::Global)]),
        "global.set" => ("GlobalSet", vec![glob(a).map(Imm::Global)]),
        "call" => ("Call", vec![func(a).map(Imm::Func)]),
        "ref.func" => ("RefFunc", vec![func(a).map(Imm::Func)]),
        _ => ("CallIndirect", vec![ty(a).map(Imm::Type), tab(b).map(Imm::Table)]),
    };
    if want.iter().any(|x| x.is_none()) {
        v.push(Violation::new("C15", format!("builder-census-entity-lost:{}", kind), format!("{} ({}, {}): an entity the instruction names is missing from the emitted module", kind, a, b), c));
        return v;
    }
    let want: Vec<Imm> = want.into_iter().flatten().collect();
    if op.name != want_name || op.imms != want {
        v.push(Violation::new(
            "C15",
            format!("builder-census-operand-wrong:{}", kind),
            format!("built {} with operands #{} and #{}: expected {} {:?} in the emitted body, found {}", kind, a, b, want_name, want, op.show()),
            c,
        ));
    }
    v
}

const LOCAL_TYPES: [ValType; 7] = [ValType::I32, ValType::I64, ValType::F32, ValType::F64, ValType::V128, ValType::Ref(RefType::Funcref), ValType::Ref(RefType::Externref)];

/// a function with one non-parameter local per entry of `tys` (indices into LOCAL_TYPES), each
/// written with a value of its own type and read back; `params` leading parameters of type i64
fn build_locals(tys: &[usize], params: usize) -> Vec<u8> {
    let mut m = Module::default();
    let ptys: Vec<ValType> = (0..params).map(|_| ValType::I64).collect();
    let args: Vec<LocalId> = ptys.iter().map(|t| m.locals.add(*t)).collect();
    let locals: Vec<(LocalId, ValType)> = tys.iter().map(|i| (m.locals.add(LOCAL_TYPES[*i]), LOCAL_TYPES[*i])).collect();
    let mut fb = FunctionBuilder::new(&mut m.types, &ptys, &[]);
    {
        let mut s = fb.func_body();
        // written in reverse creation order, so that first use and creation order differ
        for (l, t) in locals.iter().rev() {
            match t {
                ValType::I32 => s.i32_const(1),
                ValType::I64 => s.i64_const(2),
                ValType::F32 => s.f32_const(3.0),
                ValType::F64 => s.f64_const(4.0),
                ValType::V128 => s.const_(Value::V128(5)),
                ValType::Ref(r) => s.ref_null(*r),
            };
            s.local_set(*l).local_get(*l).drop();
        }
        for a in &args {
            s.local_get(*a).drop();
        }
    }
    let f = fb.finish(args, &mut m.funcs);
    m.exports.add("subject", f);
    m.emit_wasm()
}

pub fn check_locals_case(c: &Case) -> Vec<Violation> {
    let tys: Vec<usize> = c.cfg["local_types"].as_array().map(|a| a.iter().filter_map(|x| x.as_u64()).map(|x| x as usize).collect()).unwrap_or_default();
    let params = c.cfg["params"].as_u64().unwrap_or(0) as usize;
    let mut v = vec![];
    let wasm = match catch_unwind(AssertUnwindSafe(|| build_locals(&tys, params))) {
        Ok(x) => x,
        Err(p) => {
            v.push(Violation::new("C15", format!("builder-locals-panic:{}", crate::pipe::norm_panic(&panic_msg(p))), format!("building / emitting locals {:?} panicked", tys), c));
            return v;
        }
    };
    if let Err(e) = wmodel::validate214(&wasm, wmodel::FeatureSet::DEFAULT) {
        v.push(Violation::new("C15", "builder-locals-slot-type-wrong", format!("locals of types {:?} (+{} parameters), each written and read with its own type: the emitted module does not validate: {}", tys.iter().map(|i| format!("{:?}", LOCAL_TYPES[*i])).collect::<Vec<_>>(), params, e), c));
        return v;
    }
    // one slot per local, parameters first
    if let Ok(w) = wmodel::decode(&wasm) {
        if let Some(b) = w.exports.iter().find(|e| e.name == "subject").and_then(|e| w.funcs.get(e.index as usize)).and_then(|f| f.body.as_ref()) {
            if b.locals.len() != tys.len() {
                v.push(Violation::new("C15", "builder-locals-slot-count", format!("{} used locals, {} declared slots", tys.len(), b.locals.len()), c));
            }
        }
    }
    v
}

pub fn locals_cases() -> Vec<Case> {
    let mut out = vec![];
    let n = LOCAL_TYPES.len();
    for len in 1..=3usize {
        for code in 0..n.pow(len as u32) {
            let mut c = code;
            let tys: Vec<usize> = (0..len).map(|_| { let t = c % n; c /= n; t }).collect();
            for params in [0usize, 2] {
                out.push(Case { family: "builder-locals".into(), coords: format!("types={:?} params={}", tys, params), wasm: vec![], cfg: json!({"locals_census": true, "local_types": tys, "params": params}) });
            }
        }
    }
    out
}

// ---- block-type census --------------------------------------------------------------------
// every (params, results) over small type lists x {block, loop, if/else}, the sequence type made
// through the public constructor `InstrSeqType::new`: the emitted construct must carry exactly
// that signature (inline forms where the binary format has them, a type index otherwise)

const BT_LISTS: [&[ValType]; 4] = [&[], &[ValType::I32], &[ValType::I64, ValType::I32], &[ValType::F32]];

fn push_consts(s: &mut InstrSeqBuilder, tys: &[ValType]) {
    for t in tys {
        match t {
            ValType::I32 => s.i32_const(1),
            ValType::I64 => s.i64_const(2),
            ValType::F32 => s.f32_const(3.0),
            _ => s.f64_const(4.0),
        };
    }
}

fn build_block_type(pi: usize, ri: usize, kind: u8) -> Vec<u8> {
    let (params, results) = (BT_LISTS[pi], BT_LISTS[ri]);
    let mut m = Module::default();
    let mut fb = FunctionBuilder::new(&mut m.types, &[], &[]);
    let bt = InstrSeqType::new(&mut m.types, params, results);
    {
        let mut s = fb.func_body();
        s.i32_const(777).drop();
        push_consts(&mut s, params);
        let inner = |b: &mut InstrSeqBuilder| {
            for _ in params {
                b.drop();
            }
            push_consts(b, results);
        };
        match kind {
            0 => {
                s.block(bt, inner);
            }
            1 => {
                s.loop_(bt, inner);
            }
            _ => {
                s.i32_const(1).if_else(bt, inner, inner);
            }
        }
        for _ in results {
            s.drop();
        }
    }
    let f = fb.finish(vec![], &mut m.funcs);
    m.exports.add("subject", f);
    m.emit_wasm()
}

fn vt_of(t: &ValType) -> wmodel::VT {
    match t {
        ValType::I32 => wmodel::VT::I32,
        ValType::I64 => wmodel::VT::I64,
        ValType::F32 => wmodel::VT::F32,
        _ => wmodel::VT::F64,
    }
}

pub fn check_block_type_case(c: &Case) -> Vec<Violation> {
    let (pi, ri, kind) = (c.cfg["params"].as_u64().unwrap_or(0) as usize, c.cfg["results"].as_u64().unwrap_or(0) as usize, c.cfg["kind"].as_u64().unwrap_or(0) as u8);
    let mut v = vec![];
    let wasm = match catch_unwind(AssertUnwindSafe(|| build_block_type(pi, ri, kind))) {
        Ok(x) => x,
        Err(p) => {
            v.push(Violation::new("C15", format!("builder-block-type-panic:{}", crate::pipe::norm_panic(&panic_msg(p))), format!("building / emitting a construct of type {:?} -> {:?} panicked", BT_LISTS[pi], BT_LISTS[ri]), c));
            return v;
        }
    };
    let want = wmodel::FuncSig { params: BT_LISTS[pi].iter().map(vt_of).collect(), results: BT_LISTS[ri].iter().map(vt_of).collect() };
    let w = match wmodel::decode(&wasm) {
        Ok(w) => w,
        Err(_) => return v,
    };
    let body = match w.exports.iter().find(|e| e.name == "subject").and_then(|e| w.funcs.get(e.index as usize)).and_then(|f| f.body.as_ref()) {
        Some(b) => b,
        None => return v,
    };
    let op = body.ops.iter().map(|(o, _)| o).find(|o| matches!(o.name, "Block" | "Loop" | "If"));
    let got = match op.and_then(|o| o.imms.first()) {
        Some(Imm::Block(wmodel::BlockTy::Empty)) => Some(wmodel::FuncSig { params: vec![], results: vec![] }),
        Some(Imm::Block(wmodel::BlockTy::Val(t))) => Some(wmodel::FuncSig { params: vec![], results: vec![t.clone()] }),
        Some(Imm::Block(wmodel::BlockTy::Func(i))) => w.types.get(*i as usize).cloned().flatten(),
        _ => None,
    };
    if got.as_ref() != Some(&want) {
        v.push(Violation::new("C15", "builder-block-type-wrong", format!("construct built with sequence type {:?}: the emitted construct has signature {:?}", want, got), c));
    } else if let Err(e) = wmodel::validate214(&wasm, wmodel::FeatureSet::DEFAULT) {
        v.push(Violation::new("C15", "builder-block-type-invalid", format!("construct of type {:?}: the emitted module does not validate: {}", want, e), c));
    }
    v
}

pub fn block_type_cases() -> Vec<Case> {
    let mut out = vec![];
    for pi in 0..BT_LISTS.len() {
        for ri in 0..BT_LISTS.len() {
            for kind in 0..3u8 {
                out.push(Case { family: "builder-block-types".into(), coords: format!("{:?} -> {:?} kind={}", BT_LISTS[pi], BT_LISTS[ri], kind), wasm: vec![], cfg: json!({"block_type_census": true, "params": pi, "results": ri, "kind": kind}) });
            }
        }
    }
    out
}

pub fn cases() -> Vec<Case> {
    let mut out = vec![];
    for kind in KINDS {
        for order in 0..2u8 {
            for a in 0..2usize {
                for b in 0..(if arity(kind) == 2 { 2 } else { 1 }) {
                    out.push(Case { family: "builder-census".into(), coords: format!("{} a={} b={} order={}", kind, a, b, order), wasm: vec![], cfg: json!({"census": true, "kind": kind, "a": a, "b": b, "order": order}) });
                }
            }
        }
    }
    out
}


// ---- operator-name census -------------------------------------------------------------------
// walrus spells its UnaryOp / BinaryOp variants after the wasm operators they stand for. For every
// unary / binary operator of the census: parse its one-operator module, read the variant walrus chose
// (the variant name is a channel independent of the opcode tables), then build a function around that
// variant through `unop` / `binop`, emit it and decode the opcode: the operator that comes out must be
// the one the variant is named after. A parser and an emitter that agree with each other on a wrong
// opcode <-> variant pairing pass every round trip, but not this.

/// the operator name wasmparser uses for a walrus variant name
pub fn wasm_name_of(variant: &str) -> String {
    norm_variant(variant)
}

fn norm_variant(v: &str) -> String {
    // lane operators carry their lane: `I8x16ExtractLaneS { idx: 0 }`
    let v = v.split(' ').next().unwrap_or(v);
    // the SIMD proposal renamed widen_* to extend_* after walrus named its variants
    let s = v.replace("Widen", "Extend");
    // scalar conversions were named before the sign moved to the end of the mnemonic:
    // F32ConvertSI32 = f32.convert_i32_s, I32TruncSSatF32 = i32.trunc_sat_f32_s, I64ExtendUI32 = i64.extend_i32_u
    for head in ["F32Convert", "F64Convert", "I32Trunc", "I64Trunc", "I64Extend"] {
        if let Some(rest) = s.strip_prefix(head) {
            for sign in ["S", "U"] {
                if let Some(r2) = rest.strip_prefix(sign) {
                    let (sat, src) = match r2.strip_prefix("Sat") {
                        Some(x) => ("Sat", x),
                        None => ("", r2),
                    };
                    if ["I32", "I64", "F32", "F64"].contains(&src) {
                        return format!("{}{}{}{}", head, sat, src, sign);
                    }
                }
            }
        }
    }
    s
}

pub fn op_name_cases(census: &[Case]) -> Vec<Case> {
    census
        .iter()
        .filter(|c| c.family == "opcensus")
        .filter_map(|c| {
            let m = crate::pipe::parse(&c.wasm, &crate::pipe::Cfg::default()).ok()?;
            let (_, f) = m.funcs.iter_local().max_by_key(|(_, f)| f.block(f.entry_block()).instrs.len())?;
            let has = f.block(f.entry_block()).instrs.iter().any(|(i, _)| matches!(i, walrus::ir::Instr::Unop(_) | walrus::ir::Instr::Binop(_)));
            if !has {
                return None;
            }
            let mut c2 = c.clone();
            c2.family = "op-names".into();
            c2.cfg = json!({"op_names": true, "wasm_op": c.coords.split(' ').next().unwrap_or("")});
            Some(c2)
        })
        .collect()
}

pub fn check_op_name_case(c: &Case) -> Vec<Violation> {
    let mut v = vec![];
    let want = c.cfg["wasm_op"].as_str().unwrap_or("").to_string();
    let m = match crate::pipe::parse(&c.wasm, &crate::pipe::Cfg::default()) {
        Ok(m) => m,
        Err(_) => return v,
    };
    let f = match m.funcs.iter_local().max_by_key(|(_, f)| f.block(f.entry_block()).instrs.len()) {
        Some((_, f)) => f,
        None => return v,
    };
    let found = f.block(f.entry_block()).instrs.iter().find_map(|(i, _)| match i {
        walrus::ir::Instr::Unop(u) => Some((format!("{:?}", u.op), Some(u.op), None)),
        walrus::ir::Instr::Binop(b) => Some((format!("{:?}", b.op), None, Some(b.op))),
        _ => None,
    });
    let (variant, un, bin) = match found {
        Some(x) => x,
        None => return v,
    };
    if norm_variant(&variant) != want {
        v.push(Violation::new("C15", format!("op-variant-misnamed:{}", want), format!("the operator {} is parsed into the variant {}, which stands for {}", want, variant, norm_variant(&variant)), c));
    }
    // through the builder
    let built = catch_unwind(AssertUnwindSafe(|| {
        let mut m = Module::default();
        let mut b = FunctionBuilder::new(&mut m.types, &[], &[]);
        {
            let mut body = b.func_body();
            body.unreachable();
            if let Some(u) = un {
                body.unop(u);
            }
            if let Some(bo) = bin {
                body.binop(bo);
            }
        }
        let fid = b.finish(vec![], &mut m.funcs);
        m.exports.add("subject", fid);
        m.emit_wasm()
    }));
    let wasm = match built {
        Ok(w) => w,
        Err(p) => {
            v.push(Violation::new("C15", format!("builder-census-panic:{}", crate::pipe::norm_panic(&panic_msg(p))), format!("building / emitting {} panicked", variant), c));
            return v;
        }
    };
    let w = match wmodel::decode(&wasm) {
        Ok(w) => w,
        Err(e) => {
            v.push(Violation::new("C15", "op-name-census-undecodable", format!("{}: {}", variant, e), c));
            return v;
        }
    };
    let ops: Vec<&str> = w.funcs.iter().filter_map(|f| f.body.as_ref()).flat_map(|b| b.ops.iter().map(|(o, _)| o.name)).filter(|n| *n != "Unreachable" && *n != "End").collect();
    if ops != vec![want.as_str()] {
        v.push(Violation::new("C15", format!("builder-emits-other-operator:{}", want), format!("a function built with the variant {} ({}) is emitted as {:?}", variant, want, ops), c));
    }
    v
}


// ---- parameters handed to replacement closures ------------------------------------------------
// `replace_exported_func` / `replace_imported_func` give the closure a body builder and "the
// parameters": a body built from them must read parameter slot i for parameter i and declare nothing.

pub fn replace_args_cases() -> Vec<Case> {
    ["exported", "imported"].iter().map(|w| Case { family: "builder-replace-args".into(), coords: format!("replace_{}_func, closure reads every parameter", w), wasm: vec![], cfg: json!({"replace_args": w}) }).collect()
}

pub fn check_replace_args_case(c: &Case) -> Vec<Violation> {
    let which = c.cfg["replace_args"].as_str().unwrap_or("exported").to_string();
    let src = r#"(module (import "env" "imp" (func $imp (param i32 i64 f32) (result i64)))
        (func $exp (export "exp") (param i32 i64 f32) (result i64) (local.get 1))
        (func (export "user") (result i64) (call $imp (i32.const 1) (i64.const 2) (f32.const 3))))"#;
    let mut v = vec![];
    let built = catch_unwind(AssertUnwindSafe(|| -> Result<Vec<u8>, String> {
        let wasm = wgen::stateful::assemble(src)?;
        let mut m = Module::from_buffer(&wasm).map_err(|e| e.to_string())?;
        let fill = |b: &mut InstrSeqBuilder, args: &Vec<walrus::LocalId>| {
            b.local_get(args[2]).drop().local_get(args[0]).drop().local_get(args[1]);
        };
        if which == "exported" {
            let f = m.exports.get_func("exp").map_err(|e| e.to_string())?;
            m.replace_exported_func(f, |(b, args)| fill(b, args)).map_err(|e| e.to_string())?;
        } else {
            let f = m.imports.get_func("env", "imp").map_err(|e| e.to_string())?;
            m.replace_imported_func(f, |(b, args)| fill(b, args)).map_err(|e| e.to_string())?;
        }
        Ok(m.emit_wasm())
    }));
    let out = match built {
        Ok(Ok(o)) => o,
        Ok(Err(e)) => {
            v.push(Violation::new("C15", "builder-replace-args-rejected", e, c));
            return v;
        }
        Err(p) => {
            v.push(Violation::new("C15", format!("builder-census-panic:{}", crate::pipe::norm_panic(&panic_msg(p))), "replace with a closure that reads its parameters panicked", c));
            return v;
        }
    };
    if let Err(e) = wmodel::validate214(&out, wmodel::FeatureSet::DEFAULT) {
        v.push(Violation::new("C15", "builder-census-invalid:replace-args", e, c));
        return v;
    }
    let w = match wmodel::decode(&out) {
        Ok(w) => w,
        Err(_) => return v,
    };
    // the function the closure built: the one exported as `exp` / the one `user` calls
    let target = if which == "exported" {
        w.exports.iter().find(|e| e.name == "exp" && e.space == Space::Func).map(|e| e.index)
    } else {
        w.exports
            .iter()
            .find(|e| e.name == "user" && e.space == Space::Func)
            .and_then(|e| w.funcs.get(e.index as usize))
            .and_then(|f| f.body.as_ref())
            .and_then(|b| b.ops.iter().find_map(|(o, _)| match (o.name, o.imms.first()) { ("Call", Some(Imm::Func(f))) => Some(*f), _ => None }))
    };
    let body = match target.and_then(|i| w.funcs.get(i as usize)).and_then(|f| f.body.as_ref()) {
        Some(b) => b,
        None => {
            v.push(Violation::new("C15", "builder-census-subject-lost", "the replacement function is not where the edit should have put it", c));
            return v;
        }
    };
    let got: Vec<String> = body.ops.iter().map(|(o, _)| o.show()).collect();
    let reads: Vec<u32> = body.ops.iter().filter_map(|(o, _)| match (o.name, o.imms.first()) { ("LocalGet", Some(Imm::Local(x))) => Some(*x), _ => None }).collect();
    if reads != vec![2, 0, 1] || !body.locals.is_empty() {
        v.push(Violation::new("C15", "builder-replace-args-not-the-parameters", format!("a body built from the closure's parameter locals (reads #2, #0, #1) is emitted as {:?} with declared locals {:?}", got, body.locals), c));
    }
    v
}


// ---- branch tables through the builder ---------------------------------------------------------
// `br_table(targets, default)` with 0, 1 and 2 targets inside a block that carries a value: the emitted
// operator is a `br_table` with exactly those depths.

pub fn br_table_cases() -> Vec<Case> {
    (0..3usize).map(|n| Case { family: "builder-br-table".into(), coords: format!("br_table with {} targets and a default", n), wasm: vec![], cfg: json!({"br_table": n}) }).collect()
}

pub fn check_br_table_case(c: &Case) -> Vec<Violation> {
    let n = c.cfg["br_table"].as_u64().unwrap_or(0) as usize;
    let mut v = vec![];
    let built = catch_unwind(AssertUnwindSafe(|| {
        let mut m = Module::default();
        let mut b = FunctionBuilder::new(&mut m.types, &[ValType::I32], &[ValType::I32]);
        let arg = m.locals.add(ValType::I32);
        {
            let mut body = b.func_body();
            // outer block (result i32) { inner block (result i32) { 7; selector; br_table [..] default } }
            body.block(ValType::I32, |outer| {
                let outer_id = outer.id();
                outer.block(ValType::I32, |inner| {
                    let inner_id = inner.id();
                    let targets: Vec<walrus::ir::InstrSeqId> = (0..n).map(|k| if k % 2 == 0 { inner_id } else { outer_id }).collect();
                    inner.i32_const(7).local_get(arg).br_table(targets.into(), outer_id);
                });
            });
        }
        let fid = b.finish(vec![arg], &mut m.funcs);
        m.exports.add("subject", fid);
        m.emit_wasm()
    }));
    let wasm = match built {
        Ok(w) => w,
        Err(p) => {
            v.push(Violation::new("C15", format!("builder-census-panic:{}", crate::pipe::norm_panic(&panic_msg(p))), "building / emitting a br_table panicked", c));
            return v;
        }
    };
    if let Err(e) = wmodel::validate214(&wasm, wmodel::FeatureSet::DEFAULT) {
        v.push(Violation::new("C15", "builder-census-invalid:br_table", e, c));
        return v;
    }
    let w = match wmodel::decode(&wasm) {
        Ok(w) => w,
        Err(_) => return v,
    };
    let ops: Vec<String> = w.funcs.iter().filter_map(|f| f.body.as_ref()).flat_map(|b| b.ops.iter().map(|(o, _)| o.show())).collect();
    let tables: Vec<&String> = ops.iter().filter(|o| o.starts_with("BrTable")).collect();
    let plain_br = w.funcs.iter().filter_map(|f| f.body.as_ref()).flat_map(|b| b.ops.iter()).filter(|(o, _)| o.name == "Br").count();
    if tables.len() != 1 || plain_br != 0 {
        v.push(Violation::new("C15", "builder-br-table-emitted-as-something-else", format!("a br_table with {} targets built through the builder is emitted as {:?}", n, ops), c));
        return v;
    }
    // depths: inner = 0, outer = 1
    let want: Vec<u32> = (0..n).map(|k| if k % 2 == 0 { 0 } else { 1 }).chain(std::iter::once(1)).collect();
    let got: Vec<u32> = w
        .funcs
        .iter()
        .filter_map(|f| f.body.as_ref())
        .flat_map(|b| b.ops.iter())
        .filter(|(o, _)| o.name == "BrTable")
        .flat_map(|(o, _)| o.imms.iter().filter_map(|i| match i { Imm::Targets(ds) => Some(ds.clone()), _ => None }).flatten().collect::<Vec<u32>>())
        .collect();
    if got != want {
        v.push(Violation::new("C15", "builder-br-table-depths", format!("br_table with {} targets: expected depths {:?} (targets then default), emitted {:?} ({:?})", n, want, got, tables), c));
    }
    v
}


// ---- building with a signature that was deleted before ------------------------------------------
// `types.add(sig)`, `types.delete(id)` (or gc dropping the last user), then `FunctionBuilder::new`
// with that same signature: the built function is emitted with exactly that signature.

pub fn resurrected_type_cases() -> Vec<Case> {
    ["delete", "gc"].iter().map(|w| Case { family: "builder-after-type-removal".into(), coords: format!("signature removed by {} and then built with", w), wasm: vec![], cfg: json!({"resurrected_type": w}) }).collect()
}

pub fn check_resurrected_type_case(c: &Case) -> Vec<Violation> {
    let how = c.cfg["resurrected_type"].as_str().unwrap_or("delete").to_string();
    let mut v = vec![];
    let built = catch_unwind(AssertUnwindSafe(|| -> Result<Vec<u8>, String> {
        let wasm = wgen::stateful::assemble(r#"(module (func $helper (param i32 i64) (result i64) (local.get 1)) (func (export "keep") (nop)))"#)?;
        let mut m = Module::from_buffer(&wasm).map_err(|e| e.to_string())?;
        if how == "gc" {
            walrus::passes::gc::run(&mut m);
        } else {
            let f = m.funcs.iter().find(|f| m.types.get(f.ty()).params().len() == 2).map(|f| (f.id(), f.ty())).ok_or("no helper")?;
            m.funcs.delete(f.0);
            m.types.delete(f.1);
        }
        let mut b = FunctionBuilder::new(&mut m.types, &[ValType::I32, ValType::I64], &[ValType::I64]);
        let a0 = m.locals.add(ValType::I32);
        let a1 = m.locals.add(ValType::I64);
        b.func_body().local_get(a1);
        let fid = b.finish(vec![a0, a1], &mut m.funcs);
        m.exports.add("subject", fid);
        Ok(m.emit_wasm())
    }));
    let out = match built {
        Ok(Ok(o)) => o,
        Ok(Err(e)) => {
            v.push(Violation::new("C15", "builder-census-rejected:type-removal", e, c));
            return v;
        }
        Err(p) => {
            v.push(Violation::new("C15", format!("builder-census-panic:{}", crate::pipe::norm_panic(&panic_msg(p))), format!("a function built with a signature that was removed ({}) before does not reach the output", how), c));
            return v;
        }
    };
    if let Err(e) = wmodel::validate214(&out, wmodel::FeatureSet::DEFAULT) {
        v.push(Violation::new("C15", "builder-census-invalid:type-removal", e, c));
        return v;
    }
    if let Ok(w) = wmodel::decode(&out) {
        let sig = w.exports.iter().find(|e| e.name == "subject" && e.space == Space::Func).and_then(|e| w.funcs.get(e.index as usize)).and_then(|f| w.types.get(f.ty as usize).cloned().flatten());
        let want = wmodel::FuncSig { params: vec![wmodel::VT::I32, wmodel::VT::I64], results: vec![wmodel::VT::I64] };
        if sig.as_ref() != Some(&want) {
            v.push(Violation::new("C15", "builder-signature-wrong-after-type-removal", format!("built (i32, i64) -> i64, emitted {:?}", sig), c));
        }
    }
    v
}
