//! C16: IR traversals visit everything exactly once, in order, without recursion.

use crate::core::*;
use crate::props::builder;
use serde_json::json;
use std::collections::{BTreeMap, HashSet};
use std::panic::{catch_unwind, AssertUnwindSafe};
use std::sync::atomic::Ordering;
use std::sync::Mutex;
use walrus::ir::*;
use walrus::*;

#[derive(Clone, Debug, PartialEq, Eq, Hash, PartialOrd, Ord)]
pub enum Evt {
    Start(usize),
    End(usize),
    Instr(usize),
    Id(char, usize),
}

fn stack_probe() -> usize {
    let x = 0u8;
    &x as *const u8 as usize
}

#[derive(Default)]
pub struct Rec {
    pub log: Vec<Evt>,
    pub sp_min: usize,
    pub sp_max: usize,
    pub keep_log: bool,
    pub events: u64,
}
impl Rec {
    fn new(keep_log: bool) -> Rec {
        Rec { log: vec![], sp_min: usize::MAX, sp_max: 0, keep_log, events: 0 }
    }
    #[inline(never)]
    fn ev(&mut self, e: Evt) {
        let sp = stack_probe();
        self.sp_min = self.sp_min.min(sp);
        self.sp_max = self.sp_max.max(sp);
        self.events += 1;
        if self.keep_log {
            self.log.push(e);
        }
    }
}

macro_rules! id_hooks {
    () => {
        // instruction-sequence ids are structure, not entity operands (the property lists
        // function, table, memory, global, data, element, type, local); not recorded
        fn visit_instr_seq_id(&mut self, _x: &InstrSeqId) {}
        fn visit_local_id(&mut self, x: &LocalId) {
            self.0.ev(Evt::Id('L', x.index()));
        }
        fn visit_memory_id(&mut self, x: &MemoryId) {
            self.0.ev(Evt::Id('M', x.index()));
        }
        fn visit_table_id(&mut self, x: &TableId) {
            self.0.ev(Evt::Id('T', x.index()));
        }
        fn visit_global_id(&mut self, x: &GlobalId) {
            self.0.ev(Evt::Id('G', x.index()));
        }
        fn visit_function_id(&mut self, x: &FunctionId) {
            self.0.ev(Evt::Id('F', x.index()));
        }
        fn visit_data_id(&mut self, x: &DataId) {
            self.0.ev(Evt::Id('D', x.index()));
        }
        fn visit_type_id(&mut self, x: &TypeId) {
            self.0.ev(Evt::Id('Y', x.index()));
        }
        fn visit_element_id(&mut self, x: &ElementId) {
            self.0.ev(Evt::Id('E', x.index()));
        }
    };
}
macro_rules! id_hooks_mut {
    () => {
        fn visit_instr_seq_id_mut(&mut self, _x: &mut InstrSeqId) {}
        fn visit_local_id_mut(&mut self, x: &mut LocalId) {
            self.0.ev(Evt::Id('L', x.index()));
        }
        fn visit_memory_id_mut(&mut self, x: &mut MemoryId) {
            self.0.ev(Evt::Id('M', x.index()));
        }
        fn visit_table_id_mut(&mut self, x: &mut TableId) {
            self.0.ev(Evt::Id('T', x.index()));
        }
        fn visit_global_id_mut(&mut self, x: &mut GlobalId) {
            self.0.ev(Evt::Id('G', x.index()));
        }
        fn visit_function_id_mut(&mut self, x: &mut FunctionId) {
            self.0.ev(Evt::Id('F', x.index()));
        }
        fn visit_data_id_mut(&mut self, x: &mut DataId) {
            self.0.ev(Evt::Id('D', x.index()));
        }
        fn visit_type_id_mut(&mut self, x: &mut TypeId) {
            self.0.ev(Evt::Id('Y', x.index()));
        }
        fn visit_element_id_mut(&mut self, x: &mut ElementId) {
            self.0.ev(Evt::Id('E', x.index()));
        }
    };
}

/// visitor (a): only structural + id hooks; per-instruction hooks stay default
pub struct VA(pub Rec);
impl<'i> Visitor<'i> for VA {
    fn start_instr_seq(&mut self, s: &'i InstrSeq) {
        self.0.ev(Evt::Start(s.id().index()));
    }
    fn end_instr_seq(&mut self, s: &'i InstrSeq) {
        self.0.ev(Evt::End(s.id().index()));
    }
    fn visit_instr(&mut self, i: &'i Instr, _: &'i InstrLocId) {
        self.0.ev(Evt::Instr(i as *const Instr as usize));
    }
    id_hooks!();
}
/// visitor (r): as (a), and re-entrant: at every block / loop / if it runs a complete traversal
/// of that construct's (last) sequence with a visitor of its own before returning; traversals are
/// plain functions over a borrowed function, so a nested one must not disturb the one in progress
pub struct VR<'f> {
    pub rec: Rec,
    pub func: &'f LocalFunction,
    pub inner_events: u64,
}
impl<'i> Visitor<'i> for VR<'i> {
    fn start_instr_seq(&mut self, s: &'i InstrSeq) {
        self.rec.ev(Evt::Start(s.id().index()));
    }
    fn end_instr_seq(&mut self, s: &'i InstrSeq) {
        self.rec.ev(Evt::End(s.id().index()));
    }
    fn visit_instr(&mut self, i: &'i Instr, _: &'i InstrLocId) {
        self.rec.ev(Evt::Instr(i as *const Instr as usize));
        let child = match i {
            Instr::Block(b) => Some(b.seq),
            Instr::Loop(l) => Some(l.seq),
            Instr::IfElse(ie) => Some(ie.alternative),
            _ => None,
        };
        if let Some(seq) = child {
            let mut inner = VA(Rec::new(false));
            dfs_in_order(&mut inner, self.func, seq);
            self.inner_events += inner.0.events;
        }
    }
    fn visit_instr_seq_id(&mut self, _x: &InstrSeqId) {}
    fn visit_local_id(&mut self, x: &LocalId) {
        self.rec.ev(Evt::Id('L', x.index()));
    }
    fn visit_memory_id(&mut self, x: &MemoryId) {
        self.rec.ev(Evt::Id('M', x.index()));
    }
    fn visit_table_id(&mut self, x: &TableId) {
        self.rec.ev(Evt::Id('T', x.index()));
    }
    fn visit_global_id(&mut self, x: &GlobalId) {
        self.rec.ev(Evt::Id('G', x.index()));
    }
    fn visit_function_id(&mut self, x: &FunctionId) {
        self.rec.ev(Evt::Id('F', x.index()));
    }
    fn visit_data_id(&mut self, x: &DataId) {
        self.rec.ev(Evt::Id('D', x.index()));
    }
    fn visit_type_id(&mut self, x: &TypeId) {
        self.rec.ev(Evt::Id('Y', x.index()));
    }
    fn visit_element_id(&mut self, x: &ElementId) {
        self.rec.ev(Evt::Id('E', x.index()));
    }
}
/// visitor (b): per-instruction hooks overridden with empty bodies as well
pub struct VB(pub Rec);
impl<'i> Visitor<'i> for VB {
    fn start_instr_seq(&mut self, s: &'i InstrSeq) {
        self.0.ev(Evt::Start(s.id().index()));
    }
    fn end_instr_seq(&mut self, s: &'i InstrSeq) {
        self.0.ev(Evt::End(s.id().index()));
    }
    fn visit_instr(&mut self, i: &'i Instr, _: &'i InstrLocId) {
        self.0.ev(Evt::Instr(i as *const Instr as usize));
    }
    id_hooks!();
    fn visit_call(&mut self, _: &Call) {}
    fn visit_call_indirect(&mut self, _: &CallIndirect) {}
    fn visit_block(&mut self, _: &Block) {}
    fn visit_loop(&mut self, _: &Loop) {}
    fn visit_if_else(&mut self, _: &IfElse) {}
    fn visit_br(&mut self, _: &Br) {}
    fn visit_br_if(&mut self, _: &BrIf) {}
    fn visit_br_table(&mut self, _: &BrTable) {}
    fn visit_local_get(&mut self, _: &LocalGet) {}
    fn visit_local_set(&mut self, _: &LocalSet) {}
    fn visit_global_get(&mut self, _: &GlobalGet) {}
    fn visit_load(&mut self, _: &Load) {}
    fn visit_store(&mut self, _: &Store) {}
    fn visit_table_copy(&mut self, _: &TableCopy) {}
    fn visit_memory_copy(&mut self, _: &MemoryCopy) {}
    fn visit_table_init(&mut self, _: &TableInit) {}
    fn visit_memory_init(&mut self, _: &MemoryInit) {}
}
pub struct MA(pub Rec);
impl VisitorMut for MA {
    fn start_instr_seq_mut(&mut self, s: &mut InstrSeq) {
        self.0.ev(Evt::Start(s.id().index()));
    }
    fn end_instr_seq_mut(&mut self, s: &mut InstrSeq) {
        self.0.ev(Evt::End(s.id().index()));
    }
    fn visit_instr_mut(&mut self, i: &mut Instr, _: &mut InstrLocId) {
        self.0.ev(Evt::Instr(i as *const Instr as usize));
    }
    id_hooks_mut!();
}
/// a visitor that rewrites: the first block / loop / if it is shown is replaced by `unreachable`
/// (the sequences below it are detached); the traversal must walk the tree the visitor leaves
/// behind, i.e. not enter what was detached and report everything else exactly once
pub struct MS(pub Rec, pub bool);
impl VisitorMut for MS {
    fn start_instr_seq_mut(&mut self, s: &mut InstrSeq) {
        self.0.ev(Evt::Start(s.id().index()));
    }
    fn end_instr_seq_mut(&mut self, s: &mut InstrSeq) {
        self.0.ev(Evt::End(s.id().index()));
    }
    fn visit_instr_mut(&mut self, i: &mut Instr, _: &mut InstrLocId) {
        self.0.ev(Evt::Instr(i as *const Instr as usize));
        if !self.1 && matches!(i, Instr::Block(_) | Instr::Loop(_) | Instr::IfElse(_)) {
            *i = Instr::Unreachable(Unreachable {});
            self.1 = true;
        }
    }
    id_hooks_mut!();
}
pub struct MB2(pub Rec);
impl VisitorMut for MB2 {
    fn start_instr_seq_mut(&mut self, s: &mut InstrSeq) {
        self.0.ev(Evt::Start(s.id().index()));
    }
    fn end_instr_seq_mut(&mut self, s: &mut InstrSeq) {
        self.0.ev(Evt::End(s.id().index()));
    }
    fn visit_instr_mut(&mut self, i: &mut Instr, _: &mut InstrLocId) {
        self.0.ev(Evt::Instr(i as *const Instr as usize));
    }
    id_hooks_mut!();
    fn visit_call_mut(&mut self, _: &mut Call) {}
    fn visit_call_indirect_mut(&mut self, _: &mut CallIndirect) {}
    fn visit_block_mut(&mut self, _: &mut Block) {}
    fn visit_loop_mut(&mut self, _: &mut Loop) {}
    fn visit_if_else_mut(&mut self, _: &mut IfElse) {}
    fn visit_br_mut(&mut self, _: &mut Br) {}
    fn visit_br_if_mut(&mut self, _: &mut BrIf) {}
    fn visit_br_table_mut(&mut self, _: &mut BrTable) {}
    fn visit_local_get_mut(&mut self, _: &mut LocalGet) {}
    fn visit_local_set_mut(&mut self, _: &mut LocalSet) {}
    fn visit_global_get_mut(&mut self, _: &mut GlobalGet) {}
    fn visit_load_mut(&mut self, _: &mut Load) {}
    fn visit_store_mut(&mut self, _: &mut Store) {}
    fn visit_table_copy_mut(&mut self, _: &mut TableCopy) {}
    fn visit_memory_copy_mut(&mut self, _: &mut MemoryCopy) {}
    fn visit_table_init_mut(&mut self, _: &mut TableInit) {}
    fn visit_memory_init_mut(&mut self, _: &mut MemoryInit) {}
}
/// hooks that MB2/VB override (the default-hook path does not run for these)
const OVERRIDDEN: [&str; 17] = [
    "Call", "CallIndirect", "Block", "Loop", "IfElse", "Br", "BrIf", "BrTable", "LocalGet", "LocalSet", "GlobalGet", "Load", "Store", "TableCopy", "MemoryCopy",
    "TableInit", "MemoryInit",
];

/// operand ids of an instruction, read off its `Debug` rendering (independent of the visitor
/// code generated by walrus-macro)
pub fn operands_from_debug(dbg: &str) -> (String, Vec<(char, usize)>) {
    let variant: String = dbg.chars().take_while(|c| c.is_alphanumeric() || *c == '_').collect();
    let mut out = vec![];
    let pat = "Id { idx: ";
    let mut from = 0;
    while let Some(p) = dbg[from..].find(pat) {
        let at = from + p;
        let numstart = at + pat.len();
        let num: String = dbg[numstart..].chars().take_while(|c| c.is_ascii_digit()).collect();
        // field name: nearest identifier followed by ':' before `at`, skipping "idx"
        let mut name = String::new();
        let mut end = at;
        loop {
            let pre = &dbg[..end];
            match pre.rfind(": ") {
                Some(c) => {
                    let id: String = pre[..c].chars().rev().take_while(|ch| ch.is_alphanumeric() || *ch == '_').collect::<String>().chars().rev().collect();
                    if id == "idx" || id.is_empty() {
                        end = c;
                        continue;
                    }
                    name = id;
                    break;
                }
                None => break,
            }
        }
        let kind = match name.as_str() {
            "func" => 'F',
            "table" => 'T',
            "memory" => 'M',
            "global" => 'G',
            "local" => 'L',
            "data" => 'D',
            "elem" => 'E',
            "ty" => 'Y',
            "seq" | "block" | "consequent" | "alternative" | "blocks" | "default" => 'S',
            "src" | "dst" => {
                if variant.starts_with("Memory") {
                    'M'
                } else {
                    'T'
                }
            }
            _ => '?',
        };
        if kind != 'S' {
            out.push((kind, num.parse().unwrap_or(usize::MAX)));
        }
        from = numstart;
    }
    (variant, out)
}

pub struct RefWalk {
    /// in-order structural events with the operand multiset that must follow each
    pub events: Vec<(Evt, Vec<(char, usize)>, String)>,
}

/// independent reference walk over `LocalFunction::block` (iterative)
pub fn reference_walk(f: &LocalFunction, start: InstrSeqId) -> RefWalk {
    enum Job {
        Seq(InstrSeqId),
        Resume(InstrSeqId, usize),
    }
    let mut events = vec![];
    let mut stack = vec![Job::Seq(start)];
    while let Some(job) = stack.pop() {
        let (sid, from) = match job {
            Job::Seq(s) => {
                let seq = f.block(s);
                let tyids = match seq.ty {
                    InstrSeqType::MultiValue(t) => vec![('Y', t.index())],
                    _ => vec![],
                };
                events.push((Evt::Start(s.index()), tyids, "seq".to_string()));
                (s, 0)
            }
            Job::Resume(s, i) => (s, i),
        };
        let seq = f.block(sid);
        let mut i = from;
        let mut suspended = false;
        while i < seq.instrs.len() {
            let instr = &seq.instrs[i].0;
            let (variant, mut ops) = operands_from_debug(&format!("{:?}", instr));
            ops.sort();
            events.push((Evt::Instr(instr as *const Instr as usize), ops, variant));
            i += 1;
            match instr {
                Instr::Block(Block { seq: n }) | Instr::Loop(Loop { seq: n }) => {
                    stack.push(Job::Resume(sid, i));
                    stack.push(Job::Seq(*n));
                    suspended = true;
                    break;
                }
                Instr::IfElse(IfElse { consequent, alternative }) => {
                    stack.push(Job::Resume(sid, i));
                    stack.push(Job::Seq(*alternative));
                    stack.push(Job::Seq(*consequent));
                    suspended = true;
                    break;
                }
                _ => {}
            }
        }
        if !suspended {
            events.push((Evt::End(sid.index()), vec![], "seq".to_string()));
        }
    }
    RefWalk { events }
}

/// split a log into (structural event, sorted operand ids that follow it)
fn group(log: &[Evt]) -> Vec<(Evt, Vec<(char, usize)>)> {
    let mut out: Vec<(Evt, Vec<(char, usize)>)> = vec![];
    for e in log {
        match e {
            Evt::Id(k, i) => {
                if let Some(l) = out.last_mut() {
                    l.1.push((*k, *i));
                } else {
                    out.push((Evt::Id('!', 0), vec![(*k, *i)]));
                }
            }
            s => out.push((s.clone(), vec![])),
        }
    }
    for g in out.iter_mut() {
        g.1.sort();
    }
    out
}

pub fn judge_immutable(which: &str, r: &RefWalk, log: &[Evt]) -> Option<(String, String)> {
    let g = group(log);
    let want: Vec<&Evt> = r.events.iter().map(|e| &e.0).collect();
    let got: Vec<&Evt> = g.iter().map(|e| &e.0).collect();
    if want != got {
        let k = want.iter().zip(got.iter()).position(|(a, b)| a != b).unwrap_or(want.len().min(got.len()));
        return Some((
            format!("immutable:{}:order-or-count", which),
            format!("structural events differ at #{}: reference {:?}, traversal {:?} ({} vs {} events)", k, want.get(k), got.get(k), want.len(), got.len()),
        ));
    }
    for (w, g) in r.events.iter().zip(g.iter()) {
        if w.1 != g.1 {
            return Some((format!("immutable:{}:operands:{}", which, w.2), format!("{:?}: operands {:?}, traversal reported {:?}", w.0, w.1, g.1)));
        }
    }
    None
}

pub fn judge_mutable(which: &str, r: &RefWalk, log: &[Evt]) -> Option<(String, String)> {
    let mut g = group(log);
    let mut want: Vec<(Evt, Vec<(char, usize)>, String)> = r.events.clone();
    // structural multiset
    let mut ws: Vec<&Evt> = want.iter().map(|e| &e.0).collect();
    let mut gs: Vec<&Evt> = g.iter().map(|e| &e.0).collect();
    ws.sort();
    gs.sort();
    if ws != gs {
        return Some((format!("mutable:{}:sequences-or-instructions-not-once", which), format!("{} reference events, {} traversal events", ws.len(), gs.len())));
    }
    want.sort_by(|a, b| a.0.cmp(&b.0));
    g.sort_by(|a, b| a.0.cmp(&b.0));
    for (w, g) in want.iter().zip(g.iter()) {
        if w.1 != g.1 {
            let doubled: Vec<(char, usize)> = {
                let mut d = w.1.clone();
                d.extend(w.1.clone());
                d.sort();
                d
            };
            let sig = if g.1 == doubled {
                format!("mutable:{}:operands-visited-twice", which)
            } else {
                format!("mutable:{}:operands:{}", which, w.2)
            };
            return Some((sig, format!("{} {:?}: operands {:?}, traversal reported {:?}", w.2, w.0, w.1, g.1)));
        }
    }
    None
}

/// run the four traversal variants on one function and compare with the reference walk
/// a visitor that overrides a few instruction-specific hooks only and counts how often each runs:
/// a hook hears of the instructions of its own kind, whatever else the visitor overrides or not
#[derive(Default)]
struct VP {
    call: usize,
    call_indirect: usize,
    br: usize,
    local_get: usize,
    konst: usize,
}
impl<'i> Visitor<'i> for VP {
    fn visit_call(&mut self, _: &Call) {
        self.call += 1;
    }
    fn visit_call_indirect(&mut self, _: &CallIndirect) {
        self.call_indirect += 1;
    }
    fn visit_br(&mut self, _: &walrus::ir::Br) {
        self.br += 1;
    }
    fn visit_local_get(&mut self, _: &walrus::ir::LocalGet) {
        self.local_get += 1;
    }
    fn visit_const(&mut self, _: &walrus::ir::Const) {
        self.konst += 1;
    }
}
#[derive(Default)]
struct MP(VP);
impl VisitorMut for MP {
    fn visit_call_mut(&mut self, _: &mut Call) {
        self.0.call += 1;
    }
    fn visit_call_indirect_mut(&mut self, _: &mut CallIndirect) {
        self.0.call_indirect += 1;
    }
    fn visit_br_mut(&mut self, _: &mut walrus::ir::Br) {
        self.0.br += 1;
    }
    fn visit_local_get_mut(&mut self, _: &mut walrus::ir::LocalGet) {
        self.0.local_get += 1;
    }
    fn visit_const_mut(&mut self, _: &mut walrus::ir::Const) {
        self.0.konst += 1;
    }
}
fn judge_partial(which: &str, r: &RefWalk, v: &VP) -> Option<(String, String)> {
    let n = |name: &str| r.events.iter().filter(|e| matches!(e.0, Evt::Instr(_)) && e.2 == name).count();
    for (hook, got, want) in [("Call", v.call, n("Call")), ("CallIndirect", v.call_indirect, n("CallIndirect")), ("Br", v.br, n("Br")), ("LocalGet", v.local_get, n("LocalGet")), ("Const", v.konst, n("Const"))] {
        if got != want {
            return Some((format!("{}:partial-visitor:hook-count:{}", which, hook), format!("a visitor overriding only a few instruction hooks: the {} hook ran {} times, the tree has {} such instructions", hook, got, want)));
        }
    }
    None
}

pub fn check_function(m: &mut Module, fid: FunctionId) -> Vec<(String, String)> {
    let mut out = vec![];
    let f = match &m.funcs.get(fid).kind {
        FunctionKind::Local(l) => l,
        _ => return out,
    };
    let start = f.entry_block();
    let r = reference_walk(f, start);
    {
        let mut v = VA(Rec::new(true));
        dfs_in_order(&mut v, f, start);
        if let Some(x) = judge_immutable("default-hooks", &r, &v.0.log) {
            out.push(x);
        }
        let mut v = VB(Rec::new(true));
        dfs_in_order(&mut v, f, start);
        if let Some(x) = judge_immutable("overridden-hooks", &r, &v.0.log) {
            out.push(x);
        }
        let mut v = VR { rec: Rec::new(true), func: f, inner_events: 0 };
        dfs_in_order(&mut v, f, start);
        if let Some(x) = judge_immutable("nested-traversal-in-callback", &r, &v.rec.log) {
            out.push(x);
        }
        let mut v = VP::default();
        dfs_in_order(&mut v, f, start);
        if let Some(x) = judge_partial("immutable", &r, &v) {
            out.push(x);
        }
    }
    let fm = m.funcs.get_mut(fid).kind.unwrap_local_mut();
    let r = reference_walk(fm, start);
    let mut v = MA(Rec::new(true));
    dfs_pre_order_mut(&mut v, fm, start);
    if let Some(x) = judge_mutable("default-hooks", &r, &v.0.log) {
        out.push(x);
    }
    let mut v = MP::default();
    dfs_pre_order_mut(&mut v, fm, start);
    if let Some(x) = judge_partial("mutable", &r, &v.0) {
        out.push(x);
    }
    let mut v = MB2(Rec::new(true));
    dfs_pre_order_mut(&mut v, fm, start);
    // with overridden hooks only the overridden variants are guaranteed the documented behaviour;
    // the others still go through the default hooks, so restrict the comparison to them
    let log = v.0.log;
    let mut r2 = RefWalk { events: vec![] };
    let mut keep: HashSet<Evt> = HashSet::new();
    for e in &r.events {
        if e.2 == "seq" || OVERRIDDEN.contains(&e.2.as_str()) {
            keep.insert(e.0.clone());
            r2.events.push(e.clone());
        }
    }
    let mut flog = vec![];
    let mut on = false;
    for e in &log {
        match e {
            Evt::Id(..) => {
                if on {
                    flog.push(e.clone());
                }
            }
            s => {
                on = keep.contains(s);
                if on {
                    flog.push(s.clone());
                }
            }
        }
    }
    if let Some(x) = judge_mutable("overridden-hooks", &r2, &flog) {
        out.push(x);
    }
    // last, because it changes the function: the rewriting visitor
    let mut v = MS(Rec::new(true), false);
    dfs_pre_order_mut(&mut v, fm, start);
    if v.1 {
        let after = reference_walk(fm, start);
        if let Some(x) = judge_mutable("rewriting-visitor", &after, &v.0.log) {
            out.push(x);
        }
    }
    out
}

fn check_module_bytes(c: &Case) -> (Vec<Violation>, u64) {
    let mut v = vec![];
    let mut n = 0;
    let mut m = match crate::pipe::parse(&c.wasm, &crate::pipe::Cfg::default()) {
        Ok(m) => m,
        Err(_) => return (v, 0),
    };
    let fids: Vec<FunctionId> = m.funcs.iter_local().map(|(id, _)| id).collect();
    for fid in fids {
        n += 1;
        let r = catch_unwind(AssertUnwindSafe(|| check_function(&mut m, fid)));
        match r {
            Ok(fs) => {
                for (s, d) in fs {
                    v.push(Violation::new("C16", s, d, c));
                }
            }
            Err(p) => v.push(Violation::new("C16", format!("traversal-panic:{}", crate::pipe::norm_panic(&panic_msg(p))), "", c)),
        }
    }
    (v, n)
}

/// depth family, run in a child process because a recursive traversal would overflow the stack
pub fn depth_worker() -> i32 {
    // prints "DEPTH <d> <which> <span> <events>"
    for d in [1usize, 10, 100, 1000, 10_000, 100_000] {
        let mut module = Module::default();
        let mut b = FunctionBuilder::new(&mut module.types, &[], &[]);
        let mut cur = b.func_body_id();
        for k in 0..d {
            let n = b.dangling_instr_seq(None).id();
            let mut sb = b.instr_seq(cur);
            sb.i32_const(k as i32).drop();
            match k % 3 {
                0 => {
                    sb.instr(Block { seq: n });
                }
                1 => {
                    sb.instr(Loop { seq: n });
                }
                _ => {
                    let e = sb.dangling_instr_seq(None).id();
                    sb.i32_const(1).instr(IfElse { consequent: n, alternative: e });
                }
            }
            cur = n;
        }
        let fid = b.finish(vec![], &mut module.funcs);
        let start = module.funcs.get(fid).kind.unwrap_local().entry_block();
        let spans = std::thread::Builder::new()
            .stack_size(256 * 1024)
            .spawn(move || {
                let mut res = vec![];
                {
                    let f = module.funcs.get(fid).kind.unwrap_local();
                    let mut v = VA(Rec::new(false));
                    dfs_in_order(&mut v, f, start);
                    res.push(("in_order", v.0.sp_max - v.0.sp_min, v.0.events));
                }
                let fm = module.funcs.get_mut(fid).kind.unwrap_local_mut();
                let mut v = MA(Rec::new(false));
                dfs_pre_order_mut(&mut v, fm, start);
                res.push(("pre_order_mut", v.0.sp_max - v.0.sp_min, v.0.events));
                // leak the module: dropping is not the subject
                std::mem::forget(module);
                res
            })
            .unwrap()
            .join();
        match spans {
            Ok(res) => {
                for (w, s, e) in res {
                    println!("DEPTH {} {} {} {}", d, w, s, e);
                }
            }
            Err(_) => {
                println!("DEPTHFAIL {}", d);
                return 0;
            }
        }
    }
    0
}

fn depth_family(args: &Args, ev: &mut Ev) -> Vec<Violation> {
    let mut viol = vec![];
    let exe = std::env::current_exe().unwrap();
    let out = std::process::Command::new(&exe).args(["C16-depth-worker"]).arg("--verif").arg(&args.verif).output();
    let c = Case { family: "depth".into(), coords: "nesting 1..10^5 built with the builder API".into(), wasm: vec![], cfg: json!({"depth_family": true}) };
    let out = match out {
        Ok(o) => o,
        Err(e) => {
            ev.note(format!("depth worker could not be started: {}", e));
            return viol;
        }
    };
    let txt = String::from_utf8_lossy(&out.stdout).to_string();
    let mut spans: BTreeMap<(String, usize), usize> = BTreeMap::new();
    let mut maxd = 0;
    for l in txt.lines() {
        let p: Vec<&str> = l.split_whitespace().collect();
        if p.len() == 5 && p[0] == "DEPTH" {
            let d: usize = p[1].parse().unwrap_or(0);
            spans.insert((p[2].to_string(), d), p[3].parse().unwrap_or(0));
            maxd = maxd.max(d);
            ev.evaluations += 1;
            ev.transitions += p[4].parse::<u64>().unwrap_or(0);
        }
    }
    if !out.status.success() || maxd < 100_000 {
        viol.push(Violation::new(
            "C16",
            "traversal-stack-overflow",
            format!("the traversal worker died (status {:?}) after depth {}; a 256 KiB stack must suffice at any nesting depth", out.status, maxd),
            &c,
        ));
    }
    for which in ["in_order", "pre_order_mut"] {
        let small = spans.get(&(which.to_string(), 10)).copied().unwrap_or(0);
        for d in [1000usize, 10_000, 100_000] {
            if let Some(s) = spans.get(&(which.to_string(), d)) {
                if *s > small + 4096 {
                    viol.push(Violation::new("C16", format!("traversal-stack-grows:{}", which), format!("call-stack span {} bytes at depth {} vs {} at depth 10", s, d, small), &c));
                    break;
                }
            }
        }
    }
    ev.extra.insert("depth_family".into(), json!(spans.iter().map(|((w, d), s)| format!("{} d={} span={}B", w, d, s)).collect::<Vec<_>>()));
    viol
}

/// a process-wide logger that accepts every record and drops it: what `log::trace!` lines cost or
/// break only shows when some logger is listening (`RUST_LOG=trace` with env_logger in an application)
struct NullLogger;
impl log::Log for NullLogger {
    fn enabled(&self, _: &log::Metadata) -> bool {
        true
    }
    fn log(&self, r: &log::Record) {
        // render the message as a real logger would
        use std::io::Write;
        let _ = write!(std::io::sink(), "{}", r.args());
    }
    fn flush(&self) {}
}
static NULL_LOGGER: NullLogger = NullLogger;
fn trace_logging(on: bool) {
    static ONCE: std::sync::Once = std::sync::Once::new();
    ONCE.call_once(|| {
        let _ = log::set_logger(&NULL_LOGGER);
    });
    log::set_max_level(if on { log::LevelFilter::Trace } else { log::LevelFilter::Off });
}

fn recheck(args: &Args, c: &Case) -> Vec<Violation> {
    if c.cfg.get("depth_family").is_some() {
        let mut ev = Ev::new("C16");
        return depth_family(args, &mut ev);
    }
    let traced = c.cfg.get("trace_logger").and_then(|x| x.as_bool()).unwrap_or(false);
    trace_logging(traced);
    let out = if c.cfg.get("history").is_some() {
        let acts = builder::acts_from_json(&c.cfg["history"]);
        match catch_unwind(AssertUnwindSafe(|| {
            let mut b = builder::build(&acts);
            check_function(&mut b.module, b.func)
        })) {
            Ok(v) => v.into_iter().map(|(s, d)| Violation::new("C16", s, d, c)).collect(),
            Err(p) => vec![Violation::new("C16", format!("traversal-panic:{}", crate::pipe::norm_panic(&panic_msg(p))), "", c)],
        }
    } else {
        check_module_bytes(c).0
    };
    trace_logging(false);
    out.into_iter().map(|mut v| { if traced { v.signature = format!("with-trace-logger:{}", v.signature); } v }).collect()
}

pub fn run(args: &Args) -> i32 {
    let mut ev = Ev::new("C16");
    if let Some(p) = &args.replay {
        let (case, _) = match read_replay(p) {
            Ok(x) => x,
            Err(e) => {
                eprintln!("MACHINERY: {}", e);
                return 2;
            }
        };
        ev.evaluations = 1;
        let v = recheck(args, &case);
        return finish(args, ev, v, &|c| recheck(args, c));
    }
    let mut viol = vec![];
    // (1) every builder tree of C15's space
    let (depth, nest) = builder::bounds(args);
    let distinct: Mutex<HashSet<u64>> = Mutex::new(HashSet::new());
    let ex = builder::explore_all(depth, nest, args.threads, &|h, t| {
        distinct.lock().unwrap().insert(wmodel::fnv(format!("{:?}", t.flatten()).as_bytes()));
        let r = catch_unwind(AssertUnwindSafe(|| {
            let mut b = builder::build(h);
            check_function(&mut b.module, b.func)
        }));
        match r {
            Ok(v) => v.into_iter().next(),
            Err(p) => Some((format!("traversal-panic:{}", crate::pipe::norm_panic(&panic_msg(p))), String::new())),
        }
    });
    ev.states = ex.states.load(Ordering::Relaxed);
    ev.transitions = ex.transitions.load(Ordering::Relaxed) * 4;
    ev.evaluations = ev.states;
    ev.nontrivial = distinct.lock().unwrap().len() as u64;
    for (h, sig, d) in ex.found.into_inner().unwrap() {
        let c = Case { family: "builder".into(), coords: format!("{} actions", h.len()), wasm: vec![0; h.len()], cfg: json!({"history": builder::acts_json(&h)}) };
        viol.push(Violation::new("C16", sig, d, &c));
    }
    // (2) every operator of the census (one function per module), (3) fixtures
    let mut cases = crate::props::census::cases(args, &mut ev);
    cases.extend(crate::props::families::members(&["fixtures"], args, &mut ev).iter().map(Case::of));
    let (res, _) = pmap(&cases, args.threads, None, |c| check_module_bytes(c));
    for r in res.into_iter().flatten() {
        ev.evaluations += r.1;
        ev.transitions += r.1 * 4;
        viol.extend(r.0);
    }
    // (4) depth family
    viol.extend(depth_family(args, &mut ev));
    // (5) the same walks with a logger listening at trace level (one builder action less), built and parsed trees
    {
        trace_logging(true);
        let d2 = depth.saturating_sub(1).max(1);
        let ex = builder::explore_all(d2, nest, args.threads, &|h, _t| {
            let r = catch_unwind(AssertUnwindSafe(|| {
                let mut b = builder::build(h);
                check_function(&mut b.module, b.func)
            }));
            match r {
                Ok(v) => v.into_iter().next(),
                Err(p) => Some((format!("traversal-panic:{}", crate::pipe::norm_panic(&panic_msg(p))), String::new())),
            }
        });
        let n = ex.states.load(Ordering::Relaxed);
        ev.evaluations += n;
        ev.transitions += ex.transitions.load(Ordering::Relaxed) * 4;
        for (h, sig, d) in ex.found.into_inner().unwrap() {
            let c = Case { family: "builder".into(), coords: format!("{} actions, trace logger", h.len()), wasm: vec![0; h.len()], cfg: json!({"history": builder::acts_json(&h), "trace_logger": true}) };
            viol.push(Violation::new("C16", format!("with-trace-logger:{}", sig), d, &c));
        }
        let fx: Vec<Case> = cases.iter().filter(|c| c.family == "fixtures").cloned().collect();
        let (res, _) = pmap(&fx, args.threads, None, |c| check_module_bytes(c));
        for (c, r) in fx.iter().zip(res.into_iter()) {
            if let Some(r) = r {
                ev.evaluations += r.1;
                for mut v in r.0 {
                    let mut c2 = c.clone();
                    c2.cfg["trace_logger"] = json!(true);
                    v = Violation::new("C16", format!("with-trace-logger:{}", v.signature), v.detail.clone(), &c2);
                    viol.push(v);
                }
            }
        }
        trace_logging(false);
        ev.extra.insert("trace_logger_pass".into(), json!({"builder_actions": d2, "trees": n, "fixture_modules": fx.len()}));
    }
    ev.sample(json!({"tree": "every history of <= 3 builder actions (C15's space)", "visitors": ["Visitor/default hooks", "Visitor/overridden hooks", "VisitorMut/default hooks", "VisitorMut/overridden hooks"]}));
    ev.sample(json!({"module": "opcensus entry: one function containing one operator of each kind, operands pairwise distinct where the scaffold allows"}));
    ev.rule = format!(
        "every instruction tree reachable by <= {} builder actions (nesting <= {}), every operator of the census (parsed by walrus), every fixture function, and nesting depths 1..10^5: \
         dfs_in_order and dfs_pre_order_mut under visitors with default and with overridden instruction hooks; event logs compared with an independent iterative walk over LocalFunction::block \
         whose operand lists are read off each instruction's Debug rendering; the builder trees (one action less) and the fixtures once more with a process-wide logger listening at trace level. non-trivial = distinct tree shapes",
        depth, nest
    );
    ev.bounds = json!({"builder_actions": depth, "nesting": nest, "max_depth": 100000});
    ev.assumptions = vec!["operand ids of an instruction = the Id fields in its derived Debug output; immutable traversal compared as an exact sequence, mutable traversal as multisets".into()];
    finish(args, ev, viol, &|c| recheck(args, c))
}
