//! C17: identifiers are stable, never reused, deletion is isolated.  Explicit-state exploration
//! of add / delete histories on every public collection of a real `walrus::Module`, against a
//! boring reference (`Vec<Option<payload>>`).

use crate::core::*;
use crate::hist::*;
use serde_json::json;
use std::panic::{catch_unwind, AssertUnwindSafe};
use walrus::*;

#[derive(Clone, Copy, Debug, PartialEq, Eq, Hash)]
pub enum AnyId {
    F(FunctionId),
    G(GlobalId),
    T(TableId),
    M(MemoryId),
    D(DataId),
    E(ElementId),
    I(ImportId),
    X(ExportId),
    C(UntypedCustomSectionId),
    L(LocalId),
    Ty(TypeId),
}

/// "types+function": the types collection of a module that already holds a function built with
/// the builder (signature (i64, f32) -> ()): besides that signature the module then holds the
/// internal, never emitted type of the function's entry sequence, which no public lookup may see
/// "customs+names": custom sections that all carry the same name, some raw and some of a user-defined
/// type, with `remove_raw(name)` as a third operation (it must take the first live *raw* one only)
pub const COLLS: [&str; 14] = ["funcs", "globals", "tables", "memories", "data", "elements", "imports", "exports", "customs", "locals", "types", "types+function", "customs+names", "imports+kinds"];

#[derive(Debug)]
struct TypedSection {
    data: Vec<u8>,
}
impl CustomSection for TypedSection {
    fn name(&self) -> &str {
        "shared"
    }
    fn data(&self, _: &IdsToIndices) -> std::borrow::Cow<'_, [u8]> {
        std::borrow::Cow::Borrowed(&self.data)
    }
}

#[derive(Clone, Debug, PartialEq, Eq)]
pub enum IOp {
    Add(usize),
    Delete(usize),
    /// customs+names only: `remove_raw("shared")`
    RemoveRaw,
    /// exports / imports: delete item #k through the by-name API (`exports.remove(name)`,
    /// `imports.remove(module, name)`); every export of the model names the same function, so
    /// they are all aliases of one another
    RemoveNamed(usize),
    /// types: give item #k a name (`types.get_mut(id).name = ...`); the signature, which is what the
    /// collection de-duplicates on, does not change
    Rename(usize),
    /// `emit_wasm()` between the other operations: serialising is not an edit, every id keeps
    /// denoting what it denoted
    Emit,
}

pub struct IdObj {
    m: Module,
    /// issued ids in creation order with the reference payload (None = deleted)
    issued: Vec<(AnyId, Option<String>)>,
    serial: usize,
    anchor_func: FunctionId,
    findings: Vec<Finding>,
    /// ids present in iteration that the public API never issued (internal entry types)
    internal: Vec<AnyId>,
    /// per issued item: its payload when it was last live
    last_payload: Vec<String>,
    /// imports+kinds: the function imports the history created
    import_funcs: Vec<(walrus::ImportId, FunctionId)>,
}

pub struct IdSubject {
    pub coll: &'static str,
    pub with_function: bool,
    pub shared_names: bool,
    /// imports of several kinds under the same module / field names, and `imports.get_func`
    pub mixed_kinds: bool,
}

impl IdSubject {
    pub fn of(name: &str) -> IdSubject {
        let with_function = name == "types+function";
        let shared_names = name == "customs+names";
        let mixed_kinds = name == "imports+kinds";
        let coll = if with_function { "types" } else if shared_names { "customs" } else if mixed_kinds { "imports" } else { COLLS.iter().find(|x| **x == name).copied().unwrap_or("globals") };
        IdSubject { coll, with_function, shared_names, mixed_kinds }
    }
}

const SIGS: [(&[ValType], &[ValType]); 3] = [(&[], &[]), (&[ValType::I32], &[ValType::I32]), (&[ValType::I64, ValType::F32], &[])];

fn add(coll: &str, o: &mut IdObj, v: usize) -> (AnyId, String) {
    let s = o.serial as i32;
    o.serial += 1;
    let m = &mut o.m;
    match coll {
        "funcs" => {
            let mut b = FunctionBuilder::new(&mut m.types, &[], &[ValType::I32]);
            b.func_body().i32_const(1000 * s + v as i32);
            (AnyId::F(b.finish(vec![], &mut m.funcs)), format!("func const {}", 1000 * s + v as i32))
        }
        "globals" => {
            let id = m.globals.add_local(ValType::I32, v % 2 == 1, false, ConstExpr::Value(ir::Value::I32(1000 * s + v as i32)));
            (AnyId::G(id), format!("global {} {}", v % 2 == 1, 1000 * s + v as i32))
        }
        "tables" => {
            let id = m.tables.add_local(false, (100 * s + v as i32) as u64, None, RefType::Funcref);
            (AnyId::T(id), format!("table {}", 100 * s + v as i32))
        }
        "memories" => {
            let id = m.memories.add_local(false, false, (100 * s + v as i32) as u64, None, None);
            (AnyId::M(id), format!("memory {}", 100 * s + v as i32))
        }
        "data" => {
            let id = m.data.add(DataKind::Passive, vec![s as u8, v as u8, 7]);
            (AnyId::D(id), format!("data {:?}", vec![s as u8, v as u8, 7]))
        }
        "elements" => {
            let id = m.elements.add(ElementKind::Passive, ElementItems::Functions(vec![o.anchor_func; 1 + s as usize % 3 + v]));
            (AnyId::E(id), format!("elem {}", 1 + s as usize % 3 + v))
        }
        "imports" if v >= 20 => {
            // mixed-kind variant: 20 = a table import under fresh names, 21 = a function import under
            // the names of the newest live table import (once), else under fresh names
            let is_func = |o_if: &Vec<(walrus::ImportId, FunctionId)>, id: &AnyId| matches!(id, AnyId::I(x) if o_if.iter().any(|(i, _)| i == x));
            if v == 20 {
                let name = format!("n{}", s);
                let (_, iid) = m.add_import_table("env", &name, false, 1, None, walrus::RefType::Funcref);
                (AnyId::I(iid), format!("import env.{}", name))
            } else {
                let live_funcs: Vec<String> = o.issued.iter().filter(|(id, p)| p.is_some() && is_func(&o.import_funcs, id)).filter_map(|(_, p)| p.clone()).collect();
                let shared = o.issued.iter().rev().find_map(|(id, p)| match p {
                    Some(p) if !is_func(&o.import_funcs, id) && !live_funcs.contains(p) => Some(p.trim_start_matches("import env.").to_string()),
                    _ => None,
                });
                let name = shared.unwrap_or_else(|| format!("fn{}", s));
                let ty = m.types.add(&[], &[]);
                let (f, iid) = m.add_import_func("env", &name, ty);
                o.import_funcs.push((iid, f));
                (AnyId::I(iid), format!("import env.{}", name))
            }
        }
        "imports" => {
            // value 1: the field name of the newest import again, under another module name
            // (`wasi_unstable.fd_write` next to `wasi_snapshot_preview1.fd_write`)
            let prev = o.issued.iter().rev().find_map(|(_, p)| p.as_ref().and_then(|p| p.strip_prefix("import env.").map(|x| x.to_string())));
            let taken = |n: &str| o.issued.iter().any(|(_, p)| p.as_deref() == Some(format!("import js.{}", n).as_str()));
            let (module, name) = match (v, prev) {
                // (never the same pair twice: removal by name would then be ambiguous)
                (1, Some(n)) if !taken(&n) => ("js", n),
                _ => ("env", format!("g{}_{}", s, v)),
            };
            let (_, iid) = m.add_import_global(module, &name, ValType::I32, false, false);
            (AnyId::I(iid), format!("import {}.{}", module, name))
        }
        "exports" => {
            let id = m.exports.add(&format!("e{}_{}", s, v), o.anchor_func);
            (AnyId::X(id), format!("export e{}_{}", s, v))
        }
        "customs" if v >= 10 => {
            // shared-name variant: 10 = user-defined type, 11 = raw
            if v == 10 {
                let data = vec![7u8, s as u8];
                let id = m.customs.add(TypedSection { data: data.clone() });
                (AnyId::C(id.into()), format!("custom shared {:?}", data))
            } else {
                let data = vec![1u8, s as u8];
                let id = m.customs.add(RawCustomSection { name: "shared".into(), data: data.clone() });
                (AnyId::C(id.into()), format!("custom shared {:?}", data))
            }
        }
        "customs" => {
            // value 1: a name a DWARF-producing tool would use (walrus does not emit such sections
            // itself unless it generates DWARF, but the collection holds them like any other)
            let name = if v == 1 { format!(".debug_c{}", s) } else { format!("c{}_{}", s, v) };
            let id = m.customs.add(RawCustomSection { name: name.clone(), data: vec![s as u8, v as u8] });
            (AnyId::C(id.into()), format!("custom {} {:?}", name, vec![s as u8, v as u8]))
        }
        "locals" => {
            let ty = [ValType::I32, ValType::I64, ValType::F32][v % 3];
            let id = m.locals.add(ty);
            (AnyId::L(id), format!("local {:?}", ty))
        }
        "types" => {
            let (p, r) = SIGS[v % 3];
            let id = m.types.add(p, r);
            (AnyId::Ty(id), format!("type {:?}->{:?}", p, r))
        }
        _ => unreachable!(),
    }
}

fn delete(m: &mut Module, id: AnyId) {
    match id {
        AnyId::F(x) => m.funcs.delete(x),
        AnyId::G(x) => m.globals.delete(x),
        AnyId::T(x) => m.tables.delete(x),
        AnyId::M(x) => m.memories.delete(x),
        AnyId::D(x) => m.data.delete(x),
        AnyId::E(x) => m.elements.delete(x),
        AnyId::I(x) => m.imports.delete(x),
        AnyId::X(x) => m.exports.delete(x),
        AnyId::C(x) => {
            m.customs.delete(x);
        }
        AnyId::L(_) => {}
        AnyId::Ty(x) => m.types.delete(x),
    }
}

fn describe_func(m: &Module, f: &Function) -> String {
    match &f.kind {
        FunctionKind::Local(l) => {
            let b = l.block(l.entry_block());
            match b.instrs.first().map(|x| &x.0) {
                Some(ir::Instr::Const(ir::Const { value: ir::Value::I32(k) })) => format!("func const {}", k),
                _ => "func ?".into(),
            }
        }
        _ => {
            let _ = m;
            "func import".into()
        }
    }
}

/// does the mutable accessor hand out an item for this id?  (false = it panics or reports none)
fn get_mut_resolves(m: &mut Module, id: AnyId) -> bool {
    catch_unwind(AssertUnwindSafe(|| match id {
        AnyId::F(x) => {
            m.funcs.get_mut(x);
            true
        }
        AnyId::G(x) => {
            m.globals.get_mut(x);
            true
        }
        AnyId::T(x) => {
            m.tables.get_mut(x);
            true
        }
        AnyId::M(x) => {
            m.memories.get_mut(x);
            true
        }
        AnyId::D(x) => {
            m.data.get_mut(x);
            true
        }
        AnyId::E(x) => {
            m.elements.get_mut(x);
            true
        }
        AnyId::I(x) => {
            m.imports.get_mut(x);
            true
        }
        AnyId::X(x) => {
            m.exports.get_mut(x);
            true
        }
        AnyId::Ty(x) => {
            m.types.get_mut(x);
            true
        }
        _ => false,
    }))
    .unwrap_or(false)
}

/// what the collection says the id denotes; None = absent (explicit none or panic)
fn get(m: &Module, id: AnyId) -> Option<String> {
    let r = catch_unwind(AssertUnwindSafe(|| -> Option<String> {
        Some(match id {
            AnyId::F(x) => describe_func(m, m.funcs.get(x)),
            AnyId::G(x) => {
                let g = m.globals.get(x);
                match &g.kind {
                    GlobalKind::Local(ConstExpr::Value(ir::Value::I32(k))) => format!("global {} {}", g.mutable, k),
                    _ => "global ?".into(),
                }
            }
            AnyId::T(x) => format!("table {}", m.tables.get(x).initial),
            AnyId::M(x) => format!("memory {}", m.memories.get(x).initial),
            AnyId::D(x) => format!("data {:?}", m.data.get(x).value),
            AnyId::E(x) => match &m.elements.get(x).items {
                ElementItems::Functions(v) => format!("elem {}", v.len()),
                _ => "elem ?".into(),
            },
            AnyId::I(x) => {
                let i = m.imports.get(x);
                format!("import {}.{}", i.module, i.name)
            }
            AnyId::X(x) => format!("export {}", m.exports.get(x).name),
            AnyId::C(x) => match m.customs.get(x) {
                Some(c) => format!("custom {} {:?}", c.name(), c.data(&Default::default())),
                None => return None,
            },
            AnyId::L(x) => format!("local {:?}", m.locals.get(x).ty()),
            AnyId::Ty(x) => {
                let t = m.types.get(x);
                format!("type {:?}->{:?}{}", t.params(), t.results(), t.name.as_ref().map(|n| format!(" name={}", n)).unwrap_or_default())
            }
        })
    }));
    r.unwrap_or(None)
}

fn iter(coll: &str, m: &Module) -> Vec<(AnyId, String)> {
    match coll {
        "funcs" => m.funcs.iter().map(|f| (AnyId::F(f.id()), describe_func(m, f))).collect(),
        "globals" => m.globals.iter().map(|g| (AnyId::G(g.id()), get(m, AnyId::G(g.id())).unwrap_or_default())).collect(),
        "tables" => m.tables.iter().map(|g| (AnyId::T(g.id()), format!("table {}", g.initial))).collect(),
        "memories" => m.memories.iter().map(|g| (AnyId::M(g.id()), format!("memory {}", g.initial))).collect(),
        "data" => m.data.iter().map(|g| (AnyId::D(g.id()), format!("data {:?}", g.value))).collect(),
        "elements" => m.elements.iter().map(|g| (AnyId::E(g.id()), get(m, AnyId::E(g.id())).unwrap_or_default())).collect(),
        "imports" => m.imports.iter().map(|g| (AnyId::I(g.id()), format!("import {}.{}", g.module, g.name))).collect(),
        "exports" => m.exports.iter().map(|g| (AnyId::X(g.id()), format!("export {}", g.name))).collect(),
        "customs" => m.customs.iter().map(|(id, c)| (AnyId::C(id), format!("custom {} {:?}", c.name(), c.data(&Default::default())))).collect(),
        "locals" => m.locals.iter().map(|g| (AnyId::L(g.id()), format!("local {:?}", g.ty()))).collect(),
        "types" => m.types.iter().map(|t| (AnyId::Ty(t.id()), format!("type {:?}->{:?}{}", t.params(), t.results(), t.name.as_ref().map(|n| format!(" name={}", n)).unwrap_or_default()))).collect(),
        _ => unreachable!(),
    }
}

impl Subject for IdSubject {
    type Op = IOp;
    type Obj = IdObj;
    fn fresh(&self) -> Result<IdObj, String> {
        let mut m = Module::default();
        // an anchor function that exports / element segments can refer to; it is created in a
        // second, throw-away position for the other collections so that they start empty
        let anchor_func = if self.coll == "exports" || self.coll == "elements" {
            let mut b = FunctionBuilder::new(&mut m.types, &[], &[]);
            b.func_body().unreachable();
            b.finish(vec![], &mut m.funcs)
        } else {
            let mut scratch = Module::default();
            let mut b = FunctionBuilder::new(&mut scratch.types, &[], &[]);
            b.func_body().unreachable();
            b.finish(vec![], &mut scratch.funcs)
        };
        let mut issued = vec![];
        let mut internal = vec![];
        if self.with_function {
            let (p, r) = SIGS[2];
            let mut b = FunctionBuilder::new(&mut m.types, p, r);
            b.func_body().unreachable();
            let args: Vec<LocalId> = p.iter().map(|t| m.locals.add(*t)).collect();
            let f = b.finish(args, &mut m.funcs);
            let ty = m.funcs.get(f).ty();
            issued.push((AnyId::Ty(ty), Some(format!("type {:?}->{:?}", p, r))));
            internal = m.types.iter().map(|t| AnyId::Ty(t.id())).filter(|i| *i != AnyId::Ty(ty)).collect();
        }
        let last_payload = issued.iter().map(|(_, p)| p.clone().unwrap_or_default()).collect();
        Ok(IdObj { m, issued, serial: 0, anchor_func, findings: vec![], internal, last_payload, import_funcs: vec![] })
    }
    fn ops(&self, hist: &[IOp]) -> Vec<IOp> {
        // replay the reference to know which issued items are live
        let mut live: Vec<bool> = vec![];
        let mut raw: Vec<bool> = vec![];
        let mut sig_of: Vec<usize> = vec![];
        if self.with_function {
            live.push(true);
            sig_of.push(2);
        }
        for op in hist {
            match op {
                IOp::Add(v) => {
                    if self.coll == "types" {
                        // adding an existing live signature issues no new id
                        if let Some(_) = sig_of.iter().enumerate().find(|(k, s)| **s == v % 3 && live[*k]) {
                            continue;
                        }
                        sig_of.push(v % 3);
                    }
                    live.push(true);
                }
                IOp::Delete(k) | IOp::RemoveNamed(k) => live[*k] = false,
                IOp::Rename(_) | IOp::Emit => {}
                IOp::RemoveRaw => {
                    if let Some(k) = (0..live.len()).find(|k| live[*k] && raw[*k]) {
                        live[k] = false;
                    }
                }
            }
            if let IOp::Add(v) = op {
                raw.push(*v == 11);
            }
        }
        let nv = if self.coll == "types" || self.coll == "locals" { 3 } else { 2 };
        let by_name = self.coll == "exports" || (self.coll == "imports" && !self.mixed_kinds);
        let mut ops: Vec<IOp> = if self.shared_names { vec![IOp::Add(10), IOp::Add(11), IOp::RemoveRaw] } else if self.mixed_kinds { vec![IOp::Add(20), IOp::Add(21)] } else { (0..nv).map(IOp::Add).collect() };
        if !matches!(self.coll, "locals" | "funcs") && !self.with_function && hist.last() != Some(&IOp::Emit) {
            ops.push(IOp::Emit);
        }
        if self.coll != "locals" {
            for (k, l) in live.iter().enumerate() {
                if *l {
                    ops.push(IOp::Delete(k));
                    if self.coll == "types" && !hist.iter().any(|h| *h == IOp::Rename(k)) {
                        ops.push(IOp::Rename(k));
                    }
                    if by_name {
                        ops.push(IOp::RemoveNamed(k));
                    }
                }
            }
        }
        ops
    }
    fn apply(&self, o: &mut IdObj, op: &IOp, _at: usize) -> Result<(), Finding> {
        match op {
            IOp::Add(v) => {
                let (id, payload) = add(self.coll, o, *v);
                if self.coll == "types" {
                    // de-duplicating set: must return the live id of an equal signature, else a fresh one
                    let sig_of = |p: &str| p.split(" name=").next().unwrap_or("").to_string();
                    let existing = o.issued.iter().find(|(_, p)| p.as_deref().map(sig_of) == Some(sig_of(&payload))).map(|x| x.0);
                    match existing {
                        Some(e) => {
                            if e != id {
                                o.findings.push(Finding { sig: "types-add-not-deduplicated".into(), detail: format!("adding {} returned {:?}, the live id for it is {:?}", payload, id, e) });
                            }
                            return Ok(());
                        }
                        None => {}
                    }
                }
                if let Some((_, p)) = o.issued.iter().find(|(i, _)| *i == id) {
                    o.findings.push(Finding {
                        sig: format!("id-reused:{}", self.coll),
                        detail: format!("add returned {:?} which was issued before (then {:?})", id, p),
                    });
                }
                o.last_payload.push(payload.clone());
                o.issued.push((id, Some(payload)));
            }
            IOp::Delete(k) => {
                let id = o.issued[*k].0;
                delete(&mut o.m, id);
                o.issued[*k].1 = None;
            }
            IOp::Rename(k) => {
                if let AnyId::Ty(t) = o.issued[*k].0 {
                    o.m.types.get_mut(t).name = Some(format!("named{}", k));
                    if let Some(p) = o.issued[*k].1.clone() {
                        let np = format!("{} name=named{}", p.split(" name=").next().unwrap_or(""), k);
                        o.last_payload[*k] = np.clone();
                        o.issued[*k].1 = Some(np);
                    }
                }
            }
            IOp::Emit => {
                // a panic or an invalid module here is C02's business; only the ids are looked at afterwards
                let _ = catch_unwind(AssertUnwindSafe(|| o.m.emit_wasm()));
            }
            IOp::RemoveNamed(k) => {
                let payload = o.issued[*k].1.clone().unwrap_or_default();
                let res = if self.coll == "exports" {
                    o.m.exports.remove(payload.trim_start_matches("export ")).is_ok()
                } else {
                    let full = payload.trim_start_matches("import ");
                    let (module, name) = full.split_once('.').unwrap_or(("env", full));
                    o.m.imports.remove(module, name).is_ok()
                };
                if !res {
                    o.findings.push(Finding { sig: format!("remove-by-name-failed:{}", self.coll), detail: format!("removing the live item {:?} by its name returned an error", payload) });
                }
                // the reference deletes exactly that item; whatever else happened shows up in the state comparison
                o.issued[*k].1 = None;
            }
            IOp::RemoveRaw => {
                let got = o.m.customs.remove_raw("shared");
                let victim = o.issued.iter().position(|(_, p)| p.as_deref().map(|p| p.starts_with("custom shared [1,")).unwrap_or(false));
                match (victim, &got) {
                    (Some(k), Some(sec)) => {
                        let want = o.issued[k].1.clone().unwrap_or_default();
                        let have = format!("custom shared {:?}", sec.data);
                        if want != have {
                            o.findings.push(Finding { sig: "remove-raw-wrong-section".into(), detail: format!("remove_raw returned {}, the first live raw section is {}", have, want) });
                        }
                        o.issued[k].1 = None;
                    }
                    (None, None) => {}
                    (Some(k), None) => {
                        o.findings.push(Finding { sig: "remove-raw-missed".into(), detail: format!("remove_raw returned None although the raw section {:?} is live", o.issued[k].1) });
                        // the reference keeps it live: whatever was deleted instead shows up as a deleted live id
                    }
                    (None, Some(sec)) => o.findings.push(Finding { sig: "remove-raw-invented".into(), detail: format!("remove_raw returned {:?} although no raw section is live", sec.data) }),
                }
            }
        }
        Ok(())
    }
    fn observe(&self, mut o: IdObj, _h: &[IOp]) -> (u64, Vec<Finding>) {
        let mut fs = std::mem::take(&mut o.findings);
        let coll = self.coll;
        // every id ever issued
        for (id, want) in &o.issued {
            let got = get(&o.m, *id);
            if &got != want {
                let sig = match (want, &got) {
                    (None, Some(_)) => format!("deleted-id-resolves:{}", coll),
                    (Some(_), None) => format!("live-id-absent:{}", coll),
                    _ => format!("id-denotes-other-item:{}", coll),
                };
                fs.push(Finding { sig, detail: format!("{:?}: expected {:?}, collection says {:?}", id, want, got) });
            }
        }
        // the mutable accessor agrees: a deleted id does not resolve, a live one does
        for (id, want) in o.issued.clone() {
            if matches!(id, AnyId::C(_) | AnyId::L(_)) {
                continue;
            }
            let res = get_mut_resolves(&mut o.m, id);
            if res != want.is_some() {
                let sig = if res { format!("deleted-id-resolves-mutably:{}", coll) } else { format!("live-id-absent-mutably:{}", coll) };
                fs.push(Finding { sig, detail: format!("{:?}: get_mut resolves = {}, the item is {}", id, res, if want.is_some() { "live" } else { "deleted" }) });
            }
        }
        // iteration = live items in creation order
        let mut it = iter(coll, &o.m);
        it.retain(|(i, _)| !o.internal.contains(i));
        let want: Vec<(AnyId, String)> = o.issued.iter().filter_map(|(i, p)| p.clone().map(|p| (*i, p))).collect();
        if it != want {
            let mut a = it.clone();
            let mut b = want.clone();
            a.sort_by_key(|x| format!("{:?}", x));
            b.sort_by_key(|x| format!("{:?}", x));
            let sig = if a == b { format!("iteration-order:{}", coll) } else { format!("iteration-content:{}", coll) };
            fs.push(Finding { sig, detail: format!("iter() yields {:?}, live items in creation order are {:?}", it, want) });
        }
        // mutable iteration must yield exactly the same live items
        let itm: Option<Vec<AnyId>> = match coll {
            "funcs" => Some(o.m.funcs.iter_mut().map(|x| AnyId::F(x.id())).collect()),
            "tables" => Some(o.m.tables.iter_mut().map(|x| AnyId::T(x.id())).collect()),
            "memories" => Some(o.m.memories.iter_mut().map(|x| AnyId::M(x.id())).collect()),
            "elements" => Some(o.m.elements.iter_mut().map(|x| AnyId::E(x.id())).collect()),
            "imports" => Some(o.m.imports.iter_mut().map(|x| AnyId::I(x.id())).collect()),
            "exports" => Some(o.m.exports.iter_mut().map(|x| AnyId::X(x.id())).collect()),
            "customs" => Some(o.m.customs.iter_mut().map(|(id, _)| AnyId::C(id)).collect()),
            _ => None,
        };
        if let Some(itm) = itm {
            let w: Vec<AnyId> = want.iter().map(|x| x.0).collect();
            if itm != w {
                fs.push(Finding { sig: format!("iter_mut-content:{}", coll), detail: format!("iter_mut() yields {:?}, live items in creation order are {:?}", itm, w) });
            }
        }
        if coll == "memories" && o.m.memories.len() != want.len() {
            fs.push(Finding { sig: "len:memories".into(), detail: format!("len() = {}, live = {}", o.m.memories.len(), want.len()) });
        }
        if coll == "types" {
            for (p, r) in SIGS {
                let f = o.m.types.find(p, r);
                let payload = format!("type {:?}->{:?}", p, r);
                let live = o.issued.iter().find(|(_, q)| q.as_deref().map(|q| q.split(" name=").next().unwrap_or("")) == Some(payload.as_str())).map(|x| x.0);
                if f.map(AnyId::Ty) != live {
                    fs.push(Finding { sig: "types-find".into(), detail: format!("find({}) = {:?}, live id = {:?}", payload, f, live) });
                }
            }
        }
        if coll == "exports" {
            for (id, p) in &o.issued {
                if let (AnyId::X(x), Some(p)) = (id, p) {
                    let name = p.trim_start_matches("export ");
                    let by_name = o.m.exports.iter().find(|e| e.name == name).map(|e| e.id());
                    if by_name != Some(*x) {
                        fs.push(Finding { sig: "find-by-name:exports".into(), detail: format!("{} resolves to {:?}, expected {:?}", name, by_name, x) });
                    }
                }
            }
        }
        if self.mixed_kinds {
            // `get_func(module, name)`: the first live function import under those names, an error when there is none
            let mut names: Vec<String> = o.issued.iter().filter_map(|(_, p)| p.clone()).collect();
            names.extend(o.last_payload.iter().cloned());
            names.sort();
            names.dedup();
            for p in names {
                let n = p.trim_start_matches("import env.");
                let want = o.issued.iter().find_map(|(id, q)| match (id, q) {
                    (AnyId::I(x), Some(q)) if *q == p => o.import_funcs.iter().find(|(i, _)| i == x).map(|(_, f)| *f),
                    _ => None,
                });
                let got = o.m.imports.get_func("env", n).ok();
                if got != want {
                    fs.push(Finding { sig: "get-func-by-name:imports".into(), detail: format!("get_func(env,{}) = {:?}, the first live function import under those names is {:?}", n, got, want) });
                }
            }
        }
        if coll == "imports" && !self.mixed_kinds {
            for (id, p) in &o.issued {
                if let AnyId::I(x) = id {
                    let name = format!("g{}", format!("{:?}", p).len()); // placeholder to keep the borrow simple
                    let _ = name;
                    if let Some(p) = p {
                        let full = p.trim_start_matches("import ");
                        let (module, n) = full.split_once('.').unwrap_or(("env", full));
                        let f = o.m.imports.find(module, n);
                        // several live imports may carry the same names: `find` returns the first
                        let first_live = o.issued.iter().find(|(_, q)| q.as_deref() == Some(p.as_str())).map(|q| q.0);
                        if f.map(AnyId::I) != first_live && f != Some(*x) {
                            fs.push(Finding { sig: "find-by-name:imports".into(), detail: format!("find({},{}) = {:?}, expected {:?}", module, n, f, x) });
                        }
                    }
                }
            }
        }
        // deleted items keep what they last looked like in the key: two histories that differ in
        // what was done to an item before it was deleted are different states (an implementation may
        // well keep something of a deleted item behind - that is what the property forbids)
        let canon: Vec<(bool, &Option<String>, Option<&String>)> = o.issued.iter().enumerate().map(|(k, (_, p))| (p.is_some(), p, o.last_payload.get(k))).collect();
        let kinds: Vec<bool> = o.issued.iter().map(|(id, _)| matches!(id, AnyId::I(x) if o.import_funcs.iter().any(|(i, _)| i == x))).collect();
        (wmodel::fnv(format!("{:?}{:?}", canon, kinds).as_bytes()), fs)
    }
}

fn hist_json(h: &[IOp]) -> serde_json::Value {
    json!(h.iter().map(|o| match o { IOp::Add(v) => format!("add {}", v), IOp::Delete(k) => format!("delete #{}", k), IOp::RemoveRaw => "remove_raw".to_string(), IOp::RemoveNamed(k) => format!("remove-named #{}", k), IOp::Rename(k) => format!("rename #{}", k), IOp::Emit => "emit".to_string() }).collect::<Vec<_>>())
}
fn hist_of(v: &serde_json::Value) -> Vec<IOp> {
    v.as_array()
        .map(|a| {
            a.iter()
                .filter_map(|x| {
                    let s = x.as_str()?;
                    if let Some(k) = s.strip_prefix("rename #") {
                        Some(IOp::Rename(k.parse().ok()?))
                    } else if let Some(k) = s.strip_prefix("remove-named #") {
                        Some(IOp::RemoveNamed(k.parse().ok()?))
                    } else if s == "remove_raw" {
                        Some(IOp::RemoveRaw)
                    } else if s == "emit" {
                        Some(IOp::Emit)
                    } else if let Some(v) = s.strip_prefix("add ") {
                        Some(IOp::Add(v.parse().ok()?))
                    } else {
                        Some(IOp::Delete(s.strip_prefix("delete #")?.parse().ok()?))
                    }
                })
                .collect()
        })
        .unwrap_or_default()
}

fn recheck(c: &Case) -> Vec<Violation> {
    if let Some(d) = c.cfg.get("parallel_ids").and_then(|x| x.as_u64()) {
        let wreal = std::path::Path::new("/verif/harness-par-real/target/verif/wreal");
        if let Ok(o) = std::process::Command::new(wreal).arg("ids").arg(d.to_string()).output() {
            if let Ok(j) = serde_json::from_str::<serde_json::Value>(String::from_utf8_lossy(&o.stdout).trim()) {
                if j["verdict"] == "diff" {
                    return vec![Violation::new("C17", "parallel-iterator-content:funcs", j["detail"].as_str().unwrap_or("").to_string(), c)];
                }
            }
        }
        return vec![];
    }
    if let Some(code) = c.cfg.get("entry_types").and_then(|x| x.as_array()) {
        let code: Vec<u8> = code.iter().filter_map(|x| x.as_u64()).map(|x| x as u8).collect();
        return check_entry_types(&code).into_iter().map(|(s, d)| Violation::new("C17", s, d, c)).collect();
    }
    let s = IdSubject::of(&c.coords);
    let h = hist_of(&c.cfg["history"]);
    match replay(&s, &h) {
        Ok((_, fs)) => fs.into_iter().map(|f| Violation::new("C17", f.sig, f.detail, c)).collect(),
        Err(f) => vec![Violation::new("C17", f.sig, f.detail, c)],
    }
}

// ---- the type ids a FunctionBuilder hands out ---------------------------------------------------
// `FunctionBuilder::new` adds (or finds) the function's type and the type of its entry sequence.
// Every sequence of <= 4 operations over {build a function returning [i32] / [i64] / [], add a fresh
// type}: each entry-sequence type id resolves to a live `[] -> results` type, equal result lists share
// it, and a type added later never gets an id that was already handed out.

fn entry_type_ops(code: &[u8]) -> Vec<String> {
    code.iter().map(|c| match c { 0 => "build->[i32]".to_string(), 1 => "build->[i64]".to_string(), 2 => "build->[]".to_string(), _ => "types.add(fresh)".to_string() }).collect()
}

fn check_entry_types(code: &[u8]) -> Option<(String, String)> {
    let r = catch_unwind(AssertUnwindSafe(|| -> Option<(String, String)> {
        let mut m = Module::default();
        let mut built: Vec<(FunctionId, Vec<ValType>)> = vec![];
        let mut handed_out: Vec<walrus::TypeId> = vec![];
        let mut fresh = 0usize;
        for c in code {
            if *c < 3 {
                let results: Vec<ValType> = match c { 0 => vec![ValType::I32], 1 => vec![ValType::I64], _ => vec![] };
                let mut b = FunctionBuilder::new(&mut m.types, &[], &results);
                {
                    let mut body = b.func_body();
                    match c { 0 => { body.i32_const(1); } 1 => { body.i64_const(1); } _ => {} }
                }
                let f = b.finish(vec![], &mut m.funcs);
                built.push((f, results));
            } else {
                // a signature nothing else in this model uses
                let params: Vec<ValType> = std::iter::repeat(ValType::F32).take(fresh + 1).collect();
                fresh += 1;
                let id = m.types.add(&params, &[ValType::F64]);
                if handed_out.contains(&id) {
                    return Some(("type-id-handed-out-twice".into(), format!("types.add of a fresh signature returned {:?}, which a FunctionBuilder had already been given", id)));
                }
                handed_out.push(id);
            }
            // every entry-sequence type so far
            let mut by_results: Vec<(Vec<ValType>, walrus::TypeId)> = vec![];
            for (f, results) in &built {
                let lf = match &m.funcs.get(*f).kind { FunctionKind::Local(l) => l, _ => continue };
                let ty = match lf.block(lf.entry_block()).ty { ir::InstrSeqType::MultiValue(t) => t, ir::InstrSeqType::Simple(_) => continue };
                let live: Vec<walrus::TypeId> = m.types.iter().map(|t| t.id()).collect();
                if !live.contains(&ty) {
                    return Some(("entry-type-id-denotes-nothing".into(), format!("the entry sequence of a function built with results {:?} carries {:?}, which is not among the module's types", results, ty)));
                }
                let t = m.types.get(ty);
                if !t.params().is_empty() || t.results() != &results[..] {
                    return Some(("entry-type-id-denotes-other-type".into(), format!("the entry sequence of a function built with results {:?} carries {:?} = {:?} -> {:?}", results, ty, t.params(), t.results())));
                }
                if let Some((_, other)) = by_results.iter().find(|(r, _)| r == results) {
                    if *other != ty {
                        return Some(("entry-type-not-shared".into(), format!("two functions built with results {:?} carry the entry types {:?} and {:?}", results, other, ty)));
                    }
                } else {
                    by_results.push((results.clone(), ty));
                }
                if !handed_out.contains(&ty) {
                    handed_out.push(ty);
                }
            }
        }
        None
    }));
    match r {
        Ok(x) => x,
        Err(p) => Some((format!("entry-type-panic:{}", crate::pipe::norm_panic(&panic_msg(p))), String::new())),
    }
}

fn entry_type_sequences() -> Vec<Vec<u8>> {
    let mut out: Vec<Vec<u8>> = vec![vec![]];
    let mut frontier = out.clone();
    for _ in 0..4 {
        let mut next = vec![];
        for s in &frontier {
            for c in 0..4u8 {
                let mut t = s.clone();
                t.push(c);
                next.push(t);
            }
        }
        out.extend(next.iter().cloned());
        frontier = next;
    }
    out
}

pub fn run(args: &Args) -> i32 {
    let mut ev = Ev::new("C17");
    if let Some(p) = &args.replay {
        let (case, _) = match read_replay(p) {
            Ok(x) => x,
            Err(e) => {
                eprintln!("MACHINERY: {}", e);
                return 2;
            }
        };
        ev.evaluations = 1;
        let v = recheck(&case);
        return finish(args, ev, v, &recheck);
    }
    let depth = if args.tier == Tier::Quick { 6 } else { 9 };
    let colls: Vec<&'static str> = COLLS.to_vec();
    let (res, _) = pmap(&colls, args.threads, None, |coll| {
        let s = IdSubject::of(coll);
        explore(&s, depth)
    });
    let mut viol = vec![];
    for (coll, r) in colls.iter().zip(res.into_iter()) {
        let (st, found) = r.unwrap();
        ev.states += st.states;
        ev.transitions += st.transitions;
        ev.evaluations += st.transitions + 1;
        ev.max_depth = ev.max_depth.max(st.max_depth);
        ev.nontrivial += st.states;
        ev.families.insert(coll.to_string(), json!({"states": st.states, "transitions": st.transitions, "merged": st.merged}));
        for f in found {
            let c = Case { family: "ids".into(), coords: coll.to_string(), wasm: vec![], cfg: json!({"history": hist_json(&f.hist)}) };
            viol.push(Violation::new("C17", f.finding.sig, f.finding.detail, &c));
        }
    }
    {
        let seqs = entry_type_sequences();
        for code in &seqs {
            ev.evaluations += 1;
            ev.states += 1;
            ev.transitions += code.len() as u64;
            if let Some((sig, d)) = check_entry_types(code) {
                let c = Case { family: "ids".into(), coords: format!("builder entry types: {:?}", entry_type_ops(code)), wasm: vec![], cfg: json!({"entry_types": code}) };
                viol.push(Violation::new("C17", sig, d, &c));
            }
        }
        ev.extra.insert("builder_entry_types".into(), json!({"sequences": seqs.len(), "max_length": 4}));
    }
    // the parallel build exposes parallel iterators over the function collection: same histories,
    // explored by `wreal ids` (walrus --features parallel on the real rayon-core)
    let wreal = args.verif.join("harness-par-real/target/verif/wreal");
    if wreal.exists() {
        let pdepth = if args.tier == Tier::Quick { 8 } else { 10 };
        match std::process::Command::new(&wreal).arg("ids").arg(pdepth.to_string()).output() {
            Ok(o) => {
                let line = String::from_utf8_lossy(&o.stdout).to_string();
                match serde_json::from_str::<serde_json::Value>(line.trim()) {
                    Ok(j) => {
                        ev.states += j["states"].as_u64().unwrap_or(0);
                        ev.evaluations += j["states"].as_u64().unwrap_or(0);
                        ev.extra.insert("parallel_iterators".into(), j.clone());
                        if j["verdict"] == "diff" {
                            let c = Case { family: "ids".into(), coords: "funcs (parallel build)".into(), wasm: vec![], cfg: json!({"parallel_ids": pdepth}) };
                            viol.push(Violation::new("C17", "parallel-iterator-content:funcs", j["detail"].as_str().unwrap_or("").to_string(), &c));
                        }
                    }
                    Err(_) => ev.note(format!("wreal ids: unreadable output {:?}", line.chars().take(200).collect::<String>())),
                }
            }
            Err(e) => ev.note(format!("wreal ids could not be started: {}", e)),
        }
    } else {
        ev.note("harness-par-real/wreal not built: the parallel iterators were not explored");
    }
    ev.sample(json!({"collection": "types", "history": ["add 1", "delete #1", "add 1", "add 0"]}));
    ev.sample(json!({"collection": "globals", "history": ["add 0", "add 1", "delete #0", "add 0", "delete #1"]}));
    ev.rule = format!(
        "per public collection ({:?}): breadth-first exploration of every history of add(v)/delete(any live item) up to length {} on a real Module; in every state every id ever issued is resolved, \
         iteration / len / find-by-name / types.find are compared with a Vec<Option<payload>> reference. Every state is distinct (payloads carry a serial), so non-trivial = states",
        COLLS, depth
    );
    ev.bounds = json!({"history_length": depth, "collections": COLLS});
    ev.assumptions = vec!["absence of a deleted id = panic or None from the public getter".into()];
    finish(args, ev, viol, &recheck)
}
