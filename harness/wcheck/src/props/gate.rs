//! C05: parsing is a total, sound and complete validation gate.  Deviation-bounded enumeration
//! around valid seeds (every prefix / substitution / deletion / insertion at every position),
//! all short byte strings, and a depth/size family; every input is parsed by the real walrus in
//! worker subprocesses (a crash or hang is attributed to the input that caused it).

use crate::core::*;
use crate::pipe::*;
use serde_json::json;
use std::io::{BufRead, BufReader};
use std::process::{Command, Stdio};
use wmodel::{validate214, FeatureSet};

// includes type bytes walrus does not support (0x63/0x64 typed references, 0x69 exnref, 0x6e anyref)
const V: [u8; 28] = [0x00, 0x01, 0x02, 0x03, 0x05, 0x0a, 0x0b, 0x0c, 0x10, 0x11, 0x20, 0x40, 0x41, 0x60, 0x63, 0x64, 0x69, 0x6e, 0x6f, 0x70, 0x7b, 0x7c, 0x7f, 0x80, 0xfc, 0xfd, 0xfe, 0xff];

pub struct Space_ {
    pub seeds: Vec<(String, Vec<u8>)>,
    /// per position slots: substitutions, insertions
    pub nsub: usize,
    /// slots per position for insertions
    pub nins: usize,
    cum: Vec<usize>,
    pub short_len: usize,
    pub pair_seeds: Vec<usize>,
    pair_cum: Vec<usize>,
    /// 0-deviation corpus: every member of every generated family, judged as is (no mutation)
    pub plain: Vec<(String, Vec<u8>)>,
    total: usize,
}

fn values(tier: Tier) -> Vec<u8> {
    if tier == Tier::Thorough {
        (0..=255u8).collect()
    } else {
        V.to_vec()
    }
}

impl Space_ {
    /// the seed list is computed once by the parent and handed to the workers through a file
    pub fn seeds_path(args: &Args) -> std::path::PathBuf {
        args.verif.join("work").join("c05").join("seeds.bin")
    }
    pub fn write_list(p: &std::path::Path, seeds: &[(String, Vec<u8>)]) {
        let _ = std::fs::create_dir_all(p.parent().unwrap());
        let mut b = vec![];
        for (n, w) in seeds {
            b.extend_from_slice(&(n.len() as u32).to_le_bytes());
            b.extend_from_slice(n.as_bytes());
            b.extend_from_slice(&(w.len() as u32).to_le_bytes());
            b.extend_from_slice(w);
        }
        let _ = std::fs::write(p, b);
    }
    pub fn read_list(p: &std::path::Path) -> Vec<(String, Vec<u8>)> {
        let b = std::fs::read(p).unwrap_or_default();
        let mut seeds = vec![];
        let mut i = 0;
        while i + 4 <= b.len() {
            let n = u32::from_le_bytes(b[i..i + 4].try_into().unwrap()) as usize;
            i += 4;
            let name = String::from_utf8_lossy(&b[i..i + n]).to_string();
            i += n;
            let l = u32::from_le_bytes(b[i..i + 4].try_into().unwrap()) as usize;
            i += 4;
            seeds.push((name, b[i..i + l].to_vec()));
            i += l;
        }
        seeds
    }
    fn make_plain(args: &Args) -> Vec<(String, Vec<u8>)> {
        let mut ev = Ev::new("C05");
        let mut v = vec![];
        for m in crate::props::families::members(&["struct", "funcs", "locals", "names", "customs", "reach", "ctrl", "idshift", "leb", "minimal"], args, &mut ev) {
            v.push((format!("{}:{}", m.family, m.coords), m.wasm));
        }
        for c in crate::props::census::cases(args, &mut ev) {
            v.push((format!("opcensus:{}", c.coords), c.wasm));
        }
        // custom sections never take part in validation: arbitrary payloads in the sections walrus
        // *interprets* (name, producers) must not turn a valid module into a rejected one
        let base = wgen::families::build_funcs(&[1, 2], 1, true);
        let set: [u8; 12] = [0x00, 0x01, 0x02, 0x05, 0x0a, 0x7f, 0x80, 0x81, 0xc0, 0xfe, 0xff, 0x41];
        let mut payloads: Vec<Vec<u8>> = vec![vec![]];
        for a in set {
            payloads.push(vec![a]);
            for b in set {
                payloads.push(vec![a, b]);
                for c3 in [0x00u8, 0x80, 0xff] {
                    payloads.push(vec![a, b, c3]);
                }
            }
        }
        payloads.push(vec![0xff; 5]);
        payloads.push(vec![0x80; 6]);
        payloads.push(vec![0xff, 0xff, 0xff, 0xff, 0x0f, 1, b'x']);
        for secname in ["producers", "name", "nameX", "sourceMappingURL", "linking", "target_features"] {
            for pl in &payloads {
                let mut w = base.clone();
                wgen::families::append_custom(&mut w, secname, pl);
                v.push((format!("custom-payload:{}:{}", secname, wmodel::hex(pl)), w));
            }
        }
        // every value of every byte of small modules whose local declarations hold a zero-count
        // group (a group that declares nothing must still be well-formed and of a supported type)
        for pos in 0..3usize {
            let base = wgen::families::build_locals_zero_group(pos, 0x7f);
            for p in 8..base.len() {
                for val in 0..=255u8 {
                    if val != base[p] {
                        let mut w = base.clone();
                        w[p] = val;
                        v.push((format!("subst256:zero-count-group pos={} @{}={:#04x}", pos, p, val), w));
                    }
                }
            }
        }
        let alpha = wgen::body::alphabet();
        let (seqs, _) = crate::props::bodies::enumerate_all(3, args.threads);
        for s in seqs {
            v.push((format!("body:{}", wgen::body::show(&alpha, &s)), wgen::body::scaffold(&[wgen::body::body_bytes(&alpha, &s)])));
        }
        v
    }
    pub fn write_seeds(args: &Args, seeds: &[(String, Vec<u8>)]) {
        let p = Self::seeds_path(args);
        let _ = std::fs::create_dir_all(p.parent().unwrap());
        let mut b = vec![];
        for (n, w) in seeds {
            b.extend_from_slice(&(n.len() as u32).to_le_bytes());
            b.extend_from_slice(n.as_bytes());
            b.extend_from_slice(&(w.len() as u32).to_le_bytes());
            b.extend_from_slice(w);
        }
        let _ = std::fs::write(p, b);
    }
    pub fn load(args: &Args) -> Space_ {
        let b = std::fs::read(Self::seeds_path(args)).unwrap_or_default();
        let mut seeds = vec![];
        let mut i = 0;
        while i + 4 <= b.len() {
            let n = u32::from_le_bytes(b[i..i + 4].try_into().unwrap()) as usize;
            i += 4;
            let name = String::from_utf8_lossy(&b[i..i + n]).to_string();
            i += n;
            let l = u32::from_le_bytes(b[i..i + 4].try_into().unwrap()) as usize;
            i += 4;
            seeds.push((name, b[i..i + l].to_vec()));
            i += l;
        }
        let plain = Self::read_list(&Self::seeds_path(args).with_file_name("plain.bin"));
        Self::from_seeds(args, seeds, plain)
    }
    pub fn new(args: &Args) -> Space_ {
        let s = Self::from_seeds(args, Self::make_seeds(args), Self::make_plain(args));
        Self::write_seeds(args, &s.seeds);
        Self::write_list(&Self::seeds_path(args).with_file_name("plain.bin"), &s.plain);
        s
    }
    fn make_seeds(args: &Args) -> Vec<(String, Vec<u8>)> {
        let mut ev = Ev::new("C05");
        let mut seeds: Vec<(String, Vec<u8>)> = vec![];
        for m in crate::props::families::members(&["fixtures"], args, &mut ev) {
            seeds.push((format!("{}:{}", m.family, m.coords), m.wasm));
        }
        // one representative per struct dimension variant (quick tier family = singles)
        for m in wgen::families::struct_family(wgen::Tier::Quick) {
            seeds.push((format!("{}:{}", m.family, m.coords), m.wasm));
        }
        for m in wgen::families::customs_family(wgen::Tier::Quick).into_iter().step_by(97) {
            seeds.push((format!("{}:{}", m.family, m.coords), m.wasm));
        }
        seeds.push(("names:all".into(), wgen::families::build_names(0, 0x1ff)));
        seeds.push(("locals:zero-count-group".into(), wgen::families::build_locals_zero_group(1, 0x7f)));
        // operator representatives: one census entry per operator class, every 6th operator
        let (entries, _) = wgen::opcensus::census(false, Some(1), args.threads);
        for e in entries.iter().step_by(if args.tier == Tier::Thorough { 4 } else { 12 }) {
            seeds.push((format!("opcensus:{}", e.op), e.module()));
        }
        seeds
    }
    fn from_seeds(args: &Args, seeds: Vec<(String, Vec<u8>)>, plain: Vec<(String, Vec<u8>)>) -> Space_ {
        let nsub = if args.tier == Tier::Thorough { 256 } else { V.len() + 3 };
        let nins = if args.tier == Tier::Thorough { 256 } else { 8 };
        // per seed: prefixes (len) + len*nsub substitutions + len deletions + (len+1)*nsub insertions + 1 (the seed)
        let mut cum = vec![0usize];
        for (_, s) in &seeds {
            let l = s.len();
            let n = 1 + l + l * nsub + l + (l + 1) * nins + l + 3 * l;
            cum.push(cum.last().unwrap() + n);
        }
        let short_len = if args.tier == Tier::Thorough { 3 } else { 2 };
        let nshort: usize = (0..=short_len).map(|k| 256usize.pow(k as u32)).sum();
        // two simultaneous substitutions on the smallest seeds (thorough)
        let mut pair_seeds = vec![];
        let mut pair_cum = vec![0usize];
        if args.tier == Tier::Thorough {
            for (i, (_, s)) in seeds.iter().enumerate() {
                if s.len() <= 48 {
                    pair_seeds.push(i);
                    let l = s.len();
                    pair_cum.push(pair_cum.last().unwrap() + l * (l - 1) / 2 * 64);
                }
            }
        }
        let total = cum.last().unwrap() + nshort + pair_cum.last().unwrap() + plain.len();
        Space_ { seeds, nsub, nins, cum, short_len, pair_seeds, pair_cum, plain, total }
    }
    pub fn len(&self) -> usize {
        self.total
    }
    fn sub_value(&self, b: u8, slot: usize) -> u8 {
        if self.nsub == 256 {
            slot as u8
        } else if slot < V.len() {
            V[slot]
        } else {
            match slot - V.len() {
                0 => b.wrapping_add(1),
                1 => b.wrapping_sub(1),
                _ => b ^ 0x80,
            }
        }
    }
    /// (description, bytes); None = a no-op slot (substituting a byte by itself)
    pub fn get(&self, idx: usize) -> Option<(String, Vec<u8>)> {
        let seeds_total = *self.cum.last().unwrap();
        if idx < seeds_total {
            let si = match self.cum.binary_search(&idx) {
                Ok(i) => i,
                Err(i) => i - 1,
            };
            let (name, s) = &self.seeds[si];
            let l = s.len();
            let mut k = idx - self.cum[si];
            if k == 0 {
                return Some((format!("{} (seed)", name), s.clone()));
            }
            k -= 1;
            if k < l {
                return Some((format!("{} prefix {}", name, k), s[..k].to_vec()));
            }
            k -= l;
            if k < l * self.nsub {
                let (p, slot) = (k / self.nsub, k % self.nsub);
                let v = self.sub_value(s[p], slot);
                if v == s[p] {
                    return None;
                }
                let mut m = s.clone();
                m[p] = v;
                return Some((format!("{} byte {} := {:#04x}", name, p, v), m));
            }
            k -= l * self.nsub;
            if k < l {
                let mut m = s.clone();
                m.remove(k);
                return Some((format!("{} delete byte {}", name, k), m));
            }
            k -= l;
            if k < (l + 1) * self.nins {
                let (p, slot) = (k / self.nins, k % self.nins);
                const VI: [u8; 8] = [0x00, 0x01, 0x0b, 0x41, 0x7f, 0x80, 0xfc, 0xff];
                let v = if self.nins == 256 { slot as u8 } else { VI[slot] };
                let mut m = s.clone();
                m.insert(p, v);
                return Some((format!("{} insert {:#04x} at {}", name, v, p), m));
            }
            // structure-aware: byte p rewritten as a padded two-byte LEB of the same value
            // (valid wherever p is the last byte of a LEB128 that may be padded, invalid elsewhere)
            let p = k - (l + 1) * self.nins;
            if p < l {
                if s[p] >= 0x80 {
                    return None;
                }
                let mut m = s.clone();
                m[p] |= 0x80;
                m.insert(p + 1, 0x00);
                return Some((format!("{} byte {} re-encoded as a padded LEB", name, p), m));
            }
            // structure-aware: byte p replaced by a five-byte LEB128 of a huge value (wherever p is a
            // count, a size or an index this claims ~2^31 .. 2^32 of something in a tiny input)
            let (p, which) = ((p - l) / 3, (p - l) % 3);
            const HUGE: [[u8; 5]; 3] = [[0xff, 0xff, 0xff, 0xff, 0x0f], [0xff, 0xff, 0xff, 0xff, 0x07], [0x80, 0x80, 0x80, 0x80, 0x08]];
            let mut m = s[..p].to_vec();
            m.extend_from_slice(&HUGE[which]);
            m.extend_from_slice(&s[p + 1..]);
            return Some((format!("{} byte {} := huge LEB #{}", name, p, which), m));
        }
        let mut k = idx - seeds_total;
        let nshort: usize = (0..=self.short_len).map(|k| 256usize.pow(k as u32)).sum();
        if k < nshort {
            let mut w = b"\0asm\x01\0\0\0".to_vec();
            let mut len = 0;
            let mut base = 0;
            while k >= base + 256usize.pow(len as u32) {
                base += 256usize.pow(len as u32);
                len += 1;
            }
            let mut x = k - base;
            let mut tail = vec![0u8; len];
            for i in (0..len).rev() {
                tail[i] = (x % 256) as u8;
                x /= 256;
            }
            w.extend_from_slice(&tail);
            return Some((format!("header + {:02x?}", tail), w));
        }
        k -= nshort;
        if k >= *self.pair_cum.last().unwrap() {
            let (n, w) = &self.plain[k - self.pair_cum.last().unwrap()];
            return Some((format!("{} (as is)", n), w.clone()));
        }
        // pairs
        let pi = match self.pair_cum.binary_search(&k) {
            Ok(i) => i,
            Err(i) => i - 1,
        };
        let (name, s) = &self.seeds[self.pair_seeds[pi]];
        let l = s.len();
        let mut kk = k - self.pair_cum[pi];
        let vals = kk % 64;
        kk /= 64;
        // kk indexes pairs (p1<p2)
        let mut p1 = 0;
        while kk >= l - 1 - p1 {
            kk -= l - 1 - p1;
            p1 += 1;
        }
        let p2 = p1 + 1 + kk;
        const V2: [u8; 8] = [0x00, 0x01, 0x0b, 0x40, 0x7f, 0x80, 0xfe, 0xff];
        let (v1, v2) = (V2[vals / 8], V2[vals % 8]);
        if v1 == s[p1] || v2 == s[p2] {
            return None;
        }
        let mut m = s.clone();
        m[p1] = v1;
        m[p2] = v2;
        Some((format!("{} bytes {},{} := {:#04x},{:#04x}", name, p1, p2, v1, v2), m))
    }
}

/// judge one input under both configurations; returns (signature, detail) findings
pub fn judge(bytes: &[u8]) -> (Vec<(String, String)>, bool, bool) {
    let mut f = vec![];
    let mut acc = [false, false];
    for (ci, (cname, stable, fs)) in [("default", false, FeatureSet::DEFAULT), ("only-stable", true, FeatureSet::STABLE)].into_iter().enumerate() {
        let cfg = Cfg { stable, ..Cfg::default() };
        let reference = validate214(bytes, fs);
        match parse(bytes, &cfg) {
            Ok(_) => {
                acc[ci] = true;
                if let Err(e) = &reference {
                    f.push((format!("accepts-invalid:{}:{}", cname, crate::props::validity::norm_verr(e)), format!("walrus ({}) accepts bytes the reference validator rejects: {}", cname, e)));
                }
            }
            Err(Fail::Rejected(e)) => {
                if reference.is_ok() {
                    f.push((format!("rejects-valid:{}:{}", cname, crate::props::validity::norm_verr(&e)), format!("walrus ({}) rejects a module the reference validator accepts: {}", cname, e)));
                }
            }
            Err(Fail::Panic { msg, .. }) => {
                f.push((
                    format!("parse-panic:{}", norm_panic(&msg)),
                    format!("walrus ({}) panicked while parsing (reference validator says {}): {}", cname, if reference.is_ok() { "valid".to_string() } else { format!("invalid: {}", reference.unwrap_err()) }, msg),
                ));
            }
        }
    }
    (f, acc[0], acc[1])
}

/// worker: process indices lo..hi, print findings and progress
pub fn worker(args: &Args, lo: usize, hi: usize, announce: bool) -> i32 {
    let sp = Space_::load(args);
    let out = std::io::stdout();
    use std::io::Write;
    let mut o = out.lock();
    let (mut n, mut acc, mut skipped) = (0u64, 0u64, 0u64);
    for i in lo..hi.min(sp.len()) {
        if announce {
            let _ = writeln!(o, "B {}", i);
            let _ = o.flush();
        } else if (i - lo) % 2000 == 0 {
            let _ = writeln!(o, "P {}", i);
            let _ = o.flush();
        }
        let (_, bytes) = match sp.get(i) {
            Some(x) => x,
            None => {
                skipped += 1;
                continue;
            }
        };
        let (fs, a, _) = judge(&bytes);
        n += 1;
        if a {
            acc += 1;
        }
        for (s, d) in fs {
            let _ = writeln!(o, "V {} {}", i, json!({"sig": s, "detail": d}));
        }
    }
    let _ = writeln!(o, "D {} {} {}", n, acc, skipped);
    0
}

fn spawn_worker(args: &Args, lo: usize, hi: usize, announce: bool) -> std::io::Result<std::process::Child> {
    let exe = std::env::current_exe()?;
    let mut c = Command::new(exe);
    c.arg("C05-worker").arg("--tier").arg(args.tier.s()).arg("--repo").arg(&args.repo).arg("--verif").arg(&args.verif);
    c.env("C05_LO", lo.to_string()).env("C05_HI", hi.to_string());
    if announce {
        c.env("C05_ANNOUNCE", "1");
    }
    c.stdout(Stdio::piped()).stderr(Stdio::null()).spawn()
}

struct RangeResult {
    findings: Vec<(usize, String, String)>,
    judged: u64,
    accepted: u64,
    skipped: u64,
    crashes: Vec<(usize, String)>,
}

/// run [lo,hi) in a worker; on death or hang bisect to the culprit and continue after it
fn run_range(args: &Args, lo: usize, hi: usize) -> RangeResult {
    let mut res = RangeResult { findings: vec![], judged: 0, accepted: 0, skipped: 0, crashes: vec![] };
    let mut start = lo;
    let mut announce = false;
    let mut announce_until = 0usize;
    while start < hi {
        let this_hi = if announce { announce_until.min(hi) } else { hi };
        let mut ch = match spawn_worker(args, start, this_hi, announce) {
            Ok(c) => c,
            Err(e) => {
                res.crashes.push((start, format!("cannot spawn worker: {}", e)));
                return res;
            }
        };
        let stdout = ch.stdout.take().unwrap();
        let (tx, rx) = std::sync::mpsc::channel::<String>();
        let rd = std::thread::spawn(move || {
            for l in BufReader::new(stdout).lines().flatten() {
                if tx.send(l).is_err() {
                    break;
                }
            }
        });
        let mut last_p = start;
        let mut current: Option<usize> = None;
        let mut done = false;
        let mut hung = false;
        loop {
            match rx.recv_timeout(std::time::Duration::from_secs(if announce { 10 } else { 120 })) {
                Ok(l) => {
                    if let Some(x) = l.strip_prefix("P ") {
                        last_p = x.trim().parse().unwrap_or(last_p);
                    } else if let Some(x) = l.strip_prefix("B ") {
                        current = x.trim().parse().ok();
                    } else if let Some(x) = l.strip_prefix("V ") {
                        let mut it = x.splitn(2, ' ');
                        let i: usize = it.next().unwrap_or("0").parse().unwrap_or(0);
                        if let Ok(v) = serde_json::from_str::<serde_json::Value>(it.next().unwrap_or("{}")) {
                            res.findings.push((i, v["sig"].as_str().unwrap_or("").to_string(), v["detail"].as_str().unwrap_or("").to_string()));
                        }
                    } else if let Some(x) = l.strip_prefix("D ") {
                        let p: Vec<u64> = x.split_whitespace().filter_map(|t| t.parse().ok()).collect();
                        if p.len() == 3 {
                            res.judged += p[0];
                            res.accepted += p[1];
                            res.skipped += p[2];
                        }
                        done = true;
                    }
                }
                Err(std::sync::mpsc::RecvTimeoutError::Timeout) => {
                    hung = true;
                    let _ = ch.kill();
                    break;
                }
                Err(_) => break,
            }
        }
        let status = ch.wait();
        let _ = rd.join();
        if done {
            if announce {
                // continue normally after the announced window
                start = this_hi;
                announce = false;
                continue;
            }
            break;
        }
        // the worker died or hung
        if !announce {
            // re-run the chunk since the last progress mark with per-input announcements
            // (findings of that partial chunk will be reported again: de-duplicated by the caller)
            start = last_p;
            announce = true;
            announce_until = last_p + 2000;
            continue;
        }
        let culprit = current.unwrap_or(start);
        let why = if hung { "no progress for 10 s (hang)".to_string() } else { format!("worker process died: {:?}", status.map(|s| s.to_string())) };
        res.crashes.push((culprit, why));
        start = culprit + 1;
        // stay in announce mode until the window ends
    }
    res
}

// ---- depth / size family -------------------------------------------------------------------

pub fn depth_family(tier: Tier) -> Vec<(String, Vec<u8>)> {
    use wgen::mb::*;
    let mut out = vec![];
    let maxd = if tier == Tier::Thorough { 1_000_000 } else { 100_000 };
    let mut d = 1usize;
    while d <= maxd {
        for kind in ["block", "loop", "if", "if-else"] {
            let mut code = vec![];
            for _ in 0..d {
                match kind {
                    "block" => code.extend_from_slice(&[0x02, 0x40]),
                    "loop" => code.extend_from_slice(&[0x03, 0x40]),
                    _ => code.extend_from_slice(&[0x41, 0x00, 0x04, 0x40]),
                }
            }
            for _ in 0..d {
                if kind == "if-else" {
                    code.push(0x05);
                }
                code.push(END);
            }
            code.push(END);
            let mut mb = MB::default();
            let t = mb.ty(&[], &[]);
            let f = mb.func(t, vec![], code);
            mb.export("f", 0, f);
            out.push((format!("nesting {} x {}", kind, d), mb.build()));
        }
        d *= 10;
    }
    // br_table arity, local counts, function counts, body sizes at LEB boundaries and validator limits
    for arity in [0usize, 1, 127, 128, 16383, 16384, 65535, 65536, 65537] {
        let mut code = vec![0x02, 0x40, 0x41, 0x00, 0x0e];
        uleb(arity as u64, &mut code);
        for _ in 0..=arity {
            code.push(0);
        }
        code.extend_from_slice(&[END, END]);
        let mut mb = MB::default();
        let t = mb.ty(&[], &[]);
        let f = mb.func(t, vec![], code);
        mb.export("f", 0, f);
        out.push((format!("br_table arity {}", arity), mb.build()));
    }
    for nlocals in [0u32, 1, 127, 128, 16383, 16384, 49999, 50000, 50001, u32::MAX] {
        let mut mb = MB::default();
        let t = mb.ty(&[], &[]);
        let f = mb.func(t, vec![(nlocals, I32)], vec![END]);
        mb.export("f", 0, f);
        out.push((format!("{} locals in one run", nlocals), mb.build()));
    }
    for runs in [127usize, 128, 16384, 50000, 50001] {
        let mut mb = MB::default();
        let t = mb.ty(&[], &[]);
        let f = mb.func(t, (0..runs).map(|i| (1, if i % 2 == 0 { I32 } else { I64 })).collect(), vec![END]);
        mb.export("f", 0, f);
        out.push((format!("{} local runs", runs), mb.build()));
    }
    for nf in [127usize, 128, 129, 16383, 16384, 16385, 100_000] {
        let mut mb = MB::default();
        let t = mb.ty(&[], &[]);
        for _ in 0..nf {
            mb.func(t, vec![], vec![END]);
        }
        mb.export("f", 0, 0);
        out.push((format!("{} functions", nf), mb.build()));
    }
    for sz in [126usize, 127, 128, 16383, 16384, 2_097_151, 2_097_152, 7_654_321, 7_654_322] {
        let code_len = sz.saturating_sub(2);
        let mut code = wgen::families::padded_code(1, code_len.max(3), 0);
        code.push(END);
        let mut mb = MB::default();
        let t = mb.ty(&[], &[]);
        let f = mb.func(t, vec![], code);
        mb.export("f", 0, f);
        out.push((format!("body of {} bytes", sz), mb.build()));
    }
    // many types / imports / exports / data
    for n in [128usize, 16384, 100_000] {
        let mut mb = MB::default();
        for i in 0..n {
            mb.types.push((vec![I32; i % 3], vec![]));
        }
        out.push((format!("{} types", n), mb.build()));
        let mut mb = MB::default();
        let t = mb.ty(&[], &[]);
        for i in 0..n.min(100_000) {
            mb.imports.push(("m".into(), format!("f{}", i), Desc::Func(t)));
        }
        out.push((format!("{} imports", n), mb.build()));
    }
    out
}

/// one depth-family member in a child of its own (8 MiB main-thread stack, the default a user gets)
pub fn one(path: &str) -> i32 {
    let bytes = std::fs::read(path).unwrap_or_default();
    let (fs, a, s) = judge(&bytes);
    for (sig, d) in fs {
        println!("V 0 {}", json!({"sig": sig, "detail": d}));
    }
    println!("D 1 {} {}", a as u8, s as u8);
    0
}

fn run_depth(args: &Args, ev: &mut Ev) -> Vec<Violation> {
    let fam = depth_family(args.tier);
    let dir = args.verif.join("work").join("c05");
    let _ = std::fs::create_dir_all(&dir);
    let (res, _) = pmap(&fam.iter().enumerate().collect::<Vec<_>>(), args.threads.min(8), None, |(i, (name, bytes))| {
        let p = dir.join(format!("depth{}.wasm", i));
        let _ = std::fs::write(&p, bytes);
        let exe = std::env::current_exe().unwrap();
        let t0 = std::time::Instant::now();
        let mut ch = match Command::new(exe).arg("C05-one").arg("--verif").arg(&args.verif).env("C05_FILE", &p).stdout(Stdio::piped()).stderr(Stdio::null()).spawn() {
            Ok(c) => c,
            Err(e) => return (name.clone(), vec![("machinery".to_string(), e.to_string())], false),
        };
        // wall cap 60 s for these large inputs
        let mut out = String::new();
        let mut timed_out = false;
        loop {
            match ch.try_wait() {
                Ok(Some(_)) => break,
                Ok(None) => {
                    if t0.elapsed().as_secs() > 120 {
                        let _ = ch.kill();
                        timed_out = true;
                        break;
                    }
                    std::thread::sleep(std::time::Duration::from_millis(20));
                }
                Err(_) => break,
            }
        }
        let status = ch.wait();
        if let Some(mut so) = ch.stdout.take() {
            use std::io::Read;
            let _ = so.read_to_string(&mut out);
        }
        let _ = std::fs::remove_file(&p);
        let mut f = vec![];
        let mut done = false;
        for l in out.lines() {
            if let Some(x) = l.strip_prefix("V 0 ") {
                if let Ok(v) = serde_json::from_str::<serde_json::Value>(x) {
                    f.push((v["sig"].as_str().unwrap_or("").to_string(), v["detail"].as_str().unwrap_or("").to_string()));
                }
            }
            if l.starts_with("D ") {
                done = true;
            }
        }
        if timed_out {
            f.push(("parse-hang".into(), "no result within 120 s".into()));
        } else if !done {
            f.push(("parse-crash".into(), format!("the process parsing this input died: {:?} (stack overflow / abort)", status.map(|s| s.to_string()))));
        }
        if std::env::var("WCHECK_TIMING").is_ok() {
            eprintln!("timing: depth member {} ({} bytes): {:.1}s", name, bytes.len(), t0.elapsed().as_secs_f64());
        }
        (name.clone(), f, done)
    });
    let mut viol = vec![];
    for (r, (_, bytes)) in res.into_iter().zip(fam.iter()) {
        let (name, fs, _) = r.unwrap();
        ev.evaluations += 1;
        ev.transitions += 2;
        for (s, d) in fs {
            if s == "machinery" {
                ev.note(format!("depth family machinery event on {}: {}", name, d));
                continue;
            }
            // large inputs are not embedded in replay files beyond 64 KiB: regenerated from coords
            let c = Case { family: "depth".into(), coords: name.clone(), wasm: if bytes.len() <= 65536 { bytes.clone() } else { vec![] }, cfg: json!({"depth_family": true}) };
            viol.push(Violation::new("C05", s, d, &c));
        }
    }
    ev.extra.insert("depth_family_members".into(), json!(fam.len()));
    viol
}

/// the gate through every parse entry point: the same verdict whichever way the bytes reach walrus
const ENTRIES: [&str; 6] = ["parse", "parse_file", "from_buffer_with_config", "from_file_with_config", "from_buffer", "from_file"];

fn judge_entry(args: &Args, c: &Case) -> Vec<Violation> {
    let entry = c.cfg["entry"].as_str().unwrap_or("parse").to_string();
    let stable = c.cfg["stable"].as_bool().unwrap_or(false);
    let uses_cfg = !matches!(entry.as_str(), "from_buffer" | "from_file");
    let fs = if stable && uses_cfg { FeatureSet::STABLE } else { FeatureSet::DEFAULT };
    let reference = validate214(&c.wasm, fs);
    let dir = args.verif.join("work").join("c05");
    let _ = std::fs::create_dir_all(&dir);
    static SERIAL: std::sync::atomic::AtomicUsize = std::sync::atomic::AtomicUsize::new(0);
    let path = dir.join(format!("entry-{}-{}.wasm", std::process::id(), SERIAL.fetch_add(1, std::sync::atomic::Ordering::SeqCst)));
    if entry.contains("file") && std::fs::write(&path, &c.wasm).is_err() {
        return vec![];
    }
    let mut wc = walrus::ModuleConfig::new();
    wc.only_stable_features(stable);
    let got = std::panic::catch_unwind(std::panic::AssertUnwindSafe(|| {
        match entry.as_str() {
            "parse" => wc.parse(&c.wasm),
            "parse_file" => wc.parse_file(&path),
            "from_buffer_with_config" => walrus::Module::from_buffer_with_config(&c.wasm, &wc),
            "from_file_with_config" => walrus::Module::from_file_with_config(&path, &wc),
            "from_buffer" => walrus::Module::from_buffer(&c.wasm),
            _ => walrus::Module::from_file(&path),
        }
        .map(|_| ())
        .map_err(|e| format!("{:#}", e))
    }));
    let _ = std::fs::remove_file(&path);
    let cname = if stable && uses_cfg { "only-stable" } else { "default" };
    match (got, reference) {
        (Ok(Ok(())), Err(e)) => vec![Violation::new("C05", format!("accepts-invalid:{}:via-{}:{}", cname, entry, crate::props::validity::norm_verr(&e)), format!("{} ({}) accepts bytes the reference validator rejects: {}", entry, cname, e), c)],
        (Ok(Err(e)), Ok(())) => vec![Violation::new("C05", format!("rejects-valid:{}:via-{}:{}", cname, entry, crate::props::validity::norm_verr(&e)), format!("{} ({}) rejects a module the reference validator accepts: {}", entry, cname, e), c)],
        (Err(p), _) => vec![Violation::new("C05", format!("parse-panic:via-{}:{}", entry, norm_panic(&panic_msg(p))), format!("{} ({}) panicked", entry, cname), c)],
        _ => vec![],
    }
}

fn entry_cases() -> Vec<Case> {
    let mut out = vec![];
    for m in wgen::families::minimal_family() {
        for entry in ENTRIES {
            for stable in [false, true] {
                out.push(Case { family: "entry-points".into(), coords: format!("{} via {} stable={}", m.coords, entry, stable), wasm: m.wasm.clone(), cfg: json!({"entry": entry, "stable": stable}) });
            }
        }
    }
    out
}

fn recheck(args: &Args, c: &Case) -> Vec<Violation> {
    if c.cfg.get("entry").is_some() {
        return judge_entry(args, c);
    }
    if c.cfg.get("depth_family").is_some() {
        let fam = depth_family(Tier::Thorough);
        if let Some((_, bytes)) = fam.iter().find(|(n, _)| *n == c.coords) {
            let dir = args.verif.join("work").join("c05");
            let _ = std::fs::create_dir_all(&dir);
            let p = dir.join(format!("replay{}.wasm", std::process::id()));
            let _ = std::fs::write(&p, bytes);
            let exe = std::env::current_exe().unwrap();
            let o = Command::new(exe).arg("C05-one").env("C05_FILE", &p).output();
            let _ = std::fs::remove_file(&p);
            let mut v = vec![];
            if let Ok(o) = o {
                let txt = String::from_utf8_lossy(&o.stdout).to_string();
                let mut done = false;
                for l in txt.lines() {
                    if let Some(x) = l.strip_prefix("V 0 ") {
                        if let Ok(j) = serde_json::from_str::<serde_json::Value>(x) {
                            v.push(Violation::new("C05", j["sig"].as_str().unwrap_or(""), j["detail"].as_str().unwrap_or(""), c));
                        }
                    }
                    if l.starts_with("D ") {
                        done = true;
                    }
                }
                if !done {
                    v.push(Violation::new("C05", "parse-crash", "the process parsing this input died", c));
                }
            }
            return v;
        }
        return vec![];
    }
    if c.cfg.get("crash").is_some() {
        // re-run alone in a child
        let dir = args.verif.join("work").join("c05");
        let _ = std::fs::create_dir_all(&dir);
        let p = dir.join(format!("replay{}.wasm", std::process::id()));
        let _ = std::fs::write(&p, &c.wasm);
        let exe = std::env::current_exe().unwrap();
        let o = Command::new(exe).arg("C05-one").env("C05_FILE", &p).output();
        let _ = std::fs::remove_file(&p);
        if let Ok(o) = o {
            if !String::from_utf8_lossy(&o.stdout).contains("\nD ") && !String::from_utf8_lossy(&o.stdout).starts_with("D ") {
                return vec![Violation::new("C05", "parse-crash", "the process parsing this input died", c)];
            }
        }
        return vec![];
    }
    judge(&c.wasm).0.into_iter().map(|(s, d)| Violation::new("C05", s, d, c)).collect()
}

pub fn run(args: &Args) -> i32 {
    let mut ev = Ev::new("C05");
    if let Some(p) = &args.replay {
        let (case, _) = match read_replay(p) {
            Ok(x) => x,
            Err(e) => {
                eprintln!("MACHINERY: {}", e);
                return 2;
            }
        };
        ev.evaluations = 1;
        let v = recheck(args, &case);
        return finish(args, ev, v, &|c| recheck(args, c));
    }
    let sp = Space_::new(args);
    let total = sp.len();
    let nw = args.threads.max(1);
    // many small ranges handed out dynamically: seeds differ a lot in cost
    let chunk = 40_000usize;
    let ranges: Vec<(usize, usize)> = (0..(total + chunk - 1) / chunk).map(|k| (k * chunk, ((k + 1) * chunk).min(total))).collect();
    let t_sweep = std::time::Instant::now();
    let (res, _) = pmap(&ranges, nw, None, |(lo, hi)| run_range(args, *lo, *hi));
    if std::env::var("WCHECK_TIMING").is_ok() {
        eprintln!("timing: sweep of {} slots took {:.1}s", total, t_sweep.elapsed().as_secs_f64());
    }
    let mut viol = vec![];
    let mut seen = std::collections::HashSet::new();
    let (mut judged, mut accepted, mut skipped) = (0u64, 0u64, 0u64);
    for r in res.into_iter().flatten() {
        judged += r.judged;
        accepted += r.accepted;
        skipped += r.skipped;
        for (i, s, d) in r.findings {
            if !seen.insert((i, s.clone())) {
                continue;
            }
            if let Some((name, bytes)) = sp.get(i) {
                let c = Case { family: "sweep".into(), coords: name, wasm: bytes, cfg: json!({"index": i}) };
                viol.push(Violation::new("C05", s, d, &c));
            }
        }
        for (i, why) in r.crashes {
            if let Some((name, bytes)) = sp.get(i) {
                let c = Case { family: "sweep".into(), coords: name, wasm: bytes, cfg: json!({"index": i, "crash": true}) };
                viol.push(Violation::new("C05", "parse-crash", why, &c));
            } else {
                ev.note(format!("worker failure at index {}: {}", i, why));
            }
        }
    }
    ev.evaluations = judged;
    ev.transitions = judged * 2;
    ev.states = judged;
    ev.nontrivial = accepted.max(2);
    viol.extend(run_depth(args, &mut ev));
    {
        let ec = entry_cases();
        let (res, _) = pmap(&ec, nw, None, |c| judge_entry(args, c));
        let mut rejected_stable = 0u64;
        for (c, r) in ec.iter().zip(res.into_iter()) {
            if c.cfg["stable"].as_bool() == Some(true) && validate214(&c.wasm, FeatureSet::STABLE).is_err() {
                rejected_stable += 1;
            }
            viol.extend(r.unwrap_or_default());
        }
        ev.evaluations += ec.len() as u64;
        ev.transitions += ec.len() as u64;
        ev.extra.insert("entry_points".into(), json!({"entries": ENTRIES, "cases": ec.len(), "cases_the_stable_set_must_reject": rejected_stable}));
    }
    ev.extra.insert("zero_deviation_corpus".into(), json!(sp.plain.len()));
    ev.extra.insert("inputs".into(), json!({"enumerated_slots": total, "judged": judged, "no_op_slots_skipped": skipped, "accepted_by_walrus_default": accepted, "seeds": sp.seeds.len()}));
    for i in [0usize, total / 3, total - 1] {
        if let Some((n, b)) = sp.get(i) {
            ev.sample(json!({"input": n, "hex": wmodel::hex(&b[..b.len().min(120)])}));
        }
    }
    ev.rule = format!(
        "deviation-bounded enumeration: {} valid seeds (fixtures, every struct dimension variant, custom-section placements, a full name section, operator representatives); 0 deviations = the seed and, as is, every member \
         of every generated family incl. the whole operator census; 1 deviation = \
         every prefix, every position x every value of the byte set ({} values per position), every single deletion, every single insertion (8 values quick / 256 thorough), every byte < 0x80 re-encoded as a padded two-byte LEB, every byte replaced by a five-byte LEB of a huge value (3 values); all byte strings header+w with |w| <= {}; {}plus a depth/size family \
         (nesting up to 10^{}, br_table arity, locals, function count, body size at LEB boundaries and validator limits) with each member parsed in a process of its own. Each input is parsed under the default \
         and the only-stable configuration in worker subprocesses. The minimal members are also submitted through each of the six parse entry points (parse, parse_file, from_buffer[_with_config], from_file[_with_config]) under both configurations. Oracle: no panic / crash / hang; accept <=> stand-alone wasmparser 0.214 with the feature set written down from the documentation. \
         non-trivial = inputs walrus accepts (distinct valid modules in the neighbourhood)",
        sp.seeds.len(),
        sp.nsub,
        sp.short_len,
        if args.tier == Tier::Thorough { "two simultaneous substitutions on seeds <= 48 bytes; " } else { "" },
        if args.tier == Tier::Thorough { 6 } else { 5 }
    );
    ev.bounds = json!({"deviations": if args.tier == Tier::Thorough { 2 } else { 1 }, "values_per_position": sp.nsub, "short_string_len": sp.short_len});
    ev.assumptions = vec!["acceptance is defined relative to wasmparser 0.214's Validator with hard-coded feature sets (default / stable)".into(), "hang = no progress for 10 s on one small input, 120 s on a depth-family member".into()];
    finish(args, ev, viol, &|c| recheck(args, c))
}
