//! Running the real walrus under `catch_unwind`.

use crate::core::panic_msg;
use std::panic::{catch_unwind, AssertUnwindSafe};

#[derive(Clone, Copy, Debug, PartialEq, Eq)]
pub struct Cfg {
    pub names: bool,
    pub producers: bool,
    pub dwarf: bool,
    pub stable: bool,
    pub preserve_ct: bool,
    pub synthetic: bool,
}

impl Default for Cfg {
    fn default() -> Self {
        // walrus's documented defaults
        Cfg { names: true, producers: true, dwarf: false, stable: false, preserve_ct: false, synthetic: false }
    }
}

impl Cfg {
    pub fn config(&self) -> walrus::ModuleConfig {
        let mut c = walrus::ModuleConfig::new();
        c.generate_name_section(self.names);
        c.generate_producers_section(self.producers);
        c.only_stable_features(self.stable);
        // order matters in walrus: generate_dwarf(true) *implies* preserve_code_transform, and a
        // later preserve_code_transform(false) would silently undo that; the natural order is used
        // here, the other order is a dedicated C10 case
        c.preserve_code_transform(self.preserve_ct);
        c.generate_dwarf(self.dwarf);
        c.generate_synthetic_names_for_anonymous_items(self.synthetic);
        c
    }
    pub fn json(&self) -> serde_json::Value {
        serde_json::json!({"names": self.names, "producers": self.producers, "dwarf": self.dwarf, "stable": self.stable,
            "preserve_ct": self.preserve_ct, "synthetic": self.synthetic})
    }
    pub fn from_json(v: &serde_json::Value) -> Cfg {
        let d = Cfg::default();
        let g = |k: &str, dv: bool| v.get(k).and_then(|x| x.as_bool()).unwrap_or(dv);
        Cfg {
            names: g("names", d.names),
            producers: g("producers", d.producers),
            dwarf: g("dwarf", d.dwarf),
            stable: g("stable", d.stable),
            preserve_ct: g("preserve_ct", d.preserve_ct),
            synthetic: g("synthetic", d.synthetic),
        }
    }
}

#[derive(Debug, Clone)]
pub enum Fail {
    /// walrus returned Err from parse
    Rejected(String),
    /// walrus panicked in the named stage
    Panic { stage: &'static str, msg: String },
}

/// digits -> '#', cut to 70 chars: a stable panic signature
pub fn norm_panic(msg: &str) -> String {
    let mut s: String = msg.chars().map(|c| if c.is_ascii_digit() { '#' } else { c }).collect();
    while s.contains("##") {
        s = s.replace("##", "#");
    }
    let s = s.replace('\n', " ");
    s.chars().take(70).collect()
}

pub fn parse(wasm: &[u8], cfg: &Cfg) -> Result<walrus::Module, Fail> {
    let c = cfg.config();
    match catch_unwind(AssertUnwindSafe(|| c.parse(wasm))) {
        Ok(Ok(m)) => Ok(m),
        Ok(Err(e)) => Err(Fail::Rejected(format!("{:#}", e))),
        Err(p) => Err(Fail::Panic { stage: "parse", msg: panic_msg(p) }),
    }
}

pub fn gc(m: &mut walrus::Module) -> Result<(), Fail> {
    catch_unwind(AssertUnwindSafe(|| walrus::passes::gc::run(m))).map_err(|p| Fail::Panic { stage: "gc", msg: panic_msg(p) })
}

pub fn emit(m: &mut walrus::Module) -> Result<Vec<u8>, Fail> {
    catch_unwind(AssertUnwindSafe(|| m.emit_wasm())).map_err(|p| Fail::Panic { stage: "emit", msg: panic_msg(p) })
}

/// parse; optionally gc; emit
pub fn roundtrip(wasm: &[u8], cfg: &Cfg, do_gc: bool) -> Result<Vec<u8>, Fail> {
    let mut m = parse(wasm, cfg)?;
    if do_gc {
        gc(&mut m)?;
    }
    emit(&mut m)
}

impl Fail {
    pub fn signature(&self) -> String {
        match self {
            Fail::Rejected(_) => "rejected".to_string(),
            Fail::Panic { stage, msg } => format!("{}-panic:{}", stage, norm_panic(msg)),
        }
    }
    pub fn detail(&self) -> String {
        match self {
            Fail::Rejected(e) => format!("walrus rejected the input: {}", e),
            Fail::Panic { stage, msg } => format!("walrus panicked in {}: {}", stage, msg),
        }
    }
}
