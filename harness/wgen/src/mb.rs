//! A tiny hand-written binary module builder.  It exists so that the *encoding* of every part
//! (segment flag bytes, LEB padding, section order, custom-section placement) is under the
//! generator's control and independent of wasm-encoder 0.214 (the encoder walrus links).

pub const I32: u8 = 0x7f;
pub const I64: u8 = 0x7e;
pub const F32: u8 = 0x7d;
pub const F64: u8 = 0x7c;
pub const V128: u8 = 0x7b;
pub const FUNCREF: u8 = 0x70;
pub const EXTERNREF: u8 = 0x6f;

pub fn uleb(mut v: u64, out: &mut Vec<u8>) {
    loop {
        let b = (v & 0x7f) as u8;
        v >>= 7;
        if v == 0 {
            out.push(b);
            break;
        }
        out.push(b | 0x80);
    }
}
pub fn uleb_v(v: u64) -> Vec<u8> {
    let mut o = vec![];
    uleb(v, &mut o);
    o
}
/// unsigned LEB padded to exactly `len` bytes
pub fn uleb_padded(mut v: u64, len: usize, out: &mut Vec<u8>) {
    for i in 0..len {
        let b = (v & 0x7f) as u8;
        v >>= 7;
        if i + 1 == len {
            out.push(b);
        } else {
            out.push(b | 0x80);
        }
    }
}
pub fn sleb(mut v: i64, out: &mut Vec<u8>) {
    loop {
        let b = (v & 0x7f) as u8;
        v >>= 7;
        let done = (v == 0 && b & 0x40 == 0) || (v == -1 && b & 0x40 != 0);
        if done {
            out.push(b);
            break;
        }
        out.push(b | 0x80);
    }
}
pub fn sleb_v(v: i64) -> Vec<u8> {
    let mut o = vec![];
    sleb(v, &mut o);
    o
}
pub fn name(s: &str, out: &mut Vec<u8>) {
    uleb(s.len() as u64, out);
    out.extend_from_slice(s.as_bytes());
}

#[derive(Clone, Debug, PartialEq)]
pub struct Lim {
    pub min: u64,
    pub max: Option<u64>,
    pub shared: bool,
    pub is64: bool,
}
impl Lim {
    pub fn new(min: u64, max: Option<u64>) -> Lim {
        Lim { min, max, shared: false, is64: false }
    }
    pub fn enc(&self, out: &mut Vec<u8>) {
        let mut f = 0u8;
        if self.max.is_some() {
            f |= 1;
        }
        if self.shared {
            f |= 2;
        }
        if self.is64 {
            f |= 4;
        }
        out.push(f);
        uleb(self.min, out);
        if let Some(m) = self.max {
            uleb(m, out);
        }
    }
}

#[derive(Clone, Debug, PartialEq)]
pub enum Desc {
    Func(u32),
    Table(u8, Lim),
    Mem(Lim),
    Global(u8, bool),
}
impl Desc {
    pub fn enc(&self, out: &mut Vec<u8>) {
        match self {
            Desc::Func(t) => {
                out.push(0);
                uleb(*t as u64, out);
            }
            Desc::Table(rt, l) => {
                out.push(1);
                out.push(*rt);
                l.enc(out);
            }
            Desc::Mem(l) => {
                out.push(2);
                l.enc(out);
            }
            Desc::Global(t, m) => {
                out.push(3);
                out.push(*t);
                out.push(*m as u8);
            }
        }
    }
}

#[derive(Clone, Debug, Default)]
pub struct FuncDef {
    pub ty: u32,
    pub locals: Vec<(u32, u8)>,
    /// instruction bytes including the final `end`
    pub code: Vec<u8>,
    /// pad the body-size LEB to this many bytes (0 = minimal)
    pub size_leb_pad: usize,
}

#[derive(Clone, Debug, Default)]
pub struct MB {
    pub types: Vec<(Vec<u8>, Vec<u8>)>,
    pub imports: Vec<(String, String, Desc)>,
    pub funcs: Vec<FuncDef>,
    pub tables: Vec<(u8, Lim)>,
    pub mems: Vec<Lim>,
    /// (valtype, mutable, init expression bytes including `end`)
    pub globals: Vec<(u8, bool, Vec<u8>)>,
    /// (name, kind 0..3, index)
    pub exports: Vec<(String, u8, u32)>,
    pub start: Option<u32>,
    /// raw encoded element segments
    pub elems: Vec<Vec<u8>>,
    /// raw encoded data segments
    pub datas: Vec<Vec<u8>>,
    /// None = emit a data-count section iff some body needs it (`needs_data_count`)
    pub data_count: Option<bool>,
    pub needs_data_count: bool,
    /// custom sections: (gap, name, payload); gap g = placed directly before the section with
    /// id order position g (0 = before type … 12 = after data, i.e. at the very end)
    pub customs: Vec<(usize, String, Vec<u8>)>,
    /// pad the function-count LEB of the code section (0 = minimal)
    pub code_count_leb_pad: usize,
}

pub const SECTION_ORDER: [u8; 12] = [1, 2, 3, 4, 5, 6, 7, 8, 9, 12, 10, 11];

impl MB {
    pub fn ty(&mut self, p: &[u8], r: &[u8]) -> u32 {
        if let Some(i) = self.types.iter().position(|(a, b)| a == p && b == r) {
            return i as u32;
        }
        self.types.push((p.to_vec(), r.to_vec()));
        (self.types.len() - 1) as u32
    }
    pub fn n_imported(&self, k: u8) -> u32 {
        self.imports
            .iter()
            .filter(|(_, _, d)| match d {
                Desc::Func(_) => k == 0,
                Desc::Table(..) => k == 1,
                Desc::Mem(_) => k == 2,
                Desc::Global(..) => k == 3,
            })
            .count() as u32
    }
    /// add a local function, returning its function index
    pub fn func(&mut self, ty: u32, locals: Vec<(u32, u8)>, code: Vec<u8>) -> u32 {
        self.funcs.push(FuncDef { ty, locals, code, size_leb_pad: 0 });
        self.n_imported(0) + self.funcs.len() as u32 - 1
    }
    pub fn export(&mut self, n: &str, kind: u8, idx: u32) {
        self.exports.push((n.to_string(), kind, idx));
    }

    fn section(out: &mut Vec<u8>, id: u8, body: &[u8]) {
        out.push(id);
        uleb(body.len() as u64, out);
        out.extend_from_slice(body);
    }

    pub fn build(&self) -> Vec<u8> {
        let mut out = b"\0asm\x01\0\0\0".to_vec();
        for (pos, id) in SECTION_ORDER.iter().enumerate() {
            for (g, n, p) in &self.customs {
                if *g == pos {
                    let mut b = vec![];
                    name(n, &mut b);
                    b.extend_from_slice(p);
                    Self::section(&mut out, 0, &b);
                }
            }
            let mut b = vec![];
            match id {
                1 => {
                    if self.types.is_empty() {
                        continue;
                    }
                    uleb(self.types.len() as u64, &mut b);
                    for (p, r) in &self.types {
                        b.push(0x60);
                        uleb(p.len() as u64, &mut b);
                        b.extend_from_slice(p);
                        uleb(r.len() as u64, &mut b);
                        b.extend_from_slice(r);
                    }
                }
                2 => {
                    if self.imports.is_empty() {
                        continue;
                    }
                    uleb(self.imports.len() as u64, &mut b);
                    for (m, n, d) in &self.imports {
                        name(m, &mut b);
                        name(n, &mut b);
                        d.enc(&mut b);
                    }
                }
                3 => {
                    if self.funcs.is_empty() {
                        continue;
                    }
                    uleb(self.funcs.len() as u64, &mut b);
                    for f in &self.funcs {
                        uleb(f.ty as u64, &mut b);
                    }
                }
                4 => {
                    if self.tables.is_empty() {
                        continue;
                    }
                    uleb(self.tables.len() as u64, &mut b);
                    for (rt, l) in &self.tables {
                        b.push(*rt);
                        l.enc(&mut b);
                    }
                }
                5 => {
                    if self.mems.is_empty() {
                        continue;
                    }
                    uleb(self.mems.len() as u64, &mut b);
                    for l in &self.mems {
                        l.enc(&mut b);
                    }
                }
                6 => {
                    if self.globals.is_empty() {
                        continue;
                    }
                    uleb(self.globals.len() as u64, &mut b);
                    for (t, m, init) in &self.globals {
                        b.push(*t);
                        b.push(*m as u8);
                        b.extend_from_slice(init);
                    }
                }
                7 => {
                    if self.exports.is_empty() {
                        continue;
                    }
                    uleb(self.exports.len() as u64, &mut b);
                    for (n, k, i) in &self.exports {
                        name(n, &mut b);
                        b.push(*k);
                        uleb(*i as u64, &mut b);
                    }
                }
                8 => match self.start {
                    Some(s) => uleb(s as u64, &mut b),
                    None => continue,
                },
                9 => {
                    if self.elems.is_empty() {
                        continue;
                    }
                    uleb(self.elems.len() as u64, &mut b);
                    for e in &self.elems {
                        b.extend_from_slice(e);
                    }
                }
                12 => {
                    let want = self.data_count.unwrap_or(self.needs_data_count);
                    if !want {
                        continue;
                    }
                    uleb(self.datas.len() as u64, &mut b);
                }
                10 => {
                    if self.funcs.is_empty() {
                        continue;
                    }
                    if self.code_count_leb_pad > 0 {
                        uleb_padded(self.funcs.len() as u64, self.code_count_leb_pad, &mut b);
                    } else {
                        uleb(self.funcs.len() as u64, &mut b);
                    }
                    for f in &self.funcs {
                        let mut body = vec![];
                        uleb(f.locals.len() as u64, &mut body);
                        for (n, t) in &f.locals {
                            uleb(*n as u64, &mut body);
                            body.push(*t);
                        }
                        body.extend_from_slice(&f.code);
                        if f.size_leb_pad > 0 {
                            uleb_padded(body.len() as u64, f.size_leb_pad, &mut b);
                        } else {
                            uleb(body.len() as u64, &mut b);
                        }
                        b.extend_from_slice(&body);
                    }
                }
                11 => {
                    if self.datas.is_empty() {
                        continue;
                    }
                    uleb(self.datas.len() as u64, &mut b);
                    for d in &self.datas {
                        b.extend_from_slice(d);
                    }
                }
                _ => unreachable!(),
            }
            Self::section(&mut out, *id, &b);
        }
        for (g, n, p) in &self.customs {
            if *g >= SECTION_ORDER.len() {
                let mut b = vec![];
                name(n, &mut b);
                b.extend_from_slice(p);
                Self::section(&mut out, 0, &b);
            }
        }
        out
    }
}

// ---- expression / instruction helpers --------------------------------------------------

pub fn i32_const(v: i32) -> Vec<u8> {
    let mut o = vec![0x41];
    sleb(v as i64, &mut o);
    o
}
pub fn i64_const(v: i64) -> Vec<u8> {
    let mut o = vec![0x42];
    sleb(v, &mut o);
    o
}
pub fn f32_const(bits: u32) -> Vec<u8> {
    let mut o = vec![0x43];
    o.extend_from_slice(&bits.to_le_bytes());
    o
}
pub fn f64_const(bits: u64) -> Vec<u8> {
    let mut o = vec![0x44];
    o.extend_from_slice(&bits.to_le_bytes());
    o
}
pub fn v128_const(b: [u8; 16]) -> Vec<u8> {
    let mut o = vec![0xfd, 0x0c];
    o.extend_from_slice(&b);
    o
}
pub fn op_idx(op: u8, i: u32) -> Vec<u8> {
    let mut o = vec![op];
    uleb(i as u64, &mut o);
    o
}
pub fn local_get(i: u32) -> Vec<u8> {
    op_idx(0x20, i)
}
pub fn local_set(i: u32) -> Vec<u8> {
    op_idx(0x21, i)
}
pub fn local_tee(i: u32) -> Vec<u8> {
    op_idx(0x22, i)
}
pub fn global_get(i: u32) -> Vec<u8> {
    op_idx(0x23, i)
}
pub fn global_set(i: u32) -> Vec<u8> {
    op_idx(0x24, i)
}
pub fn call(i: u32) -> Vec<u8> {
    op_idx(0x10, i)
}
pub fn ref_func(i: u32) -> Vec<u8> {
    op_idx(0xd2, i)
}
pub fn ref_null(t: u8) -> Vec<u8> {
    vec![0xd0, t]
}
pub const END: u8 = 0x0b;
pub const DROP: u8 = 0x1a;
pub const NOP: u8 = 0x01;
pub const UNREACHABLE: u8 = 0x00;
pub const RETURN: u8 = 0x0f;

pub fn cat(parts: &[&[u8]]) -> Vec<u8> {
    let mut o = vec![];
    for p in parts {
        o.extend_from_slice(p);
    }
    o
}
/// constant expression = instrs + end
pub fn expr(mut e: Vec<u8>) -> Vec<u8> {
    e.push(END);
    e
}

/// Element segment in binary encoding `flag` (0..=7).
/// `table`/`offset` are used by the active encodings; `funcs` by flags 0-3; `exprs` (each
/// without the trailing `end`) by flags 4-7; `rt` is the reference type for 5-7.
pub fn elem_seg(flag: u8, table: u32, offset: &[u8], funcs: &[u32], exprs: &[Vec<u8>], rt: u8) -> Vec<u8> {
    let mut o = vec![flag];
    let active = flag & 1 == 0;
    let explicit = flag & 2 != 0;
    let use_exprs = flag & 4 != 0;
    if active {
        if explicit {
            uleb(table as u64, &mut o);
        }
        o.extend_from_slice(offset);
        o.push(END);
    }
    if flag & 3 != 0 {
        // elemkind or reftype present for flags 1,2,3,5,6,7
        if use_exprs {
            o.push(rt);
        } else {
            o.push(0x00);
        }
    }
    if use_exprs {
        uleb(exprs.len() as u64, &mut o);
        for e in exprs {
            o.extend_from_slice(e);
            o.push(END);
        }
    } else {
        uleb(funcs.len() as u64, &mut o);
        for f in funcs {
            uleb(*f as u64, &mut o);
        }
    }
    o
}

/// Data segment in binary encoding `flag` (0, 1, 2).
pub fn data_seg(flag: u8, mem: u32, offset: &[u8], payload: &[u8]) -> Vec<u8> {
    let mut o = vec![flag];
    match flag {
        0 => {
            o.extend_from_slice(offset);
            o.push(END);
        }
        1 => {}
        2 => {
            uleb(mem as u64, &mut o);
            o.extend_from_slice(offset);
            o.push(END);
        }
        _ => panic!("bad data flag"),
    }
    uleb(payload.len() as u64, &mut o);
    o.extend_from_slice(payload);
    o
}

/// name-section payload from subsections (id, bytes)
pub fn name_section(subs: &[(u8, Vec<u8>)]) -> Vec<u8> {
    let mut o = vec![];
    for (id, b) in subs {
        o.push(*id);
        uleb(b.len() as u64, &mut o);
        o.extend_from_slice(b);
    }
    o
}
pub fn name_map(entries: &[(u32, &str)]) -> Vec<u8> {
    let mut o = vec![];
    uleb(entries.len() as u64, &mut o);
    for (i, n) in entries {
        uleb(*i as u64, &mut o);
        name(n, &mut o);
    }
    o
}
pub fn indirect_name_map(entries: &[(u32, Vec<(u32, &str)>)]) -> Vec<u8> {
    let mut o = vec![];
    uleb(entries.len() as u64, &mut o);
    for (i, m) in entries {
        uleb(*i as u64, &mut o);
        o.extend_from_slice(&name_map(m));
    }
    o
}
/// producers-section payload
pub fn producers(fields: &[(&str, Vec<(&str, &str)>)]) -> Vec<u8> {
    let mut o = vec![];
    uleb(fields.len() as u64, &mut o);
    for (f, vals) in fields {
        name(f, &mut o);
        uleb(vals.len() as u64, &mut o);
        for (n, v) in vals {
            name(n, &mut o);
            name(v, &mut o);
        }
    }
    o
}
