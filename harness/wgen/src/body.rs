//! `body(Σ, L)`: every *valid* operator sequence of length <= L over a 34-token alphabet,
//! placed as `f(i32,i32)->i32` in a fixed scaffold (DESIGN §3.2).
//!
//! Termination by construction: a branch whose target frame is a `loop` is only admitted as
//! the fused, counter-guarded unit `LOOPBACK(d)`; calls go to non-recursive helpers.

use crate::mb::*;
use wmodel::{validate214, FeatureSet};

#[derive(Clone, Copy, Debug, PartialEq, Eq)]
pub enum Fk {
    Func,
    Block,
    Loop,
    If { result: bool, has_else: bool },
}

#[derive(Clone, Debug, PartialEq, Eq)]
pub enum Tk {
    Plain,
    Open(Fk),
    Else,
    End,
    /// branch with the listed relative depths (none may be a loop)
    Br(Vec<u32>),
    /// the fused counter-guarded back edge to depth d (target must be a loop)
    LoopBack(u32),
}

#[derive(Clone, Debug)]
pub struct Tok {
    pub name: &'static str,
    pub bytes: Vec<u8>,
    pub kind: Tk,
    /// unconditional control transfer (what follows in the same frame is dead)
    pub transfer: bool,
}

pub const COUNTER_LOCAL: u32 = 5;
pub const SUBJECT_BASE: u32 = 3;

pub fn alphabet() -> Vec<Tok> {
    let t = |name: &'static str, bytes: Vec<u8>| Tok { name, bytes, kind: Tk::Plain, transfer: false };
    let loopback = |d: u32| -> Vec<u8> {
        cat(&[&local_get(COUNTER_LOCAL), &i32_const(1), &[0x6a], &local_tee(COUNTER_LOCAL), &i32_const(3), &[0x49], &[0x0d], &uleb_v(d as u64)])
    };
    vec![
        t("local.get 0", local_get(0)),
        t("local.get 1", local_get(1)),
        t("local.get 2", local_get(2)),
        t("local.set 2", local_set(2)),
        t("local.tee 2", local_tee(2)),
        t("local.get 3", local_get(3)),
        t("local.set 3", local_set(3)),
        t("i32.const 7", i32_const(7)),
        t("i64.const 9", i64_const(9)),
        t("i32.add", vec![0x6a]),
        t("i32.eqz", vec![0x45]),
        t("drop", vec![DROP]),
        t("select", vec![0x1b]),
        t("nop", vec![NOP]),
        Tok { name: "unreachable", bytes: vec![UNREACHABLE], kind: Tk::Plain, transfer: true },
        Tok { name: "return", bytes: vec![RETURN], kind: Tk::Plain, transfer: true },
        Tok { name: "block", bytes: vec![0x02, 0x40], kind: Tk::Open(Fk::Block), transfer: false },
        Tok { name: "block (result i32)", bytes: vec![0x02, 0x7f], kind: Tk::Open(Fk::Block), transfer: false },
        Tok { name: "block (type 0)", bytes: vec![0x02, 0x00], kind: Tk::Open(Fk::Block), transfer: false },
        Tok { name: "loop", bytes: vec![0x03, 0x40], kind: Tk::Open(Fk::Loop), transfer: false },
        Tok { name: "if", bytes: vec![0x04, 0x40], kind: Tk::Open(Fk::If { result: false, has_else: false }), transfer: false },
        Tok { name: "if (result i32)", bytes: vec![0x04, 0x7f], kind: Tk::Open(Fk::If { result: true, has_else: false }), transfer: false },
        Tok { name: "else", bytes: vec![0x05], kind: Tk::Else, transfer: false },
        Tok { name: "end", bytes: vec![END], kind: Tk::End, transfer: false },
        Tok { name: "br 0", bytes: vec![0x0c, 0], kind: Tk::Br(vec![0]), transfer: true },
        Tok { name: "br 1", bytes: vec![0x0c, 1], kind: Tk::Br(vec![1]), transfer: true },
        Tok { name: "br_if 0", bytes: vec![0x0d, 0], kind: Tk::Br(vec![0]), transfer: false },
        Tok { name: "br_if 1", bytes: vec![0x0d, 1], kind: Tk::Br(vec![1]), transfer: false },
        Tok { name: "br_table 0 1 0", bytes: vec![0x0e, 2, 0, 1, 0], kind: Tk::Br(vec![0, 1]), transfer: true },
        Tok { name: "loopback 0", bytes: loopback(0), kind: Tk::LoopBack(0), transfer: false },
        Tok { name: "loopback 1", bytes: loopback(1), kind: Tk::LoopBack(1), transfer: false },
        t("call helper", call(1)),
        t("call log", call(0)),
        t("call_indirect", vec![0x11, 0x00, 0x00]),
        Tok { name: "return_call helper", bytes: vec![0x12, 0x01], kind: Tk::Plain, transfer: true },
        t("global.get 0", global_get(0)),
        t("global.set 0", global_set(0)),
        t("i32.load", vec![0x28, 0x02, 0x00]),
        t("i32.store", vec![0x36, 0x02, 0x04]),
        t("memory.grow", vec![0x40, 0x00]),
    ]
}

/// The scaffold with the given subject bodies (each: instruction bytes incl. final `end`).
/// Subject k is function SUBJECT_BASE + k, exported as "s<k>".
pub fn scaffold(bodies: &[Vec<u8>]) -> Vec<u8> {
    let mut mb = MB::default();
    let t0 = mb.ty(&[I32], &[I32]);
    let t1 = mb.ty(&[I32, I32], &[I32]);
    mb.imports.push(("env".into(), "log".into(), Desc::Func(t0)));
    mb.mems.push(Lim::new(1, Some(2)));
    mb.tables.push((FUNCREF, Lim::new(4, None)));
    mb.globals.push((I32, true, expr(i32_const(5))));
    // helper: x+1 ; helper2: log(x)
    mb.func(t0, vec![], cat(&[&local_get(0), &i32_const(1), &[0x6a], &[END]]));
    mb.func(t0, vec![], cat(&[&local_get(0), &call(0), &[END]]));
    mb.export("mem", 2, 0);
    mb.export("tab", 1, 0);
    mb.export("g", 3, 0);
    mb.elems.push(elem_seg(0, 0, &i32_const(0), &[1, 2, 0], &[], FUNCREF));
    mb.datas.push(data_seg(0, 0, &i32_const(0), &[1, 2, 3, 4, 5, 6, 7, 8]));
    for (k, b) in bodies.iter().enumerate() {
        let f = mb.func(t1, vec![(1, I32), (1, I64), (1, I32), (1, I32)], b.clone());
        mb.export(&format!("s{}", k), 0, f);
    }
    mb.build()
}

pub fn body_bytes(alpha: &[Tok], seq: &[u8]) -> Vec<u8> {
    let mut b = vec![];
    for t in seq {
        b.extend_from_slice(&alpha[*t as usize].bytes);
    }
    b.push(END);
    b
}

pub fn show(alpha: &[Tok], seq: &[u8]) -> String {
    seq.iter().map(|t| alpha[*t as usize].name).collect::<Vec<_>>().join("; ")
}

fn completion(frames: &[Fk]) -> Vec<u8> {
    // make the stack polymorphic, then close every open frame
    let mut s = vec![UNREACHABLE];
    for f in frames.iter().rev() {
        match f {
            Fk::Func => {}
            Fk::If { result: true, has_else: false } => {
                s.push(0x05);
                s.push(UNREACHABLE);
                s.push(END);
                s.push(UNREACHABLE);
            }
            _ => {
                s.push(END);
                s.push(UNREACHABLE);
            }
        }
    }
    s.push(END);
    s
}

/// is this member one that exercises a construct walrus treats specially?
pub fn nontrivial(alpha: &[Tok], seq: &[u8]) -> bool {
    let mut open_ifs: Vec<(bool, bool)> = vec![];
    for (i, t) in seq.iter().enumerate() {
        let tok = &alpha[*t as usize];
        if tok.name == "nop" || tok.name == "block (type 0)" {
            return true;
        }
        if tok.transfer && i + 1 < seq.len() {
            let nx = &alpha[seq[i + 1] as usize];
            if nx.kind != Tk::End && nx.kind != Tk::Else {
                return true;
            }
        }
        match &tok.kind {
            Tk::Open(Fk::If { .. }) => open_ifs.push((true, false)),
            Tk::Open(_) => open_ifs.push((false, false)),
            Tk::Else => {
                if let Some(l) = open_ifs.last_mut() {
                    l.1 = true;
                }
            }
            Tk::End => {
                if let Some((true, false)) = open_ifs.pop() {
                    return true;
                }
            }
            _ => {}
        }
    }
    false
}

struct Dfs<'a> {
    alpha: &'a [Tok],
    max_len: usize,
    out: Vec<Vec<u8>>,
    validations: u64,
}

impl<'a> Dfs<'a> {
    fn valid(&mut self, code: Vec<u8>) -> bool {
        self.validations += 1;
        validate214(&scaffold(&[code]), FeatureSet::DEFAULT).is_ok()
    }
    fn go(&mut self, seq: &mut Vec<u8>, bytes: &mut Vec<u8>, frames: &mut Vec<Fk>) {
        // member?
        if frames.len() == 1 && !seq.is_empty() {
            let mut code = bytes.clone();
            code.push(END);
            if self.valid(code) {
                self.out.push(seq.clone());
            }
        }
        if seq.len() == self.max_len {
            return;
        }
        for (ti, tok) in self.alpha.iter().enumerate() {
            // frame bookkeeping and the loop-branch restriction
            let mut nf = frames.clone();
            match &tok.kind {
                Tk::Plain => {}
                Tk::Open(k) => nf.push(*k),
                Tk::Else => match nf.last_mut() {
                    Some(Fk::If { has_else, .. }) if !*has_else => *has_else = true,
                    _ => continue,
                },
                Tk::End => {
                    if nf.len() <= 1 {
                        continue;
                    }
                    nf.pop();
                }
                Tk::Br(ds) => {
                    let mut ok = true;
                    for d in ds {
                        let d = *d as usize;
                        if d >= nf.len() || nf[nf.len() - 1 - d] == Fk::Loop {
                            ok = false;
                        }
                    }
                    if !ok {
                        continue;
                    }
                }
                Tk::LoopBack(d) => {
                    let d = *d as usize;
                    if d >= nf.len() || nf[nf.len() - 1 - d] != Fk::Loop {
                        continue;
                    }
                }
            }
            let keep = bytes.len();
            bytes.extend_from_slice(&tok.bytes);
            seq.push(ti as u8);
            // can the remaining budget still close all frames?
            let need = nf.len() - 1;
            if seq.len() + need <= self.max_len {
                let mut probe = bytes.clone();
                probe.extend_from_slice(&completion(&nf));
                if self.valid(probe) {
                    self.go(seq, bytes, &mut nf);
                }
            }
            seq.pop();
            bytes.truncate(keep);
        }
    }
}

/// All members with length <= max_len whose first token is `first` (None = all first tokens).
/// Returns (token sequences, validator calls made).
pub fn enumerate(alpha: &[Tok], max_len: usize, first: Option<usize>) -> (Vec<Vec<u8>>, u64) {
    let mut d = Dfs { alpha, max_len, out: vec![], validations: 0 };
    let mut frames = vec![Fk::Func];
    match first {
        None => d.go(&mut vec![], &mut vec![], &mut frames),
        Some(f) => {
            // restrict the first level
            let tok = &alpha[f];
            let mut nf = frames.clone();
            match &tok.kind {
                Tk::Plain => {}
                Tk::Open(k) => nf.push(*k),
                _ => return (vec![], 0),
            }
            let mut bytes = tok.bytes.clone();
            let mut seq = vec![f as u8];
            if seq.len() + nf.len() - 1 <= max_len {
                let mut probe = bytes.clone();
                probe.extend_from_slice(&completion(&nf));
                if d.valid(probe) {
                    d.go(&mut seq, &mut bytes, &mut nf);
                }
            }
        }
    }
    (d.out, d.validations)
}
