//! `opcensus`: the operator census (DESIGN §3.2).  The opcode space (single bytes and the
//! 0xFC/0xFD/0xFE prefixed sub-opcodes) x a list of immediate instances x operand-type tuples is
//! pushed through wasmparser 0.214 (decode prefilter, then the reference validator with
//! walrus's documented default feature set).  Every accepted (operator, immediate instance) is a
//! census entry; nothing is taken from walrus's own opcode tables.

use crate::mb::{sleb_v, uleb, uleb_v};
use std::collections::{BTreeMap, BTreeSet};
use wmodel::{validate214, FeatureSet};

const TYS: [u8; 7] = [0x7f, 0x7e, 0x7d, 0x7c, 0x7b, 0x70, 0x6f];

fn sec(id: u8, body: Vec<u8>, out: &mut Vec<u8>) {
    out.push(id);
    uleb(body.len() as u64, out);
    out.extend(body);
}

/// Scaffold: types t0 = (params)->(), t1 = ()->(), t2 = (i32)->(i32), t3 = (i32)->(), t4 = (i32,i64)->(f32); funcs f0:t1, f1:t2,
/// f2: the subject (type t0); tables: 0 funcref, 1 externref, 2 funcref 64-bit, 3 funcref (5..9);
/// memories: 0 32-bit, 1 64-bit, 2 32-bit (2..3); globals 0..6 mutable of every value type;
/// elems: 0 passive funcref [f0], 1 passive externref [null]; data: 0 passive.
pub fn module(params: &[u8], body: &[u8]) -> Vec<u8> {
    let mut m = b"\0asm\x01\0\0\0".to_vec();
    let mut t = vec![5u8, 0x60];
    uleb(params.len() as u64, &mut t);
    t.extend(params);
    t.push(0);
    t.extend([0x60, 0, 0, 0x60, 1, 0x7f, 1, 0x7f]);
    // t3 = (i32)->(), t4 = (i32,i64)->(f32): block types with parameters (and without results)
    t.extend([0x60, 1, 0x7f, 0, 0x60, 2, 0x7f, 0x7e, 1, 0x7d]);
    sec(1, t, &mut m);
    sec(3, vec![3, 1, 2, 0], &mut m);
    // tables 0 and 3 (and memories 0 and 2) have the same index type but different limits, so that
    // an operator that names two *distinct* entities of one kind exists and a swap is visible
    sec(4, vec![4, 0x70, 0, 4, 0x6f, 0, 4, 0x70, 4, 4, 0x70, 1, 5, 9], &mut m);
    sec(5, vec![3, 0, 1, 4, 1, 1, 2, 3], &mut m);
    let mut g = vec![7u8];
    g.extend([0x7f, 1, 0x41, 0, 0x0b]);
    g.extend([0x7e, 1, 0x42, 0, 0x0b]);
    g.extend([0x7d, 1, 0x43, 0, 0, 0, 0, 0x0b]);
    g.extend([0x7c, 1, 0x44, 0, 0, 0, 0, 0, 0, 0, 0, 0x0b]);
    g.extend([0x7b, 1, 0xfd, 0x0c]);
    g.extend([0u8; 16]);
    g.push(0x0b);
    g.extend([0x70, 1, 0xd0, 0x70, 0x0b]);
    g.extend([0x6f, 1, 0xd0, 0x6f, 0x0b]);
    sec(6, g, &mut m);
    // export the subject so that the function correspondence is anchored
    sec(7, vec![1, 1, b's', 0, 2], &mut m);
    // elem 0: passive funcref [f0] (flag 1); elem 1: passive externref exprs [ref.null extern] (flag 5)
    sec(9, vec![2, 1, 0, 1, 0, 5, 0x6f, 1, 0xd0, 0x6f, 0x0b], &mut m);
    sec(12, vec![1], &mut m);
    let mut code = vec![3u8];
    for b in [&[0u8, 0x0b][..], &[0, 0x20, 0, 0x0b][..]] {
        uleb(b.len() as u64, &mut code);
        code.extend(b);
    }
    let mut fb = vec![0u8];
    fb.extend(body);
    fb.push(0x0b);
    uleb(fb.len() as u64, &mut code);
    code.extend(fb);
    sec(10, code, &mut m);
    sec(11, vec![1, 1, 1, 0xaa], &mut m);
    m
}

#[derive(Clone, Debug)]
pub struct Entry {
    pub op: String,
    pub class: &'static str,
    /// opcode bytes followed by the immediate instance (and `end`/`else end` for block ops)
    pub enc: Vec<u8>,
    pub params: Vec<u8>,
    pub drops: usize,
}

impl Entry {
    pub fn body(&self) -> Vec<u8> {
        let mut body = vec![];
        for (i, _) in self.params.iter().enumerate() {
            body.push(0x20);
            body.push(i as u8);
        }
        body.extend(&self.enc);
        for _ in 0..self.drops {
            body.push(0x1a);
        }
        body
    }
    pub fn module(&self) -> Vec<u8> {
        module(&self.params, &self.body())
    }
    pub fn coords(&self) -> String {
        format!("{} [{}] enc={} params={} drops={}", self.op, self.class, wmodel::hex(&self.enc), wmodel::hex(&self.params), self.drops)
    }
}

fn memarg(align: u8, mem: u32, offset: u64) -> Vec<u8> {
    let mut v = vec![];
    if mem == 0 {
        v.push(align);
    } else {
        v.push(align | 0x40);
        uleb(mem as u64, &mut v);
    }
    uleb(offset, &mut v);
    v
}

/// (class, instance bytes); `boundary` selects the full boundary set instead of two per class
pub fn instances(boundary: bool) -> Vec<(&'static str, Vec<u8>)> {
    let mut t: Vec<(&'static str, Vec<u8>)> = vec![("none", vec![])];
    // single index 0..=6 (globals of every type, tables, functions, locals, data/elem, memories)
    for i in 0..=6u8 {
        t.push(("idx", vec![i]));
    }
    // two indices over {0,1,2,3}: pairs of *distinct* entities first (a swap must be visible)
    for a in 0..=3u8 {
        for b in 0..=3u8 {
            if a != b {
                t.push(("idx2", vec![a, b]));
            }
        }
    }
    for a in 0..=3u8 {
        t.push(("idx2", vec![a, a]));
    }
    // memargs
    let offs32: &[u64] = if boundary { &[0, 1, 1 << 31, (1 << 32) - 1] } else { &[0, (1 << 32) - 1] };
    let offs64: &[u64] = if boundary { &[0, 1 << 32, (1 << 32) + 4, u64::MAX] } else { &[(1 << 32) + 4] };
    let aligns: &[u8] = if boundary { &[0, 1, 2, 3, 4] } else { &[0, 1, 2, 3, 4] };
    for &a in aligns {
        for &o in offs32 {
            t.push(("memarg", memarg(a, 0, o)));
        }
        for &o in offs64 {
            t.push(("memarg64", memarg(a, 1, o)));
        }
        t.push(("memarg-mem2", memarg(a, 2, 16)));
    }
    // memarg + lane
    let lanes: &[u8] = if boundary { &[0, 1, 3, 7, 15] } else { &[0, 1] };
    for &a in aligns.iter().take(4) {
        for &l in lanes {
            let mut v = memarg(a, 0, if boundary { (1 << 32) - 1 } else { 8 });
            v.push(l);
            t.push(("memarg-lane", v));
            if boundary {
                let mut v = memarg(a, 1, (1 << 32) + 4);
                v.push(l);
                t.push(("memarg64-lane", v));
            }
        }
    }
    // lanes
    for l in [0u8, 1, 3, 7, 15, 16, 31] {
        t.push(("lane", vec![l]));
    }
    // shuffle
    let ident: Vec<u8> = (0..16).collect();
    let rev: Vec<u8> = (0..16).rev().map(|x| x + 16).collect();
    t.push(("shuffle", ident));
    t.push(("shuffle", rev));
    t.push(("shuffle", vec![31; 16]));
    // constants
    let i32s: &[i64] = if boundary { &[0, -1, i32::MIN as i64, i32::MAX as i64] } else { &[-1, i32::MIN as i64] };
    for &v in i32s {
        t.push(("sleb32", sleb_v(v)));
    }
    let i64s: &[i64] = if boundary { &[0, -1, i64::MIN, i64::MAX] } else { &[i64::MIN, i64::MAX] };
    for &v in i64s {
        t.push(("sleb64", sleb_v(v)));
    }
    let f32s: &[u32] = if boundary {
        &[0, 0x8000_0000, 0x3fc0_0000, 0x7f80_0000, 0xff80_0000, 0x7fc0_0000, 0x7fa0_0000, 0xffc1_2345]
    } else {
        &[0x7fa0_0000, 0xffc1_2345]
    };
    for &v in f32s {
        t.push(("f32", v.to_le_bytes().to_vec()));
    }
    let f64s: &[u64] = if boundary {
        &[0, 1 << 63, 0x3ff8 << 48, 0x7ff0 << 48, 0xfff0 << 48, 0x7ff8 << 48, 0x7ff4 << 48, 0xfff8_0000_dead_beef]
    } else {
        &[0x7ff4 << 48, 0xfff8_0000_dead_beef]
    };
    for &v in f64s {
        t.push(("f64", v.to_le_bytes().to_vec()));
    }
    // sixteen different bytes first, then one with the top bit of the low half set (and an upper half
    // that is neither zero nor all ones), then the uniform ones
    t.push(("v128", (0..16u8).map(|x| x.wrapping_mul(17).wrapping_add(1)).collect()));
    t.push(("v128", vec![0, 0, 0, 0, 0, 0, 0, 0x80, 1, 2, 3, 4, 5, 6, 7, 0x48]));
    t.push(("v128", vec![0; 16]));
    t.push(("v128", vec![0xff; 16]));
    // block types + end / else end
    for bt in [vec![0x40u8], vec![0x7f], vec![0x6f], vec![0x01], vec![0x02], vec![0x03], vec![0x04]] {
        let mut a = bt.clone();
        a.push(0x0b);
        t.push(("block", a));
        let mut b = bt.clone();
        b.extend([0x05, 0x0b]);
        t.push(("block-else", b));
    }
    // block types *with parameters*: t3 = (i32)->(), t4 = (i32,i64)->(f32); the body consumes them
    t.push(("block-body", vec![0x03, 0x1a, 0x0b]));
    t.push(("block-body", vec![0x03, 0x1a, 0x05, 0x1a, 0x0b]));
    t.push(("block-body", vec![0x04, 0x1a, 0x1a, 0x43, 0, 0, 0, 0, 0x0b]));
    t.push(("block-body", vec![0x04, 0x1a, 0x1a, 0x43, 0, 0, 0, 0, 0x05, 0x1a, 0x1a, 0x43, 0, 0, 0, 0, 0x0b]));
    // br_table
    t.push(("brtable", vec![1, 0, 0]));
    t.push(("brtable", vec![0, 0]));
    t.push(("brtable", vec![3, 0, 0, 0, 0]));
    // typed select
    for ty in TYS {
        t.push(("select-t", vec![1, ty]));
    }
    // heap types
    t.push(("heap", vec![0x70]));
    t.push(("heap", vec![0x6f]));
    t
}

fn decode214(bytes: &[u8]) -> Option<Vec<String>> {
    let f = wp214::WasmFeatures::all();
    let mut r = wp214::BinaryReader::new(bytes, 0, f);
    let mut names = vec![];
    while !r.eof() {
        match r.read_operator() {
            Ok(op) => {
                let d = format!("{:?}", op);
                names.push(d.split(|c| c == ' ' || c == '{' || c == '(').next().unwrap().to_string());
            }
            Err(_) => return None,
        }
        if names.len() > 9 {
            return None;
        }
    }
    Some(names)
}

#[derive(Clone, Debug, Default)]
pub struct Report {
    pub opcode_candidates: usize,
    pub instance_count: usize,
    pub decodable: usize,
    pub validator_calls: u64,
    pub accepted_entries: usize,
    pub accepted_names: Vec<String>,
    /// names of wasmparser 0.214's operator list that were not accepted, with the reason shown
    pub not_accepted: BTreeMap<String, String>,
    /// names neither accepted nor demonstrably feature-rejected (machinery gap)
    pub unexplained: Vec<String>,
}

fn tuples() -> Vec<Vec<u8>> {
    let mut tuples: Vec<Vec<u8>> = vec![vec![]];
    for a in TYS {
        tuples.push(vec![a]);
    }
    for a in TYS {
        for b in TYS {
            tuples.push(vec![a, b]);
        }
    }
    for a in TYS {
        for b in TYS {
            for c in TYS {
                tuples.push(vec![a, b, c]);
            }
        }
    }
    tuples
}

/// Decodable candidates: (subject name, class, enc)
pub fn candidates(boundary: bool) -> (Vec<(String, &'static str, Vec<u8>)>, usize, usize) {
    let inst = instances(boundary);
    let mut opcodes: Vec<Vec<u8>> = (0u16..=0xff).filter(|b| ![0xfb, 0xfc, 0xfd, 0xfe].contains(b)).map(|b| vec![b as u8]).collect();
    for p in [0xfbu8, 0xfc, 0xfd, 0xfe] {
        for n in 0u64..0x200 {
            let mut v = vec![p];
            uleb(n, &mut v);
            opcodes.push(v);
        }
    }
    let mut out = vec![];
    let mut seen: BTreeSet<Vec<u8>> = BTreeSet::new();
    for op in &opcodes {
        for (class, imm) in &inst {
            let mut enc = op.clone();
            enc.extend(imm);
            if let Some(names) = decode214(&enc) {
                if names.is_empty() {
                    continue;
                }
                let block = *class == "block" || *class == "block-else";
                // exactly one operator, or a block opener followed only by else/end
                let ok = if block {
                    matches!(names[0].as_str(), "Block" | "Loop" | "If") && names[1..].iter().all(|n| n == "Else" || n == "End") && names.len() >= 2
                } else if *class == "block-body" {
                    matches!(names[0].as_str(), "Block" | "Loop" | "If") && names[1..].iter().all(|n| matches!(n.as_str(), "Else" | "End" | "Drop" | "F32Const"))
                } else {
                    names.len() == 1
                };
                if ok && seen.insert(enc.clone()) {
                    out.push((names[0].clone(), *class, enc));
                }
            }
        }
    }
    (out, opcodes.len(), inst.len())
}

/// Find a typing (params, drops) under which the reference validator accepts `enc`.
fn find_typing(enc: &[u8], hint: Option<&(Vec<u8>, usize)>, tuples: &[Vec<u8>], calls: &mut u64) -> Option<(Vec<u8>, usize)> {
    let try_one = |params: &[u8], drops: usize, calls: &mut u64| -> bool {
        let mut body = vec![];
        for (i, _) in params.iter().enumerate() {
            body.push(0x20);
            body.push(i as u8);
        }
        body.extend(enc);
        for _ in 0..drops {
            body.push(0x1a);
        }
        *calls += 1;
        validate214(&module(params, &body), FeatureSet::DEFAULT).is_ok()
    };
    if let Some((p, d)) = hint {
        if try_one(p, *d, calls) {
            return Some((p.clone(), *d));
        }
    }
    for t in tuples {
        for drops in 0..3usize {
            if try_one(t, drops, calls) {
                return Some((t.clone(), drops));
            }
        }
    }
    None
}

/// Run the census on `threads` workers. `per_name` limits the number of entries kept per
/// operator name (None = every accepted immediate instance).
pub fn census(boundary: bool, per_name: Option<usize>, threads: usize) -> (Vec<Entry>, Report) {
    let (cands, n_op, n_inst) = candidates(boundary);
    let tuples = tuples();
    let mut rep = Report { opcode_candidates: n_op, instance_count: n_inst, decodable: cands.len(), ..Default::default() };
    // group by opcode bytes prefix = name, so that the typing found for one instance is the hint for the next
    let mut by_name: BTreeMap<String, Vec<(&'static str, Vec<u8>)>> = BTreeMap::new();
    for (n, c, e) in cands {
        by_name.entry(n).or_default().push((c, e));
    }
    let groups: Vec<(String, Vec<(&'static str, Vec<u8>)>)> = by_name.into_iter().collect();
    let next = std::sync::atomic::AtomicUsize::new(0);
    let results: std::sync::Mutex<Vec<(usize, Vec<Entry>, u64)>> = std::sync::Mutex::new(vec![]);
    std::thread::scope(|s| {
        for _ in 0..threads.max(1) {
            s.spawn(|| loop {
                let i = next.fetch_add(1, std::sync::atomic::Ordering::Relaxed);
                if i >= groups.len() {
                    break;
                }
                let (name, encs) = &groups[i];
                let mut calls = 0u64;
                let mut hint: Option<(Vec<u8>, usize)> = None;
                let mut entries = vec![];
                let mut per_class: BTreeMap<&'static str, usize> = BTreeMap::new();
                for (class, enc) in encs {
                    if let Some(k) = per_name {
                        // block signatures are few and each is its own case: never capped
                        let is_block = *class == "block" || *class == "block-else" || *class == "block-body";
                        if !is_block && entries.len() >= k && *per_class.get(class).unwrap_or(&0) >= 1 {
                            continue;
                        }
                    }
                    if let Some((p, d)) = find_typing(enc, hint.as_ref(), &tuples, &mut calls) {
                        hint = Some((p.clone(), d));
                        *per_class.entry(class).or_default() += 1;
                        entries.push(Entry { op: name.clone(), class, enc: enc.clone(), params: p, drops: d });
                    }
                }
                results.lock().unwrap().push((i, entries, calls));
            });
        }
    });
    let mut res = results.into_inner().unwrap();
    res.sort_by_key(|r| r.0);
    let mut entries = vec![];
    let mut accepted: BTreeSet<String> = BTreeSet::new();
    for (_, es, calls) in res {
        rep.validator_calls += calls;
        for e in es {
            accepted.insert(e.op.clone());
            entries.push(e);
        }
    }
    // block templates also exhibit Else and End
    if accepted.contains("If") {
        accepted.insert("Else".into());
    }
    if accepted.contains("Block") {
        accepted.insert("End".into());
    }
    // completeness cross-check against wasmparser 0.214's own operator list
    let decodable_names: BTreeMap<String, Vec<u8>> = groups.iter().map(|(n, e)| (n.clone(), e[0].1.clone())).collect();
    for (name, proposal) in wmodel::validate::ALL_OP_NAMES_214 {
        if accepted.contains(*name) {
            continue;
        }
        // show a feature reason on a decodable instance
        let reason = match decodable_names.get(*name) {
            Some(enc) => {
                let mut found = None;
                for t in tuples.iter().take(60) {
                    let mut body = vec![];
                    for (i, _) in t.iter().enumerate() {
                        body.push(0x20);
                        body.push(i as u8);
                    }
                    body.extend(enc);
                    if let Err(e) = validate214(&module(t, &body), FeatureSet::DEFAULT) {
                        if e.contains("support is not enabled") || e.contains("not enabled") {
                            found = Some(e);
                            break;
                        }
                    }
                }
                found
            }
            None => None,
        };
        match reason {
            Some(r) => {
                rep.not_accepted.insert(name.to_string(), format!("[{}] {}", proposal, r.split(" (at offset").next().unwrap_or("").to_string()));
            }
            None => {
                // outside the 12 documented proposals by wasmparser's own classification?
                let outside = matches!(
                    *proposal,
                    "exceptions" | "legacy_exceptions" | "gc" | "function_references" | "memory_control" | "shared_everything_threads"
                );
                if outside {
                    rep.not_accepted.insert(name.to_string(), format!("[{}] proposal outside walrus's documented feature set (no decodable instance exhibited)", proposal));
                } else {
                    rep.unexplained.push(name.to_string());
                }
            }
        }
    }
    rep.accepted_entries = entries.len();
    rep.accepted_names = accepted.into_iter().collect();
    (entries, rep)
}
