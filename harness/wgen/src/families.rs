//! Module-level families: fixtures, struct, funcs, locals, customs, names.

use crate::mb::*;
use crate::{Member, Tier};
use std::path::Path;

// ------------------------------------------------------------------------------------------
// fixtures
// ------------------------------------------------------------------------------------------

/// every .wat / .wast under crates/tests/tests/{valid,round_trip,function_imports,ir}
pub fn fixtures(repo: &Path) -> (Vec<Member>, Vec<String>) {
    let mut out = vec![];
    let mut notes = vec![];
    for dir in ["valid", "round_trip", "function_imports", "ir"] {
        let d = repo.join("crates/tests/tests").join(dir);
        let mut files: Vec<_> = match std::fs::read_dir(&d) {
            Ok(r) => r.filter_map(|e| e.ok()).map(|e| e.path()).collect(),
            Err(_) => {
                notes.push(format!("fixture dir missing: {}", d.display()));
                continue;
            }
        };
        files.sort();
        for f in files {
            let ext = f.extension().and_then(|e| e.to_str()).unwrap_or("");
            if ext != "wat" && ext != "wast" {
                continue;
            }
            match wat::parse_file(&f) {
                Ok(w) => out.push(Member {
                    family: "fixtures",
                    coords: format!("{}/{}", dir, f.file_name().unwrap().to_string_lossy()),
                    wasm: w,
                }),
                Err(e) => notes.push(format!("fixture {} not assembled by wat 1.259: {}", f.display(), e.to_string().lines().next().unwrap_or(""))),
            }
        }
    }
    (out, notes)
}

// ------------------------------------------------------------------------------------------
// struct: module-level attribute products inside a context that has one of everything
// ------------------------------------------------------------------------------------------

pub const DIMS: [&str; 12] =
    ["imem", "lmem", "itab", "ltab", "iglob", "lglob", "elem", "data", "start", "exports", "types", "fimp"];

#[derive(Default, Clone)]
pub struct Scratch {
    imem: Option<(u32, bool)>,
    itab: Option<(u32, u8, bool)>,
    iglob: Option<(u32, u8, bool)>,
    /// imported immutable globals by type, for `global.get` initialisers
    ig_i32: u32,
    ig_funcref: Option<u32>,
    ig_externref: Option<u32>,
    ig_by_ty: Vec<(u8, u32)>,
    istart: Option<u32>,
    fimp: Vec<u32>,
}

pub struct Ctx {
    pub t0: u32,
    pub t1: u32,
    pub t2: u32,
    pub if0: u32,
    pub ig0: u32,
    pub it0: u32,
    pub m0: u32,
    pub lt0: u32,
    pub xt0: u32,
    pub g0: u32,
    pub g1: u32,
    pub f1: u32,
    pub f2: u32,
    pub f3: u32,
}

fn mem_variants() -> Vec<Option<Lim>> {
    vec![
        None,
        Some(Lim { min: 1, max: None, shared: false, is64: false }),
        Some(Lim { min: 0, max: None, shared: false, is64: false }),
        Some(Lim { min: 1, max: Some(2), shared: false, is64: false }),
        Some(Lim { min: 1, max: Some(2), shared: true, is64: false }),
        Some(Lim { min: 1, max: None, shared: false, is64: true }),
        Some(Lim { min: 1, max: Some(5), shared: false, is64: true }),
        Some(Lim { min: 1, max: Some(3), shared: true, is64: true }),
        Some(Lim { min: 3, max: Some(65536), shared: false, is64: false }),
    ]
}
fn tab_variants() -> Vec<Option<(u8, Lim)>> {
    vec![
        None,
        Some((FUNCREF, Lim::new(1, None))),
        Some((FUNCREF, Lim::new(1, Some(3)))),
        Some((EXTERNREF, Lim::new(0, None))),
        Some((EXTERNREF, Lim::new(2, Some(2)))),
        Some((FUNCREF, Lim { min: 1, max: None, shared: false, is64: true })),
        Some((EXTERNREF, Lim { min: 1, max: Some(9), shared: false, is64: true })),
    ]
}
const GTYPES: [u8; 7] = [I32, I64, F32, F64, V128, FUNCREF, EXTERNREF];

fn const_for(t: u8, k: u32) -> Vec<u8> {
    match t {
        I32 => i32_const(7000 + k as i32),
        I64 => i64_const(-(9000 + k as i64)),
        F32 => f32_const(0x7fc0_0001 + k),
        F64 => f64_const(0xfff8_0000_0000_0001 + k as u64),
        V128 => {
            let mut b = [0u8; 16];
            for (i, x) in b.iter_mut().enumerate() {
                *x = (i as u8).wrapping_mul(17).wrapping_add(k as u8);
            }
            v128_const(b)
        }
        FUNCREF => ref_null(FUNCREF),
        EXTERNREF => ref_null(EXTERNREF),
        _ => unreachable!(),
    }
}

pub fn dim_count(dim: &str) -> usize {
    match dim {
        "imem" | "lmem" => mem_variants().len(),
        "itab" | "ltab" => tab_variants().len(),
        "iglob" => 1 + GTYPES.len() * 2,
        // (type, mutable, init kind): kinds const / global.get / ref.func (funcref only)
        "lglob" => 1 + GTYPES.len() * 2 * 2 + 2,
        // flag(8) x table(2) x offset(2) x items(3)
        "elem" => 1 + 8 * 2 * 2 * 3,
        // flag(3) x mem(2) x offset(2) x payload(2)
        "data" => 1 + 3 * 2 * 2 * 2,
        "start" => 3,
        "exports" => 7,
        "types" => 5,
        "fimp" => 5,
        _ => 0,
    }
}

fn pre(dim: &str, v: usize, mb: &mut MB, s: &mut Scratch) {
    match dim {
        "imem" => {
            if let Some(l) = &mem_variants()[v] {
                let idx = mb.n_imported(2);
                mb.imports.push(("env".into(), format!("imem{}", v), Desc::Mem(l.clone())));
                s.imem = Some((idx, l.is64));
            }
        }
        "itab" => {
            if let Some((rt, l)) = &tab_variants()[v] {
                let idx = mb.n_imported(1);
                mb.imports.push(("env".into(), format!("itab{}", v), Desc::Table(*rt, l.clone())));
                s.itab = Some((idx, *rt, l.is64));
            }
        }
        "iglob" => {
            if v > 0 {
                let t = GTYPES[(v - 1) / 2];
                let m = (v - 1) % 2 == 1;
                let idx = mb.n_imported(3);
                mb.imports.push(("env".into(), format!("iglob{}", v), Desc::Global(t, m)));
                s.iglob = Some((idx, t, m));
            }
        }
        "lglob" => {
            // init kind global.get needs an imported immutable global of the same type
            if v > 0 && v <= GTYPES.len() * 4 {
                let k = v - 1;
                let t = GTYPES[k / 4];
                let kind = k % 2;
                if kind == 1 {
                    let idx = mb.n_imported(3);
                    mb.imports.push(("env".into(), format!("lgsrc{}", t), Desc::Global(t, false)));
                    s.ig_by_ty.push((t, idx));
                }
            }
        }
        "elem" => {
            if v > 0 {
                // imported funcref / externref globals for `global.get` items
                let i = mb.n_imported(3);
                mb.imports.push(("env".into(), "egf".into(), Desc::Global(FUNCREF, false)));
                s.ig_funcref = Some(i);
                mb.imports.push(("env".into(), "egx".into(), Desc::Global(EXTERNREF, false)));
                s.ig_externref = Some(i + 1);
            }
        }
        "start" => {
            if v == 2 {
                let t0 = mb.ty(&[], &[]);
                let idx = mb.n_imported(0);
                mb.imports.push(("env".into(), "istart".into(), Desc::Func(t0)));
                s.istart = Some(idx);
            }
        }
        "fimp" => {
            let t1 = mb.ty(&[I32], &[I32]);
            let t0 = mb.ty(&[], &[]);
            let mut add = |m: &str, n: &str, t: u32, mb: &mut MB| {
                let idx = mb.n_imported(0);
                mb.imports.push((m.into(), n.into(), Desc::Func(t)));
                s.fimp.push(idx);
            };
            match v {
                1 => add("env", "if0", t1, mb),   // duplicate module+name of the context import
                2 => add("", "", t0, mb),         // empty names
                3 => add("other", "unused", t1, mb),
                4 => {
                    add("env", "dup", t0, mb);
                    add("env", "dup", t1, mb);
                }
                _ => {}
            }
        }
        _ => {}
    }
}

fn post(dim: &str, v: usize, mb: &mut MB, c: &Ctx, s: &Scratch, marker: &mut i32) {
    let mut mk = |mb: &mut MB, ty: u32, body: Vec<u8>| -> u32 {
        *marker += 1;
        let mut code = i32_const(*marker);
        code.push(DROP);
        code.extend_from_slice(&body);
        code.push(END);
        mb.func(ty, vec![], code)
    };
    match dim {
        "imem" => {
            if let Some((idx, is64)) = s.imem {
                mb.export(&format!("imem{}", v), 2, idx);
                // touch it from code: load with explicit memory index
                let addr = if is64 { i64_const(0) } else { i32_const(0) };
                let mut body = addr;
                body.extend_from_slice(&[0x28, 0x42]); // i32.load align=2 | bit6: memory index follows
                uleb(idx as u64, &mut body);
                uleb(4, &mut body);
                body.push(DROP);
                let f = mk(mb, c.t0, body);
                mb.export(&format!("imem{}_f", v), 0, f);
            }
        }
        "lmem" => {
            if let Some(l) = &mem_variants()[v] {
                mb.mems.push(l.clone());
                let idx = mb.n_imported(2) + mb.mems.len() as u32 - 1;
                mb.export(&format!("lmem{}", v), 2, idx);
                let mut body = if l.is64 { i64_const(8) } else { i32_const(8) };
                body.extend_from_slice(&i32_const(5));
                body.extend_from_slice(&[0x36, 0x42]);
                uleb(idx as u64, &mut body);
                uleb(0, &mut body);
                let f = mk(mb, c.t0, body);
                mb.export(&format!("lmem{}_f", v), 0, f);
            }
        }
        "itab" => {
            if let Some((idx, _rt, _)) = s.itab {
                mb.export(&format!("itab{}", v), 1, idx);
                let mut body = vec![0xfc, 0x10];
                uleb(idx as u64, &mut body); // table.size
                body.push(DROP);
                let f = mk(mb, c.t0, body);
                mb.export(&format!("itab{}_f", v), 0, f);
            }
        }
        "ltab" => {
            if let Some((rt, l)) = &tab_variants()[v] {
                mb.tables.push((*rt, l.clone()));
                let idx = mb.n_imported(1) + mb.tables.len() as u32 - 1;
                mb.export(&format!("ltab{}", v), 1, idx);
            }
        }
        "iglob" => {
            if let Some((idx, _t, m)) = s.iglob {
                mb.export(&format!("iglob{}", v), 3, idx);
                let mut body = global_get(idx);
                if m {
                    body.extend_from_slice(&global_set(idx));
                } else {
                    body.push(DROP);
                }
                let f = mk(mb, c.t0, body);
                mb.export(&format!("iglob{}_f", v), 0, f);
            }
        }
        "lglob" => {
            if v == 0 {
                return;
            }
            let (t, m, init) = if v <= GTYPES.len() * 4 {
                let k = v - 1;
                let t = GTYPES[k / 4];
                let m = (k / 2) % 2 == 1;
                let init = if k % 2 == 0 {
                    const_for(t, v as u32)
                } else {
                    let src = s.ig_by_ty.iter().find(|(tt, _)| *tt == t).unwrap().1;
                    global_get(src)
                };
                (t, m, init)
            } else {
                // ref.func initialisers
                let m = v == GTYPES.len() * 4 + 2;
                (FUNCREF, m, ref_func(c.f2))
            };
            mb.globals.push((t, m, expr(init)));
            let idx = mb.n_imported(3) + mb.globals.len() as u32 - 1;
            mb.export(&format!("lglob{}", v), 3, idx);
        }
        "elem" => {
            if v == 0 {
                return;
            }
            let k = v - 1;
            let flag = (k % 8) as u8;
            let tsel = (k / 8) % 2;
            let osel = (k / 16) % 2;
            let isel = (k / 32) % 3;
            let use_exprs = flag & 4 != 0;
            // items
            let (rt, funcs, exprs): (u8, Vec<u32>, Vec<Vec<u8>>) = if !use_exprs {
                let fs = match isel {
                    0 => vec![c.f1, c.f2],
                    1 => vec![],
                    _ => vec![c.f3, c.if0, c.f3],
                };
                (FUNCREF, fs, vec![])
            } else {
                match isel {
                    0 => (FUNCREF, vec![], vec![ref_func(c.f1), ref_null(FUNCREF), global_get(s.ig_funcref.unwrap())]),
                    1 => (FUNCREF, vec![], vec![ref_func(c.if0)]),
                    // externref items are only expressible with flags 5,6,7
                    _ => {
                        if flag == 4 {
                            (FUNCREF, vec![], vec![])
                        } else {
                            (EXTERNREF, vec![], vec![ref_null(EXTERNREF), global_get(s.ig_externref.unwrap())])
                        }
                    }
                }
            };
            // table: a funcref or externref table matching the items
            let table = if rt == EXTERNREF {
                c.xt0
            } else if tsel == 0 {
                c.lt0
            } else {
                c.it0
            };
            // flags 0 and 4 can only address table 0
            let active = flag & 1 == 0;
            let explicit = flag & 2 != 0;
            if active && !explicit && table != 0 {
                // would silently target table 0: only keep if table 0 has the right type (it0 is funcref table 0)
                if rt != FUNCREF {
                    return;
                }
            }
            let offset = if osel == 0 { i32_const(1) } else { global_get(c.ig0) };
            mb.elems.push(elem_seg(flag, table, &offset, &funcs, &exprs, rt));
            let eidx = mb.elems.len() as u32 - 1;
            // reference passive / declared segments from code so that GC keeps them
            if !active {
                let mut body = vec![];
                if flag & 2 == 0 {
                    // passive: table.init into the matching table + elem.drop
                    body.extend_from_slice(&i32_const(0));
                    body.extend_from_slice(&i32_const(0));
                    body.extend_from_slice(&i32_const(0));
                    body.extend_from_slice(&[0xfc, 0x0c]);
                    uleb(eidx as u64, &mut body);
                    uleb(if rt == EXTERNREF { c.xt0 } else { c.lt0 } as u64, &mut body);
                    body.extend_from_slice(&[0xfc, 0x0d]);
                    uleb(eidx as u64, &mut body);
                } else if let Some(f) = funcs.first().copied().or(if use_exprs && rt == FUNCREF && !exprs.is_empty() { Some(if isel == 0 { c.f1 } else { c.if0 }) } else { None }) {
                    // declared: ref.func of a declared function
                    body.extend_from_slice(&ref_func(f));
                    body.push(DROP);
                }
                let f = mk(mb, c.t0, body);
                mb.export(&format!("elem{}_f", v), 0, f);
            }
        }
        "data" => {
            if v == 0 {
                return;
            }
            let k = v - 1;
            let flag = (k % 3) as u8;
            let msel = (k / 3) % 2;
            let osel = (k / 6) % 2;
            let psel = (k / 12) % 2;
            let mem = if msel == 0 {
                c.m0
            } else {
                mb.mems.push(Lim::new(1, Some(4)));
                mb.n_imported(2) + mb.mems.len() as u32 - 1
            };
            if flag == 0 && mem != 0 {
                return;
            }
            let offset = if osel == 0 { i32_const(16) } else { global_get(c.ig0) };
            let payload: Vec<u8> = if psel == 0 { vec![] } else { format!("payload-{}", v).into_bytes() };
            mb.datas.push(data_seg(flag, mem, &offset, &payload));
            let didx = mb.datas.len() as u32 - 1;
            if flag == 1 {
                // memory.init + data.drop need the data-count section
                mb.needs_data_count = true;
                let mut body = vec![];
                body.extend_from_slice(&i32_const(0));
                body.extend_from_slice(&i32_const(0));
                body.extend_from_slice(&i32_const(0));
                body.extend_from_slice(&[0xfc, 0x08]);
                uleb(didx as u64, &mut body);
                uleb(mem as u64, &mut body);
                body.extend_from_slice(&[0xfc, 0x09]);
                uleb(didx as u64, &mut body);
                let f = mk(mb, c.t0, body);
                mb.export(&format!("data{}_f", v), 0, f);
            }
        }
        "start" => match v {
            1 => {
                let f = mk(mb, c.t0, cat(&[&i32_const(55), &global_set(c.g0)]));
                mb.start = Some(f);
            }
            2 => mb.start = s.istart,
            _ => {}
        },
        "exports" => match v {
            1 => {
                mb.export("f1-again", 0, c.f1);
                mb.export("", 0, c.f1);
            }
            2 => {
                mb.export("mem-again", 2, c.m0);
            }
            3 => {
                mb.export("g0-again", 3, c.g0);
                mb.export("g1", 3, c.g1);
            }
            4 => {
                mb.export("tab-again", 1, c.lt0);
                mb.export("itab", 1, c.it0);
            }
            5 => {
                mb.export("if0", 0, c.if0);
                mb.export("ig0", 3, c.ig0);
            }
            6 => {
                // exports in an order different from definition order
                mb.exports.reverse();
            }
            _ => {}
        },
        "types" => match v {
            1 => {
                // a duplicate of t1 used by an extra function
                mb.types.push((vec![I32], vec![I32]));
                let t = mb.types.len() as u32 - 1;
                let f = mk(mb, t, local_get(0));
                mb.export("dupty", 0, f);
            }
            2 => {
                mb.types.push((vec![F64, F64], vec![F32]));
            }
            3 => {
                // multi-value type used as a block type only
                mb.types.push((vec![], vec![I32, I64]));
                let t = mb.types.len() as u32 - 1;
                let mut body = vec![0x02];
                sleb(t as i64, &mut body);
                body.extend_from_slice(&i32_const(1));
                body.extend_from_slice(&i64_const(2));
                body.push(END);
                body.push(DROP);
                body.push(DROP);
                let f = mk(mb, c.t0, body);
                mb.export("mv", 0, f);
            }
            4 => {
                // duplicate of t0 first used by call_indirect
                mb.types.push((vec![], vec![]));
                let t = mb.types.len() as u32 - 1;
                let mut body = i32_const(0);
                body.push(0x11);
                uleb(t as u64, &mut body);
                uleb(c.lt0 as u64, &mut body);
                let f = mk(mb, c.t0, body);
                mb.export("ci", 0, f);
            }
            _ => {}
        },
        "fimp" => {
            for (k, f) in s.fimp.iter().enumerate() {
                if v != 3 {
                    mb.export(&format!("fimp{}_{}", v, k), 0, *f);
                }
            }
        }
        _ => {}
    }
}

/// Build one `struct` member from a list of (dimension, variant) choices.
pub fn build_struct(choices: &[(&str, usize)]) -> Vec<u8> {
    let mut mb = MB::default();
    let t0 = mb.ty(&[], &[]);
    let t1 = mb.ty(&[I32], &[I32]);
    let t2 = mb.ty(&[I32, I32], &[I32]);
    let mut s = Scratch::default();
    // context imports first (so that table 0 / global 0 / func 0 are the context's)
    mb.imports.push(("env".into(), "if0".into(), Desc::Func(t1)));
    mb.imports.push(("env".into(), "ig0".into(), Desc::Global(I32, false)));
    mb.imports.push(("env".into(), "it0".into(), Desc::Table(FUNCREF, Lim::new(4, None))));
    for (d, v) in choices {
        pre(d, *v, &mut mb, &mut s);
    }
    s.ig_i32 = 0;
    let if0 = 0;
    let ig0 = 0;
    let it0 = 0;
    // context locals
    mb.mems.push(Lim::new(1, Some(2)));
    let m0 = mb.n_imported(2);
    mb.tables.push((FUNCREF, Lim::new(4, Some(8))));
    let lt0 = mb.n_imported(1);
    mb.tables.push((EXTERNREF, Lim::new(3, None)));
    let xt0 = lt0 + 1;
    mb.globals.push((I32, true, expr(i32_const(100))));
    let g0 = mb.n_imported(3);
    mb.globals.push((I64, false, expr(i64_const(7))));
    let g1 = g0 + 1;
    let nf = mb.n_imported(0);
    let (f1, f2, f3) = (nf, nf + 1, nf + 2);
    // f1: (i32)->i32  calls the import, touches memory
    mb.func(
        t1,
        vec![(1, I32)],
        cat(&[
            &i32_const(1001),
            &[DROP],
            &local_get(0),
            &call(if0),
            &local_tee(1),
            &i32_const(4),
            // i32.load; the explicit-memory-index encoding only when m0 is not memory 0
            &(if m0 == 0 { vec![0x28, 0x02, 0x00] } else { cat(&[&[0x28, 0x42], &uleb_v(m0 as u64), &[0x00]]) }),
            &[0x6a],             // i32.add
            &[END],
        ]),
    );
    // f2: ()->()  writes the global, calls f3
    mb.func(
        t0,
        vec![],
        cat(&[&i32_const(1002), &[DROP], &global_get(g0), &i32_const(1), &[0x6a], &global_set(g0), &i32_const(3), &i32_const(4), &call(f3), &[DROP], &[END]]),
    );
    // f3: (i32,i32)->i32 call_indirect through the local table, reads ig0
    mb.func(
        t2,
        vec![],
        cat(&[&i32_const(1003), &[DROP], &local_get(0), &local_get(1), &[0x11], &uleb_v(t1 as u64), &uleb_v(lt0 as u64), &global_get(ig0), &[0x6a], &[END]]),
    );
    mb.export("f1", 0, f1);
    mb.export("f2", 0, f2);
    mb.export("mem", 2, m0);
    mb.export("g0", 3, g0);
    mb.export("tab", 1, lt0);
    mb.export("xtab", 1, xt0);
    mb.elems.push(elem_seg(2, lt0, &i32_const(0), &[f1, f2], &[], FUNCREF));
    mb.datas.push(data_seg(if m0 == 0 { 0 } else { 2 }, m0, &i32_const(0), b"ctx"));
    // imported table gets a segment too (rooted by GC rules)
    mb.elems.push(elem_seg(0, 0, &i32_const(1), &[f3], &[], FUNCREF));
    let c = Ctx { t0, t1, t2, if0, ig0, it0, m0, lt0, xt0, g0, g1, f1, f2, f3 };
    let mut marker = 2000;
    for (d, v) in choices {
        post(d, *v, &mut mb, &c, &s, &mut marker);
    }
    mb.build()
}

pub fn struct_family(tier: Tier) -> Vec<Member> {
    let mut out = vec![];
    out.push(Member { family: "struct", coords: "ctx".into(), wasm: build_struct(&[]) });
    for d in DIMS {
        for v in 1..dim_count(d) {
            out.push(Member { family: "struct", coords: format!("{}={}", d, v), wasm: build_struct(&[(d, v)]) });
        }
    }
    if tier == Tier::Thorough {
        // all triples of dimensions, over a reduced variant set (every 3rd variant of the large dimensions)
        let red = |d: &str| -> Vec<usize> {
            let n = dim_count(d);
            if n <= 9 { (1..n).collect() } else { (1..n).step_by(3).collect() }
        };
        for (i, d1) in DIMS.iter().enumerate() {
            for (j, d2) in DIMS.iter().enumerate().skip(i + 1) {
                for d3 in DIMS.iter().skip(j + 1) {
                    for v1 in red(d1) {
                        for v2 in red(d2) {
                            for v3 in red(d3) {
                                out.push(Member {
                                    family: "struct",
                                    coords: format!("{}={},{}={},{}={}", d1, v1, d2, v2, d3, v3),
                                    wasm: build_struct(&[(d1, v1), (d2, v2), (d3, v3)]),
                                });
                            }
                        }
                    }
                }
            }
        }
        for (i, d1) in DIMS.iter().enumerate() {
            for d2 in DIMS.iter().skip(i + 1) {
                for v1 in 1..dim_count(d1) {
                    for v2 in 1..dim_count(d2) {
                        out.push(Member {
                            family: "struct",
                            coords: format!("{}={},{}={}", d1, v1, d2, v2),
                            wasm: build_struct(&[(d1, v1), (d2, v2)]),
                        });
                    }
                }
            }
        }
    }
    out
}

/// regenerate a struct member from its coords string
pub fn struct_from_coords(coords: &str) -> Vec<u8> {
    if coords == "ctx" {
        return build_struct(&[]);
    }
    let ch: Vec<(&str, usize)> = coords
        .split(',')
        .map(|kv| {
            let mut it = kv.split('=');
            let d = it.next().unwrap();
            let d: &'static str = DIMS.iter().find(|x| **x == d).copied().unwrap();
            (d, it.next().unwrap().parse().unwrap())
        })
        .collect();
    build_struct(&ch)
}

// ------------------------------------------------------------------------------------------
// funcs(n): n functions, every assignment of sizes from {1,2,3} x call-graph shapes
// ------------------------------------------------------------------------------------------

/// sizes[i] in 1..=3 = number of padding units in function i; shape: 0 = no calls, 1 = chain
/// (i calls i+1), 2 = star (0 calls all), 3 = reverse chain (i calls i-1)
pub fn build_funcs(sizes: &[usize], shape: usize, with_import: bool) -> Vec<u8> {
    let mut mb = MB::default();
    let t1 = mb.ty(&[I32], &[I32]);
    if with_import {
        mb.imports.push(("env".into(), "h".into(), Desc::Func(t1)));
    }
    let base = mb.n_imported(0);
    let n = sizes.len();
    for (i, sz) in sizes.iter().enumerate() {
        let mut code = cat(&[&i32_const(3000 + i as i32), &[DROP]]);
        for k in 0..*sz {
            // padding that is not elided: local.get 0; i32.const k; i32.add; local.set 0
            code.extend_from_slice(&cat(&[&local_get(0), &i32_const(k as i32 + 1), &[0x6a], &local_set(0)]));
        }
        let callee: Vec<u32> = match shape {
            1 if i + 1 < n => vec![base + i as u32 + 1],
            2 if i == 0 => (1..n as u32).map(|k| base + k).collect(),
            3 if i > 0 => vec![base + i as u32 - 1],
            _ => vec![],
        };
        for c in callee {
            code.extend_from_slice(&cat(&[&local_get(0), &call(c), &local_set(0)]));
        }
        if with_import && i == n - 1 {
            code.extend_from_slice(&cat(&[&local_get(0), &call(0), &local_set(0)]));
        }
        code.extend_from_slice(&local_get(0));
        code.push(END);
        let f = mb.func(t1, vec![], code);
        mb.export(&format!("f{}", i), 0, f);
    }
    mb.build()
}

pub fn funcs_family(tier: Tier) -> Vec<Member> {
    let maxn = if tier == Tier::Quick { 3 } else { 5 };
    let mut out = vec![];
    for n in 1..=maxn {
        let total = 3usize.pow(n as u32);
        for code in 0..total {
            let mut sizes = vec![];
            let mut c = code;
            for _ in 0..n {
                sizes.push(1 + c % 3);
                c /= 3;
            }
            for shape in 0..4 {
                if n == 1 && shape > 0 {
                    continue;
                }
                for imp in [false, true] {
                    out.push(Member {
                        family: "funcs",
                        coords: format!("sizes={:?},shape={},imp={}", sizes, shape, imp),
                        wasm: build_funcs(&sizes, shape, imp),
                    });
                }
            }
        }
    }
    out
}

// ------------------------------------------------------------------------------------------
// locals: every declaration of <= 3 extra locals over 4 types x used subsets x params x grouping
// ------------------------------------------------------------------------------------------

pub fn build_locals(params: usize, decl: &[u8], used: u32, grouped: bool) -> Vec<u8> {
    let mut mb = MB::default();
    let ptys: Vec<u8> = (0..params).map(|i| if i == 0 { I32 } else { I64 }).collect();
    let t = mb.ty(&ptys, &[I32]);
    // local runs: either one run per local or grouped by adjacent equal types
    let mut runs: Vec<(u32, u8)> = vec![];
    for ty in decl {
        if grouped {
            if let Some(l) = runs.last_mut() {
                if l.1 == *ty {
                    l.0 += 1;
                    continue;
                }
            }
        }
        runs.push((1, *ty));
    }
    let mut code = vec![];
    // use locals in *reverse* order so that first-use order differs from declaration order
    for (i, ty) in decl.iter().enumerate().rev() {
        if used & (1 << i) == 0 {
            continue;
        }
        let idx = (params + i) as u32;
        let c = match *ty {
            I32 => i32_const(40 + i as i32),
            I64 => i64_const(50 + i as i64),
            F32 => f32_const(0x3fc00000 + i as u32),
            EXTERNREF => ref_null(EXTERNREF),
            _ => unreachable!(),
        };
        code.extend_from_slice(&c);
        code.extend_from_slice(&local_set(idx));
        code.extend_from_slice(&local_get(idx));
        code.push(DROP);
    }
    if params > 0 {
        code.extend_from_slice(&local_get(0));
    } else {
        code.extend_from_slice(&i32_const(9));
    }
    if params > 1 {
        code.extend_from_slice(&local_get(1));
        code.push(DROP);
    }
    code.push(END);
    let f = mb.func(t, runs, code);
    mb.export("f", 0, f);
    mb.build()
}

/// the same module with a name section naming the function, every parameter and every declared local
pub fn build_locals_named(params: usize, decl: &[u8], used: u32, grouped: bool) -> Vec<u8> {
    let mut w = build_locals(params, decl, used, grouped);
    let names: Vec<String> = (0..params + decl.len()).map(|i| format!("L{}", i)).collect();
    let entries: Vec<(u32, &str)> = names.iter().enumerate().map(|(i, n)| (i as u32, n.as_str())).collect();
    let payload = name_section(&[(1, name_map(&[(0, "the_function")])), (2, indirect_name_map(&[(0, entries)]))]);
    append_custom(&mut w, "name", &payload);
    w
}

/// as `build_locals_named`, but the entries whose bit is set in `empty` carry the empty string as
/// their name (wabt's `--debug-names` writes an entry for every local, empty when it has no name)
pub fn build_locals_named_with_empty(params: usize, decl: &[u8], used: u32, empty: u32) -> Vec<u8> {
    let mut w = build_locals(params, decl, used, false);
    let names: Vec<String> = (0..params + decl.len()).map(|i| if empty & (1 << i) != 0 { String::new() } else { format!("L{}", i) }).collect();
    let entries: Vec<(u32, &str)> = names.iter().enumerate().map(|(i, n)| (i as u32, n.as_str())).collect();
    let payload = name_section(&[(1, name_map(&[(0, "the_function")])), (2, indirect_name_map(&[(0, entries)]))]);
    append_custom(&mut w, "name", &payload);
    w
}

pub fn locals_named_family() -> Vec<Member> {
    let tys = [I32, I64, F32, EXTERNREF];
    let mut out = vec![];
    for params in [0usize, 1] {
        let decl = [I32, I64, F32];
        for empty in 1..(1u32 << (params + 3)) {
            out.push(Member { family: "locals-named", coords: format!("params={},decl={:?},used=111,empty-names={:b}", params, decl, empty), wasm: build_locals_named_with_empty(params, &decl, 0b111, empty) });
        }
    }
    for params in 0..=2usize {
        for n in 1..=3usize {
            let total = tys.len().pow(n as u32);
            for code in 0..total {
                let mut decl = vec![];
                let mut c = code;
                for _ in 0..n {
                    decl.push(tys[c % 4]);
                    c /= 4;
                }
                for used in 0..(1u32 << n) {
                    out.push(Member {
                        family: "locals-named",
                        coords: format!("params={},decl={:?},used={:b}", params, decl, used),
                        wasm: build_locals_named(params, &decl, used, false),
                    });
                }
            }
        }
    }
    out
}

/// local declarations with a zero-count group at `pos` (0 front, 1 middle, 2 back) of type `zty`:
/// valid, and the group declares nothing, so the two real groups keep indices 0 and 1..=2
pub fn build_locals_zero_group(pos: usize, zty: u8) -> Vec<u8> {
    let mut mb = MB::default();
    let t = mb.ty(&[], &[I32]);
    let mut runs = vec![(1u32, I32), (2u32, I64)];
    runs.insert(pos.min(2), (0, zty));
    let code = cat(&[&i64_const(5), &local_set(2), &i32_const(7), &local_set(0), &local_get(2), &[DROP], &local_get(0), &[END]]);
    let f = mb.func(t, runs, code);
    mb.export("f", 0, f);
    mb.build()
}

pub fn locals_family() -> Vec<Member> {
    let tys = [I32, I64, F32, EXTERNREF];
    let mut out = vec![];
    // locals that only dead code mentions, directly or inside a construct that starts in dead code
    for (k, (term, nested)) in [("(return (local.get $a))", true), ("(return (local.get $a))", false), ("(unreachable)", true), ("(br 0 (local.get $a))", true), ("(br_table 0 0 (local.get $a) (i32.const 0))", true)].iter().enumerate() {
        let dead = if *nested {
            "(block (local.set $b (i64.const 2)) (loop (local.set $c (f32.const 1)) (if (local.get $a) (then (local.set $d (ref.null extern))))))"
        } else {
            "(local.set $b (i64.const 2)) (local.set $c (f32.const 1)) (local.set $d (ref.null extern))"
        };
        let src = format!(
            r#"(module (func (export "f") (param i32) (result i32) (local $a i32) (local $b i64) (local $c f32) (local $d externref) (local $e i32)
                 (local.set $e (i32.const 3)) (local.set $a (i32.add (local.get 0) (local.get $e))) {} {} (local.get $a)))"#,
            term, dead
        );
        out.push(Member { family: "locals", coords: format!("dead-code-only locals #{} nested={}", k, nested), wasm: wat::parse_str(&src).unwrap_or_else(|e| panic!("dead locals {}: {}", k, e)) });
    }
    for pos in 0..3usize {
        for zty in [I32, F64, V128, FUNCREF, EXTERNREF] {
            out.push(Member { family: "locals", coords: format!("zero-count-group pos={} type={:#x}", pos, zty), wasm: build_locals_zero_group(pos, zty) });
        }
    }
    for params in 0..=2usize {
        for n in 0..=3usize {
            let total = tys.len().pow(n as u32);
            for code in 0..total {
                let mut decl = vec![];
                let mut c = code;
                for _ in 0..n {
                    decl.push(tys[c % 4]);
                    c /= 4;
                }
                for used in 0..(1u32 << n) {
                    for grouped in [false, true] {
                        if grouped && n < 2 {
                            continue;
                        }
                        out.push(Member {
                            family: "locals",
                            coords: format!("params={},decl={:?},used={:b},grouped={}", params, decl, used, grouped),
                            wasm: build_locals(params, &decl, used, grouped),
                        });
                    }
                }
            }
        }
    }
    out
}

// ------------------------------------------------------------------------------------------
// customs: <= k custom sections at every combination of the 13 gaps x names x payload sizes
// ------------------------------------------------------------------------------------------

pub const CUSTOM_NAMES: [&str; 6] = ["a", "b", "", ".debu", "nameX", "producersX"];
/// names that tool conventions give a meaning (walrus interprets none of them) with payloads whose
/// prefix is well-formed for that convention, so that a reader which classifies sections by name
/// recognises them
pub fn tool_convention_customs() -> Vec<(&'static str, Vec<u8>)> {
    vec![
        ("dylink.0", vec![1, 4, 0, 0, 0, 0]),
        ("dylink", vec![0, 0, 0, 0, 0]),
        ("linking", vec![2]),
        ("linking", vec![2, 8, 1, 0]),
        ("reloc.CODE", vec![3, 0]),
        ("reloc.DATA", vec![5, 0]),
        ("metadata.code.branch_hint", vec![0]),
        ("component-name", vec![0, 1, b'c']),
        ("target_features", vec![1, b'+', 3, b's', b'i', b'm']),
        ("sourceMappingURL", vec![3, b'a', b'.', b'm']),
        ("external_debug_info", vec![1, b'x']),
        ("build_id", vec![2, 0xaa, 0xbb]),
        ("core", vec![0, 1, b'p']),
        ("coremodules", vec![0]),
        ("coreinstances", vec![0]),
        ("corestack", vec![0, 1, b't', 0]),
        // names that merely contain ".debug" (LLVM object files: relocations *for* a debug section)
        ("reloc..debug_info", vec![6, 0]),
        ("rust.debug_gdb_scripts", vec![1, 2, 3]),
        ("my.debug-map", vec![9]),
        ("x.debug", vec![]),
        ("name.", vec![1]),
        ("producers2", vec![0]),
    ]
}
pub const CUSTOM_SIZES: [usize; 4] = [0, 1, 127, 128];

fn customs_base() -> MB {
    // a module with every standard section present, so that all 13 gaps are distinct
    let mut mb = MB::default();
    let t0 = mb.ty(&[], &[]);
    mb.imports.push(("env".into(), "h".into(), Desc::Func(t0)));
    mb.tables.push((FUNCREF, Lim::new(2, None)));
    mb.mems.push(Lim::new(1, None));
    mb.globals.push((I32, true, expr(i32_const(1))));
    let f = mb.func(t0, vec![], cat(&[&[0xfc, 0x09, 0x00], &[END]])); // data.drop 0
    let g = mb.func(t0, vec![], cat(&[&call(0), &[END]]));
    mb.export("f", 0, f);
    mb.export("m", 2, 0);
    mb.start = Some(g);
    mb.elems.push(elem_seg(0, 0, &i32_const(0), &[f], &[], FUNCREF));
    mb.datas.push(data_seg(1, 0, &[], b"d"));
    mb.data_count = Some(true);
    mb
}

fn payload(size: usize, salt: u8) -> Vec<u8> {
    (0..size).map(|i| (i as u8).wrapping_mul(31).wrapping_add(salt)).collect()
}

pub fn customs_family(tier: Tier) -> Vec<Member> {
    let mut out = vec![];
    let base = customs_base();
    out.push(Member { family: "customs", coords: "none".into(), wasm: base.build() });
    // one section: every gap x name x size
    for gap in 0..13usize {
        for (ni, n) in CUSTOM_NAMES.iter().enumerate() {
            for sz in CUSTOM_SIZES {
                let mut mb = base.clone();
                mb.customs.push((gap, n.to_string(), payload(sz, 1)));
                out.push(Member { family: "customs", coords: format!("[{}:{}:{}]", gap, ni, sz), wasm: mb.build() });
            }
        }
    }
    // long names (the name-length LEB needs two bytes from 128) at three gaps
    for gap in [0usize, 9, 12] {
        for nl in [127usize, 128, 129, 300] {
            for sz in [0usize, 3] {
                let mut mb = base.clone();
                let n: String = (0..nl).map(|i| (b'a' + (i % 26) as u8) as char).collect();
                mb.customs.push((gap, n, payload(sz, 7)));
                out.push(Member { family: "customs", coords: format!("[{}:longname{}:{}]", gap, nl, sz), wasm: mb.build() });
            }
        }
    }
    // a padded (non-minimal) name-length LEB: appended by hand at the end of the module
    for (nm, pad) in [("ab", 2usize), ("ab", 3), ("", 2), ("q", 5)] {
        let mut w = base.build();
        let mut body = vec![];
        uleb_padded(nm.len() as u64, pad, &mut body);
        body.extend_from_slice(nm.as_bytes());
        body.extend_from_slice(&[9, 8, 7]);
        w.push(0);
        uleb(body.len() as u64, &mut w);
        w.extend_from_slice(&body);
        out.push(Member { family: "customs", coords: format!("[padded-name-leb:{}:{}]", nm, pad), wasm: w });
    }
    // DWARF sections (dropped unless DWARF generation is on) in front of, between and behind unknown
    // sections: whatever happens to them, the unknown ones keep their relative order
    for (k, layout) in [[".debug_str", "a", "b", "c"], ["a", ".debug_info", "b", "c"], ["a", "b", ".debug_line", "c"], [".debug_abbrev", ".debug_info", "b", "a"]].iter().enumerate() {
        for gap in [0usize, 12] {
            let mut mb = base.clone();
            for (i, n) in layout.iter().enumerate() {
                mb.customs.push((gap, n.to_string(), if n.starts_with(".debug") { vec![0u8] } else { payload(i + 1, 20 + i as u8) }));
            }
            out.push(Member { family: "customs", coords: format!("debug-sections-among-unknown #{} gap={}", k, gap), wasm: mb.build() });
        }
    }
    // long section names (the limit for a name is 100 000 bytes)
    for len in [1000usize, 10_000, 10_001, 65_536, 100_000] {
        let mut mb = base.clone();
        let name: String = std::iter::repeat('n').take(len).collect();
        mb.customs.push((0, "front".to_string(), payload(2, 3)));
        mb.customs.push((12, name, payload(3, 7)));
        mb.customs.push((12, "back".to_string(), payload(1, 9)));
        out.push(Member { family: "customs", coords: format!("section name of {} bytes", len), wasm: mb.build() });
    }
    // many custom sections (linker output carries dozens): 33, 40, 64 and 100 unknown ones with DWARF
    // sections in front, in the middle and behind
    for total in [33usize, 40, 64, 100] {
        for debug_at in [0usize, total / 2, total] {
            let mut mb = base.clone();
            for i in 0..=total {
                if i == debug_at {
                    mb.customs.push((12, ".debug_str".to_string(), vec![0u8]));
                    mb.customs.push((12, ".debug_line".to_string(), vec![0u8]));
                }
                if i < total {
                    mb.customs.push((12, format!("meta.{}", i), payload(1 + i % 3, i as u8)));
                }
            }
            out.push(Member { family: "customs", coords: format!("{} unknown sections, DWARF sections in front of #{}", total, debug_at), wasm: mb.build() });
        }
    }
    // a producers section that already records walrus, with an older version (a module that went
    // through a tool built on an older walrus), next to unknown sections
    for fields in [vec![("processed-by", vec![("walrus", "0.1.0")])], vec![("processed-by", vec![("clang", "15"), ("walrus", "0.19.0"), ("walrus", "0.20.0")])], vec![("language", vec![("Rust", "1"), ("Rust", "2")])]] {
        let mut mb = base.clone();
        mb.customs.push((12, "producers".to_string(), producers(&fields)));
        mb.customs.push((12, "a".to_string(), payload(2, 33)));
        out.push(Member { family: "customs", coords: format!("producers {:?}", fields).chars().take(120).collect(), wasm: mb.build() });
    }
    // sections with tool-convention names (in front of everything, and at the end)
    for (k, (n, pl)) in tool_convention_customs().into_iter().enumerate() {
        for gap in [0usize, 12] {
            let mut mb = base.clone();
            mb.customs.push((gap, n.to_string(), pl.clone()));
            mb.customs.push((12, "a".to_string(), payload(2, 9)));
            out.push(Member { family: "customs", coords: format!("tool-convention #{} {} gap={}", k, n, gap), wasm: mb.build() });
        }
    }
    // modules without (live) code: nothing but custom sections; imports only; a memory export
    // and one function that nothing reaches (gc removes all code)
    for (bi, b) in [
        MB::default(),
        {
            let mut m = MB::default();
            let t0 = m.ty(&[], &[]);
            m.imports.push(("env".into(), "h".into(), Desc::Func(t0)));
            m.export("h", 0, 0);
            m
        },
        {
            let mut m = MB::default();
            let t0 = m.ty(&[], &[]);
            m.mems.push(Lim::new(1, None));
            m.export("m", 2, 0);
            m.func(t0, vec![], vec![0x01, END]);
            m
        },
    ]
    .into_iter()
    .enumerate()
    {
        for gaps in [vec![0usize], vec![12], vec![0, 12], vec![0, 0, 12]] {
            let mut mb = b.clone();
            for (k, g) in gaps.iter().enumerate() {
                mb.customs.push((*g, ["a", "b", "a"][k].to_string(), payload(k + 1, 3)));
            }
            out.push(Member { family: "customs", coords: format!("nocode-base{} gaps={:?}", bi, gaps), wasm: mb.build() });
        }
    }
    // two sections: every pair of gaps x name pair (incl. equal names) x two sizes
    let names2: [&str; 3] = ["a", "b", "a"];
    for g1 in 0..13usize {
        for g2 in g1..13usize {
            for (i1, n1) in names2.iter().enumerate().take(2) {
                for (i2, n2) in names2.iter().enumerate() {
                    for (s1, s2) in [(1usize, 0usize), (128, 1)] {
                        let mut mb = base.clone();
                        mb.customs.push((g1, n1.to_string(), payload(s1, 1)));
                        mb.customs.push((g2, n2.to_string(), payload(s2, 2)));
                        out.push(Member {
                            family: "customs",
                            coords: format!("[{}:{}:{}][{}:{}:{}]", g1, i1, s1, g2, i2, s2),
                            wasm: mb.build(),
                        });
                    }
                }
            }
        }
    }
    if tier == Tier::Thorough {
        // three sections: gaps from a reduced set incl. both ends and the code/data boundary
        let gaps = [0usize, 3, 9, 10, 11, 12];
        for &g1 in &gaps {
            for &g2 in gaps.iter().filter(|g| **g >= g1) {
                for &g3 in gaps.iter().filter(|g| **g >= g2) {
                    for n in 0..27usize {
                        let ns = [names2[n % 3], names2[(n / 3) % 3], names2[(n / 9) % 3]];
                        let mut mb = base.clone();
                        mb.customs.push((g1, ns[0].to_string(), payload(1, 1)));
                        mb.customs.push((g2, ns[1].to_string(), payload(2, 2)));
                        mb.customs.push((g3, ns[2].to_string(), payload(3, 3)));
                        out.push(Member {
                            family: "customs",
                            coords: format!("3[{},{},{}]n{}", g1, g2, g3, n),
                            wasm: mb.build(),
                        });
                    }
                }
            }
        }
    }
    out
}

// ------------------------------------------------------------------------------------------
// names: every subset of the 9 name subsections, >= 2 named entities per kind
// ------------------------------------------------------------------------------------------

/// A module shaped so that walrus's size sort permutes the functions, with duplicate types,
/// params, used and unused locals.  shape selects one of three module layouts.
pub fn names_base(shape: usize) -> MB {
    let mut mb = MB::default();
    let t0 = mb.ty(&[], &[]);
    let t1 = mb.ty(&[I32, I64], &[I32]);
    mb.types.push((vec![], vec![])); // duplicate of t0 (index 2)
    let t2 = 2;
    if shape != 1 {
        mb.imports.push(("env".into(), "h".into(), Desc::Func(t0)));
    }
    if shape == 2 {
        mb.imports.push(("env".into(), "ig".into(), Desc::Global(I32, false)));
        mb.imports.push(("env".into(), "it".into(), Desc::Table(FUNCREF, Lim::new(1, None))));
    }
    mb.tables.push((FUNCREF, Lim::new(2, None)));
    mb.tables.push((EXTERNREF, Lim::new(1, None)));
    mb.mems.push(Lim::new(1, None));
    mb.mems.push(Lim::new(2, None));
    mb.globals.push((I32, true, expr(i32_const(1))));
    mb.globals.push((I64, true, expr(i64_const(2))));
    let nf = mb.n_imported(0);
    let nt = mb.n_imported(1);
    let ng = mb.n_imported(3);
    // function A: small; function B: large (so the size sort puts B first); function C: medium
    let fa = mb.func(t0, vec![], cat(&[&i32_const(4001), &[DROP], &[END]]));
    let mut big = cat(&[&i32_const(4002), &[DROP]]);
    for k in 0..6 {
        big.extend_from_slice(&cat(&[&local_get(0), &i32_const(k), &[0x6a], &local_set(3)]));
    }
    // locals of B: params 0,1; local 2 (i64) never used; local 3 (i32) used; local 4 (f32) used
    big.extend_from_slice(&cat(&[&f32_const(0), &local_set(4), &local_get(3), &[END]]));
    let fb = mb.func(t1, vec![(1, I64), (1, I32), (1, F32)], big);
    let fc = mb.func(
        t2,
        vec![(1, I32)],
        cat(&[&i32_const(4003), &[DROP], &i32_const(1), &local_set(0), &global_get(ng), &global_set(ng), &i64_const(5), &global_set(ng + 1), &[END]]),
    );
    mb.export("a", 0, fa);
    mb.export("b", 0, fb);
    mb.export("c", 0, fc);
    mb.export("t0", 1, nt);
    mb.export("t1", 1, nt + 1);
    mb.export("m0", 2, 0);
    mb.export("m1", 2, 1);
    mb.export("g0", 3, ng);
    mb.export("g1", 3, ng + 1);
    mb.elems.push(elem_seg(2, nt, &i32_const(0), &[fa], &[], FUNCREF));
    mb.elems.push(elem_seg(2, nt, &i32_const(1), &[fc], &[], FUNCREF));
    mb.datas.push(data_seg(0, 0, &i32_const(0), b"zero"));
    mb.datas.push(data_seg(2, 1, &i32_const(0), b"one"));
    let _ = nf;
    mb
}

/// the name-section payload for `names_base(shape)` restricted to the subsections in `mask`
/// (bit i = subsection id in [0,1,2,4,5,6,7,8,9][i])
pub fn names_payload(shape: usize, mask: u32) -> Vec<u8> {
    names_payload_stale(shape, mask, None)
}

/// as `names_payload`; with `stale = Some((subsection id, variant))` that subsection carries one
/// more entry, naming an index no entity has (90): such stale entries are left behind by tools
/// that remove entities without rewriting the name section.  For the locals subsection variant 0
/// is a stale *function* index, variant 1 a stale local index inside a real function
pub fn names_payload_stale(shape: usize, mask: u32, stale: Option<(u8, u8)>) -> Vec<u8> {
    let mb = names_base(shape);
    let nf = mb.n_imported(0);
    let nt = mb.n_imported(1);
    let ng = mb.n_imported(3);
    let mut subs: Vec<(u8, Vec<u8>)> = vec![];
    let ids = [0u8, 1, 2, 4, 5, 6, 7, 8, 9];
    for (bit, id) in ids.iter().enumerate() {
        if mask & (1 << bit) == 0 {
            continue;
        }
        let b = match id {
            0 => {
                let mut o = vec![];
                name("the-module", &mut o);
                o
            }
            1 => {
                let mut e: Vec<(u32, &str)> = vec![];
                if nf > 0 {
                    e.push((0, "imp_h"));
                }
                e.push((nf, "fn_a"));
                e.push((nf + 1, "fn_b"));
                e.push((nf + 2, "fn_c"));
                name_map(&e)
            }
            2 => indirect_name_map(&[
                (nf + 1, vec![(0, "b_p0"), (1, "b_p1"), (2, "b_unused"), (3, "b_l3"), (4, "b_l4")]),
                (nf + 2, vec![(0, "c_l0")]),
            ]),
            4 => name_map(&[(0, "ty_void"), (1, "ty_big"), (2, "ty_void_dup")]),
            5 => {
                let mut e: Vec<(u32, &str)> = vec![];
                if nt > 0 {
                    e.push((0, "tab_imp"));
                }
                e.push((nt, "tab_f"));
                e.push((nt + 1, "tab_x"));
                name_map(&e)
            }
            6 => name_map(&[(0, "mem_0"), (1, "mem_1")]),
            7 => {
                let mut e: Vec<(u32, &str)> = vec![];
                if ng > 0 {
                    e.push((0, "glob_imp"));
                }
                e.push((ng, "glob_a"));
                e.push((ng + 1, "glob_b"));
                name_map(&e)
            }
            8 => name_map(&[(0, "elem_0"), (1, "elem_1")]),
            9 => name_map(&[(0, "data_0"), (1, "data_1")]),
            _ => unreachable!(),
        };
        let b = match stale {
            Some((sid, variant)) if sid == *id && *id != 0 => {
                if *id == 2 {
                    if variant == 0 {
                        indirect_name_map(&[
                            (nf + 1, vec![(0, "b_p0"), (1, "b_p1"), (2, "b_unused"), (3, "b_l3"), (4, "b_l4")]),
                            (nf + 2, vec![(0, "c_l0")]),
                            (90, vec![(0, "stale_local")]),
                        ])
                    } else {
                        indirect_name_map(&[
                            (nf + 1, vec![(0, "b_p0"), (1, "b_p1"), (2, "b_unused"), (3, "b_l3"), (4, "b_l4"), (90, "stale_local")]),
                            (nf + 2, vec![(0, "c_l0")]),
                        ])
                    }
                } else {
                    // a name map is a count followed by entries: bump the count (one byte here), append one entry
                    let mut o = b.clone();
                    o[0] += 1;
                    uleb(90, &mut o);
                    name("stale_entry", &mut o);
                    o
                }
            }
            _ => b,
        };
        subs.push((*id, b));
    }
    name_section(&subs)
}

pub fn build_names_stale(sub: u8, variant: u8) -> Vec<u8> {
    let mut mb = names_base(0);
    mb.customs.push((12, "name".into(), names_payload_stale(0, 0x1ff, Some((sub, variant)))));
    mb.build()
}

/// sparse variant: only every other entity of each kind is named (elements name index 1, data
/// names index 0, ...), so that a name written against the wrong index space or the wrong index
/// lands on an *unnamed* entity and is visible
pub fn build_names_sparse(parity: u32) -> Vec<u8> {
    let mut mb = names_base(0);
    let nf = mb.n_imported(0);
    let nt = mb.n_imported(1);
    let ng = mb.n_imported(3);
    let pick = |k: u32, i: u32| (i + k + parity) % 2 == 0;
    let mut subs: Vec<(u8, Vec<u8>)> = vec![];
    let fnames = [(nf, "fn_a"), (nf + 1, "fn_b"), (nf + 2, "fn_c")];
    subs.push((1, name_map(&fnames.iter().filter(|(i, _)| pick(1, *i)).map(|(i, n)| (*i, *n)).collect::<Vec<_>>())));
    let tn = [(nt, "tab_f"), (nt + 1, "tab_x")];
    subs.push((5, name_map(&tn.iter().filter(|(i, _)| pick(5, *i)).map(|(i, n)| (*i, *n)).collect::<Vec<_>>())));
    let mn = [(0u32, "mem_0"), (1, "mem_1")];
    subs.push((6, name_map(&mn.iter().filter(|(i, _)| pick(6, *i)).map(|(i, n)| (*i, *n)).collect::<Vec<_>>())));
    let gn = [(ng, "glob_a"), (ng + 1, "glob_b")];
    subs.push((7, name_map(&gn.iter().filter(|(i, _)| pick(7, *i)).map(|(i, n)| (*i, *n)).collect::<Vec<_>>())));
    let en = [(0u32, "elem_0"), (1, "elem_1")];
    subs.push((8, name_map(&en.iter().filter(|(i, _)| pick(8, *i)).map(|(i, n)| (*i, *n)).collect::<Vec<_>>())));
    let dn = [(0u32, "data_0"), (1, "data_1")];
    subs.push((9, name_map(&dn.iter().filter(|(i, _)| pick(9, *i)).map(|(i, n)| (*i, *n)).collect::<Vec<_>>())));
    mb.customs.push((12, "name".into(), name_section(&subs)));
    mb.build()
}

pub fn build_names(shape: usize, mask: u32) -> Vec<u8> {
    let mut mb = names_base(shape);
    mb.customs.push((12, "name".into(), names_payload(shape, mask)));
    mb.build()
}

pub fn names_family(tier: Tier) -> Vec<Member> {
    let shapes: &[usize] = if tier == Tier::Quick { &[0] } else { &[0, 1, 2] };
    let mut out = vec![];
    for parity in 0..2u32 {
        out.push(Member { family: "names", coords: format!("sparse parity={}", parity), wasm: build_names_sparse(parity) });
    }
    // the names spread over two `name` sections (custom sections may repeat): a split in the middle,
    // a module-name-only "stamp" appended after the full section, and one placed in front of everything
    for (what, first, first_gap, second) in [("split-funcs|rest", 0b000000110u32, 12usize, 0b111111001u32), ("split-rest|funcs", 0b111111001, 12, 0b000000110), ("full+stamp", 0b111111110, 12, 0b000000001), ("stamp-first+full", 0b000000001, 0, 0b111111110)] {
        let mut mb = names_base(0);
        mb.customs.push((first_gap, "name".into(), names_payload(0, first)));
        mb.customs.push((12, "name".into(), names_payload(0, second)));
        out.push(Member { family: "names", coords: format!("two name sections: {}", what), wasm: mb.build() });
    }
    for sub in [1u8, 2, 4, 5, 6, 7, 8, 9] {
        for variant in 0..(if sub == 2 { 2 } else { 1 }) {
            out.push(Member { family: "names", coords: format!("stale entry in subsection {} variant {}", sub, variant), wasm: build_names_stale(sub, variant) });
        }
    }
    // the (one, complete) name section somewhere else than at the end: in front of everything, of the
    // function section, of the code section, of the data section
    for gap in [0usize, 2, 10, 11] {
        let mut mb = names_base(0);
        mb.customs.push((gap, "name".into(), names_payload(0, 0x1ff)));
        out.push(Member { family: "names", coords: format!("complete name section placed at gap {}", gap), wasm: mb.build() });
    }
    // every kind of entity both imported and defined, all of them named
    for (what, src) in [
        ("imported and defined entities of every kind, all named", r#"(module $m (type $ty (func (param i32) (result i32)))
            (import "env" "f" (func $imp_f (type $ty))) (import "env" "tbl" (table $imp_t 4 funcref)) (import "env" "mem" (memory $imp_m 1)) (import "env" "g" (global $imp_g i32))
            (table $own_t 2 funcref) (memory $own_m 1) (global $own_g (mut i32) (i32.const 1))
            (elem $seg (table $imp_t) (i32.const 0) func $imp_f $own_f) (data $dat (memory $own_m) (i32.const 0) "x")
            (func $own_f (export "f") (type $ty) (local $l i32) (local.set $l (local.get 0)) (global.set $own_g (local.get $l)) (global.set $own_g (global.get $imp_g)) (i32.load8_u $imp_m (i32.const 0)) (drop)
              (table.size $own_t) (drop) (call $imp_f (local.get 0))))"#),
        ("several functions carry the same name", r#"(module (func $a (@name "helper") (export "e0") (i32.const 1) (drop))
            (func $big (@name "big") (export "e1") (i32.const 1) (drop) (i32.const 2) (drop) (i32.const 3) (drop) (i32.const 4) (drop))
            (func $b (@name "helper") (export "e2") (i32.const 2) (drop))
            (func $c (@name "helper") (export "e3") (i32.const 3) (drop) (i32.const 3) (drop))
            (func $d (@name "other") (export "e4") (i32.const 4) (drop)))"#),
        ("same name on entities of every kind", r#"(module (type $t (@name "same") (func)) (type $t2 (@name "same") (func (param i32)))
            (import "env" "f" (func $if (@name "same") (type $t))) (func $f1 (@name "same") (export "f1") (type $t2) (local $l (@name "same") i32) (local $l2 (@name "same") i64) (call $if) (global.set $g2 (local.get 0)))
            (func $f2 (@name "same") (export "f2") (type $t) (drop (global.get $g1)) (drop (table.size $t2x)) (drop (memory.size $m2)))
            (global $g1 (@name "same") i32 (i32.const 1)) (global $g2 (@name "same") (mut i32) (i32.const 2))
            (table $t1x (@name "same") (export "t1") 1 funcref) (table $t2x (@name "same") 2 funcref)
            (memory $m1 (@name "same") (export "m1") 1) (memory $m2 (@name "same") 2)
            (data $d1 (@name "same") (memory $m1) (i32.const 0) "a") (data $d2 (@name "same") (memory $m2) (i32.const 0) "b")
            (elem $e1 (@name "same") (table $t1x) (i32.const 0) func $f1) (elem $e2 (@name "same") (table $t2x) (i32.const 0) func $f2))"#),
        ("named types after a pair of identical types", r#"(module (type $a (func)) (type $dup (func)) (type $unary (func (param i32))) (type $bin (func (param i32 i32)))
            (func $f (export "f") (type $a)) (func $g (export "g") (type $dup)) (func $h (export "h") (type $unary)) (func $i (export "i") (type $bin)))"#),
        ("only imported entities are named", r#"(module (import "env" "tbl" (table $imp_t 4 funcref)) (import "env" "mem" (memory $imp_m 1)) (import "env" "g" (global $imp_g i32))
            (table 2 funcref) (memory 1) (global (mut i32) (i32.const 1))
            (func (export "f") (result i32) (global.set 1 (global.get $imp_g)) (i32.load8_u $imp_m (i32.const 0)) (drop) (table.size 1) (drop) (table.size $imp_t)))"#),
    ] {
        out.push(Member { family: "names", coords: what.to_string(), wasm: wat::parse_str(src).unwrap_or_else(|e| panic!("names member: {}", e)) });
    }
    for &shape in shapes {
        for mask in 0..512u32 {
            out.push(Member { family: "names", coords: format!("shape={},mask={:09b}", shape, mask), wasm: build_names(shape, mask) });
        }
    }
    out
}

// ------------------------------------------------------------------------------------------
// reach(k): every subset of size <= k of 40 reference edges over a fixed entity population
// ------------------------------------------------------------------------------------------

pub const REACH_EDGES: usize = 42;

pub fn reach_edge_name(e: usize) -> &'static str {
    [
        "F0:call F1", "F0:call F2", "F0:call IF", "F1:call F2", "F2:call F1", "F1:call IF", "F0:global.get G0", "F1:global.set G0",
        "F0:global.get IG", "F2:global.get G1(init=global.get IG)", "F0:global.get GF(init=ref.func F1)", "F0:table.get LT", "F1:table.size IT",
        "F0:table.size XT", "F0:memory.size", "F1:i32.load", "F0:table.init EP LT", "F0:elem.drop EP", "F2:table.init EX LT", "F0:table.init EXX XT",
        "F0:memory.init DP", "F1:data.drop DP", "F0:ref.func F2", "F0:block(type MV)", "F0:call_indirect T1 LT", "F1:table.copy LT IT", "F0:memory.copy",
        "F2:memory.grow", "export LT", "export M0", "export G0", "start=F2", "EA.offset=global.get IG", "DA.offset=global.get IG", "EA.items+=F1",
        "declared segment ED[F2]", "active segment EAI on imported table [F1]", "active data DA", "export IF", "export GF",
        "F1: return; then a block that calls F2 (dead code, must not keep F2)", "F0: unreachable; then an if that touches G0 and IT (dead code)",
    ][e]
}

pub fn build_reach(edges: &[usize]) -> Vec<u8> {
    let has = |e: usize| edges.contains(&e);
    let mut mb = MB::default();
    let t1 = mb.ty(&[], &[]);
    let mv = mb.ty(&[I32, I64], &[I32, I64]);
    // imports: IF func, IG i32 global, IGF funcref global, IGX externref global, IT table
    mb.imports.push(("env".into(), "if".into(), Desc::Func(t1)));
    mb.imports.push(("env".into(), "ig".into(), Desc::Global(I32, false)));
    mb.imports.push(("env".into(), "igf".into(), Desc::Global(FUNCREF, false)));
    mb.imports.push(("env".into(), "igx".into(), Desc::Global(EXTERNREF, false)));
    mb.imports.push(("env".into(), "it".into(), Desc::Table(FUNCREF, Lim::new(4, None))));
    let (ifn, ig, igf, igx, it) = (0u32, 0u32, 1u32, 2u32, 0u32);
    let (f0, f1, f2) = (1u32, 2u32, 3u32);
    let (g0, g1, gf) = (3u32, 4u32, 5u32);
    let (lt, xt) = (1u32, 2u32);
    mb.tables.push((FUNCREF, Lim::new(4, None)));
    mb.tables.push((EXTERNREF, Lim::new(4, None)));
    mb.mems.push(Lim::new(1, Some(3)));
    mb.globals.push((I32, true, expr(i32_const(11))));
    mb.globals.push((I32, false, expr(global_get(ig))));
    mb.globals.push((FUNCREF, false, expr(ref_func(f1))));
    // element segments: EP=0 passive [F1]; EA=1 active on LT; EX=2 passive exprs funcref; EXX=3 passive externref
    mb.elems.push(elem_seg(1, 0, &[], &[f1], &[], FUNCREF));
    let ea_items: Vec<u32> = if has(34) { vec![f2, f1] } else { vec![f2] };
    let ea_off = if has(32) { global_get(ig) } else { i32_const(0) };
    mb.elems.push(elem_seg(2, lt, &ea_off, &ea_items, &[], FUNCREF));
    mb.elems.push(elem_seg(5, 0, &[], &[], &[ref_func(f1), global_get(igf), ref_null(FUNCREF)], FUNCREF));
    mb.elems.push(elem_seg(5, 0, &[], &[], &[global_get(igx), ref_null(EXTERNREF)], EXTERNREF));
    let (ep, ex, exx) = (0u32, 2u32, 3u32);
    if has(35) {
        mb.elems.push(elem_seg(3, 0, &[], &[f2], &[], FUNCREF));
    }
    if has(36) {
        mb.elems.push(elem_seg(0, 0, &i32_const(1), &[f1], &[], FUNCREF));
    }
    // data: DP=0 passive; DA active
    mb.datas.push(data_seg(1, 0, &[], b"passive-data"));
    let dp = 0u32;
    if has(37) {
        let off = if has(33) { global_get(ig) } else { i32_const(8) };
        mb.datas.push(data_seg(0, 0, &off, b"active-data"));
    }
    mb.data_count = Some(true);
    let zero3 = cat(&[&i32_const(0), &i32_const(0), &i32_const(0)]);
    let mut bodies: [Vec<u8>; 3] = [cat(&[&i32_const(5000), &[DROP]]), cat(&[&i32_const(5001), &[DROP]]), cat(&[&i32_const(5002), &[DROP]])];
    let snippet = |e: usize| -> Option<(usize, Vec<u8>)> {
        Some(match e {
            0 => (0, call(f1)),
            1 => (0, call(f2)),
            2 => (0, call(ifn)),
            3 => (1, call(f2)),
            4 => (2, call(f1)),
            5 => (1, call(ifn)),
            6 => (0, cat(&[&global_get(g0), &[DROP]])),
            7 => (1, cat(&[&i32_const(1), &global_set(g0)])),
            8 => (0, cat(&[&global_get(ig), &[DROP]])),
            9 => (2, cat(&[&global_get(g1), &[DROP]])),
            10 => (0, cat(&[&global_get(gf), &[DROP]])),
            11 => (0, cat(&[&i32_const(0), &[0x25], &uleb_v(lt as u64), &[DROP]])),
            12 => (1, cat(&[&[0xfc, 0x10], &uleb_v(it as u64), &[DROP]])),
            13 => (0, cat(&[&[0xfc, 0x10], &uleb_v(xt as u64), &[DROP]])),
            14 => (0, cat(&[&[0x3f, 0x00], &[DROP]])),
            15 => (1, cat(&[&i32_const(0), &[0x28, 0x02, 0x00], &[DROP]])),
            16 => (0, cat(&[&zero3, &[0xfc, 0x0c], &uleb_v(ep as u64), &uleb_v(lt as u64)])),
            17 => (0, cat(&[&[0xfc, 0x0d], &uleb_v(ep as u64)])),
            18 => (2, cat(&[&zero3, &[0xfc, 0x0c], &uleb_v(ex as u64), &uleb_v(lt as u64)])),
            19 => (0, cat(&[&zero3, &[0xfc, 0x0c], &uleb_v(exx as u64), &uleb_v(xt as u64)])),
            20 => (0, cat(&[&zero3, &[0xfc, 0x08], &uleb_v(dp as u64), &[0x00]])),
            21 => (1, cat(&[&[0xfc, 0x09], &uleb_v(dp as u64)])),
            22 => (0, cat(&[&ref_func(f2), &[DROP]])),
            23 => (0, cat(&[&i32_const(0), &i64_const(0), &[0x02], &sleb_v(mv as i64), &[END], &[DROP], &[DROP]])),
            24 => (0, cat(&[&i32_const(3), &[0x11], &uleb_v(t1 as u64), &uleb_v(lt as u64)])),
            25 => (1, cat(&[&zero3, &[0xfc, 0x0e], &uleb_v(lt as u64), &uleb_v(it as u64)])),
            26 => (0, cat(&[&zero3, &[0xfc, 0x0a, 0x00, 0x00]])),
            27 => (2, cat(&[&i32_const(0), &[0x40, 0x00], &[DROP]])),
            _ => return None,
        })
    };
    for e in edges {
        if let Some((f, code)) = snippet(*e) {
            bodies[f].extend_from_slice(&code);
        }
    }
    // dead-code edges go last in their function: a nested construct after an unconditional
    // transfer; whatever it mentions is NOT reachable (the code is never emitted)
    if has(40) {
        bodies[1].extend_from_slice(&cat(&[&[RETURN], &[0x02, 0x40], &call(f2), &[END]]));
    }
    if has(41) {
        bodies[0].extend_from_slice(&cat(&[&[UNREACHABLE], &i32_const(1), &[0x04, 0x40], &global_get(g0), &[DROP], &[0xfc, 0x10], &uleb_v(it as u64), &[DROP], &[END]]));
    }
    for b in bodies.iter_mut() {
        b.push(END);
    }
    let [b0, b1, b2] = bodies;
    mb.func(t1, vec![], b0);
    mb.func(t1, vec![], b1);
    mb.func(t1, vec![], b2);
    mb.export("r", 0, f0);
    if has(28) {
        mb.export("t", 1, lt);
    }
    if has(29) {
        mb.export("m", 2, 0);
    }
    if has(30) {
        mb.export("g", 3, g0);
    }
    if has(31) {
        mb.start = Some(f2);
    }
    if has(38) {
        mb.export("if", 0, ifn);
    }
    if has(39) {
        mb.export("gf", 3, gf);
    }
    mb.build()
}

pub fn reach_family(tier: Tier) -> Vec<Member> {
    let k = if tier == Tier::Quick { 2 } else { 3 };
    let mut out = vec![];
    let n = REACH_EDGES;
    out.push(Member { family: "reach", coords: "[]".into(), wasm: build_reach(&[]) });
    for a in 0..n {
        out.push(Member { family: "reach", coords: format!("[{}]", a), wasm: build_reach(&[a]) });
    }
    for a in 0..n {
        for b in a + 1..n {
            out.push(Member { family: "reach", coords: format!("[{},{}]", a, b), wasm: build_reach(&[a, b]) });
        }
    }
    if k >= 3 {
        for a in 0..n {
            for b in a + 1..n {
                for c in b + 1..n {
                    out.push(Member { family: "reach", coords: format!("[{},{},{}]", a, b, c), wasm: build_reach(&[a, b, c]) });
                }
            }
        }
    }
    out
}

// ------------------------------------------------------------------------------------------
// leb: function counts and body sizes on both sides of every LEB-length boundary
// ------------------------------------------------------------------------------------------

/// instruction bytes (without `end`) of exactly `len` bytes: marker + padding.
/// `nops` of the padding bytes are `nop`s (which walrus elides, so the output shrinks).
pub fn padded_code(marker: i32, len: usize, nops: usize) -> Vec<u8> {
    let mut code = cat(&[&i32_const(marker), &[DROP]]);
    let mut nops = nops;
    assert!(len >= code.len());
    let mut rest = len - code.len();
    while nops > 0 && rest > 0 {
        code.push(NOP);
        nops -= 1;
        rest -= 1;
    }
    // 3-byte and 4-byte stack-neutral units
    while rest > 0 {
        if rest == 1 || rest == 2 || rest == 5 {
            code.push(NOP);
            rest -= 1;
        } else if rest % 3 == 0 || rest > 8 {
            code.extend_from_slice(&[0x41, 0x00, DROP]);
            rest -= 3;
        } else {
            code.extend_from_slice(&[0x41, 0xc0, 0x00, DROP]);
            rest -= 4;
        }
    }
    code
}

/// n functions; function `big` has a body of exactly `size` bytes (locals declaration and `end`
/// included), the others are small
pub fn build_leb(n: usize, big: usize, size: usize, nop_variant: bool) -> Vec<u8> {
    build_leb_x(n, big, size, nop_variant, false)
}

/// as `build_leb`; with `extra_unexported` one more, unexported and uncalled function is appended
/// (the GC pass removes it)
pub fn build_leb_x(n: usize, big: usize, size: usize, nop_variant: bool, extra_unexported: bool) -> Vec<u8> {
    build_leb_imp(n, big, size, nop_variant, extra_unexported, 0)
}

/// as `build_leb_x` with `imports` imported functions (all called, so they survive gc): the number
/// of *local* functions and the total number of functions can then fall on different sides of a
/// LEB-length boundary
pub fn build_leb_imp(n: usize, big: usize, size: usize, nop_variant: bool, extra_unexported: bool, imports: usize) -> Vec<u8> {
    build_leb_full(n, big, size, nop_variant, extra_unexported, imports, 0)
}

/// as `build_leb_imp`; `locals_mode` 1 gives every function one used i32 local (so the body does
/// not start with its first instruction), 2 gives two groups of unused locals (walrus drops them:
/// every function shrinks)
pub fn build_leb_full(n: usize, big: usize, size: usize, nop_variant: bool, extra_unexported: bool, imports: usize, locals_mode: u8) -> Vec<u8> {
    build_leb_full_x(n, big, size, nop_variant, extra_unexported, imports, locals_mode, false)
}

/// as `build_leb_full`; with `imports_as_empty_functions` every import is a local function with an
/// empty body instead, at the same function index (what `replace_imported_func` with an empty
/// closure is expected to produce, up to where the code section puts it)
pub fn build_leb_full_x(n: usize, big: usize, size: usize, nop_variant: bool, extra_unexported: bool, imports: usize, locals_mode: u8, imports_as_empty_functions: bool) -> Vec<u8> {
    let mut mb = MB::default();
    let t0 = mb.ty(&[], &[]);
    for k in 0..imports {
        if imports_as_empty_functions {
            mb.func(t0, vec![], vec![END]);
        } else {
            mb.imports.push(("env".into(), format!("imp{}", k), Desc::Func(t0)));
        }
    }
    for i in 0..n {
        let marker = 7000 + i as i32;
        let code_len = if i == big { size.saturating_sub(2).max(4) } else { 4 + (i % 3) * 3 };
        let mut code = padded_code(marker, code_len.max(cat(&[&i32_const(marker), &[DROP]]).len()), if nop_variant && i == big { 5.min(code_len / 4) } else { 0 });
        if i != big && i < imports {
            code.extend_from_slice(&call(i as u32));
        }
        let locals = match locals_mode {
            1 => {
                code.extend_from_slice(&cat(&[&local_get(0), &[DROP]]));
                vec![(1, 0x7f)]
            }
            2 => vec![(1, 0x7f), (2, 0x7e)],
            _ => vec![],
        };
        code.push(END);
        let f = mb.func(t0, locals, code);
        mb.export(&format!("f{}", i), 0, f);
    }
    if extra_unexported {
        let mut code = padded_code(7999, 13, 0);
        code.push(END);
        mb.func(t0, vec![], code);
    }
    mb.build()
}

/// n exported functions (as `build_leb_full` with big = 0) and one unexported function of
/// `dead_nops` nops in front of exported function #`dead_pos` (`dead_pos` = n: at the end): what gc
/// removes can be as small as a three-byte code entry, anywhere between survivors
pub fn build_leb_dead_at(n: usize, size: usize, locals_mode: u8, dead_pos: usize, dead_nops: usize) -> Vec<u8> {
    let mut mb = MB::default();
    let t0 = mb.ty(&[], &[]);
    let dead = |mb: &mut MB| {
        let mut code = vec![0x01u8; dead_nops];
        code.push(END);
        mb.func(t0, vec![], code);
    };
    for i in 0..n {
        if i == dead_pos {
            dead(&mut mb);
        }
        let marker = 7000 + i as i32;
        let code_len = if i == 0 { size.saturating_sub(2).max(4) } else { 4 + (i % 3) * 3 };
        let mut code = padded_code(marker, code_len.max(cat(&[&i32_const(marker), &[DROP]]).len()), 0);
        let locals = match locals_mode {
            1 => {
                code.extend_from_slice(&cat(&[&local_get(0), &[DROP]]));
                vec![(1, 0x7f)]
            }
            2 => vec![(1, 0x7f), (2, 0x7e)],
            _ => vec![],
        };
        code.push(END);
        let f = mb.func(t0, locals, code);
        mb.export(&format!("f{}", i), 0, f);
    }
    if dead_pos >= n {
        dead(&mut mb);
    }
    mb.build()
}

/// modules with unreachable entities of every kind (reach members) that also carry one of the
/// tool-convention custom sections: a raw custom section is not a root and not a reason to skip anything
pub fn reach_customs_family() -> Vec<Member> {
    let mut out = vec![];
    for edges in [&[][..], &[0usize, 16, 22][..]] {
        for (k, (n, pl)) in tool_convention_customs().into_iter().enumerate() {
            let mut wasm = build_reach(edges);
            append_custom(&mut wasm, n, &pl);
            out.push(Member { family: "reach+customs", coords: format!("reach {:?} + custom #{} {:?}", edges, k, n), wasm });
        }
    }
    out
}

/// append a custom section to a binary
pub fn append_custom(wasm: &mut Vec<u8>, name_: &str, data: &[u8]) {
    let mut b = vec![];
    name(name_, &mut b);
    b.extend_from_slice(data);
    wasm.push(0);
    uleb(b.len() as u64, wasm);
    wasm.extend_from_slice(&b);
}

pub fn leb_family(tier: Tier) -> Vec<Member> {
    let ns: &[usize] = if tier == Tier::Quick { &[1, 2, 3, 128] } else { &[1, 2, 3, 127, 128, 129] };
    let sizes: &[usize] = if tier == Tier::Quick { &[8, 127, 128, 16383, 16384] } else { &[8, 126, 127, 128, 129, 16382, 16383, 16384, 16385] };
    let mut out = vec![];
    for &n in ns {
        for &s in sizes {
            for nopv in [false, true] {
                let mut bigs = vec![0];
                if n > 1 {
                    bigs.push(n - 1);
                }
                for big in bigs {
                    out.push(Member { family: "leb", coords: format!("n={},big={},size={},nops={}", n, big, s, nopv), wasm: build_leb(n, big, s, nopv) });
                }
            }
        }
    }
    // local count and total count on different sides of the 1/2-byte LEB boundary
    for (n, imps) in [(126usize, 1usize), (126, 3), (127, 1), (127, 2), (125, 3)] {
        out.push(Member { family: "leb", coords: format!("n={},imports={},size=8", n, imps), wasm: build_leb_imp(n, n - 1, 8, false, false, imps) });
    }
    out
}

// ------------------------------------------------------------------------------------------
// idshift: entity ids shifted by padding (hash / id-order dependent behaviour)
// ------------------------------------------------------------------------------------------

/// Function 0 has `pad` used i32 locals (it consumes `pad`+1 local ids before function 1 is
/// parsed); function 1 uses three i32 and two i64 locals, distinguishably and in an order that is
/// neither declaration order nor reverse.
pub fn build_idshift(pad: usize) -> Vec<u8> {
    let mut mb = MB::default();
    let t1 = mb.ty(&[I32], &[I32]);
    let mut code = cat(&[&i32_const(8000), &[DROP]]);
    for k in 0..pad {
        code.extend_from_slice(&cat(&[&local_get(0), &i32_const(k as i32), &[0x6a], &local_set(1 + k as u32)]));
    }
    for k in 0..pad {
        code.extend_from_slice(&cat(&[&local_get(1 + k as u32), &[DROP]]));
    }
    code.extend_from_slice(&local_get(0));
    code.push(END);
    let f0 = mb.func(t1, if pad > 0 { vec![(pad as u32, I32)] } else { vec![] }, code);
    // subject: locals 1,2,3 : i32 ; 4,5 : i64
    let s = cat(&[
        &i32_const(8001),
        &[DROP],
        &local_get(0), &i32_const(2), &[0x6a], &local_set(3),      // l3 = x + 2
        &local_get(0), &i32_const(10), &[0x6c], &local_set(1),     // l1 = x * 10
        &local_get(0), &[0xac], &local_set(5),                     // l5 = i64(x)
        &local_get(0), &i32_const(1), &[0x6a], &local_set(2),      // l2 = x + 1
        &local_get(5), &i64_const(3), &[0x7e], &local_set(4),      // l4 = l5 * 3
        &local_get(1), &local_get(2), &i32_const(2), &[0x6c], &[0x6a],          // l1 + 2*l2
        &local_get(3), &i32_const(3), &[0x6c], &[0x6a],                         // + 3*l3
        &local_get(4), &[0xa7], &[0x6a],                                        // + i32(l4)
        &[END],
    ]);
    let f1 = mb.func(t1, vec![(3, I32), (2, I64)], s);
    mb.export("pad", 0, f0);
    mb.export("subject", 0, f1);
    mb.build()
}

pub fn idshift_family() -> Vec<Member> {
    (0..=24).map(|p| Member { family: "idshift", coords: format!("pad={}", p), wasm: build_idshift(p) }).collect()
}

// ------------------------------------------------------------------------------------------
// ctrl(k): every forest of block / loop / if / if-else constructs with at most k constructs
// ------------------------------------------------------------------------------------------

#[derive(Clone, Debug)]
pub enum Ct {
    Block(Vec<Ct>),
    Loop(Vec<Ct>),
    If(Vec<Ct>),
    IfElse(Vec<Ct>, Vec<Ct>),
}

/// all forests with exactly n constructs
pub fn forests(n: usize, memo: &mut Vec<Option<Vec<Vec<Ct>>>>) -> Vec<Vec<Ct>> {
    if let Some(Some(v)) = memo.get(n) {
        return v.clone();
    }
    let mut out = vec![];
    if n == 0 {
        out.push(vec![]);
    } else {
        // first tree has m constructs, the rest n-m
        for m in 1..=n {
            let firsts = trees(m, memo);
            let rests = forests(n - m, memo);
            for f in &firsts {
                for r in &rests {
                    let mut v = vec![f.clone()];
                    v.extend(r.iter().cloned());
                    out.push(v);
                }
            }
        }
    }
    if memo.len() <= n {
        memo.resize(n + 1, None);
    }
    memo[n] = Some(out.clone());
    out
}
fn trees(n: usize, memo: &mut Vec<Option<Vec<Vec<Ct>>>>) -> Vec<Ct> {
    let mut out = vec![];
    for inner in forests(n - 1, memo) {
        out.push(Ct::Block(inner.clone()));
        out.push(Ct::Loop(inner.clone()));
        out.push(Ct::If(inner));
    }
    for a in 0..n {
        let b = n - 1 - a;
        let fa = forests(a, memo);
        let fb = forests(b, memo);
        for x in &fa {
            for y in &fb {
                out.push(Ct::IfElse(x.clone(), y.clone()));
            }
        }
    }
    out
}

fn ctrl_code(forest: &[Ct], next: &mut i32, depth: usize, fill: u8, out: &mut Vec<u8>) {
    // log(id) before and after every construct, conditions from alternating parameter bits
    let log = |id: i32, out: &mut Vec<u8>| {
        out.extend_from_slice(&cat(&[&i32_const(id), &call(0), &[DROP]]));
    };
    for t in forest {
        *next += 1;
        let id = *next;
        let cond = |out: &mut Vec<u8>| {
            out.extend_from_slice(&cat(&[&local_get((id % 2) as u32), &i32_const(1 << (id % 3)), &[0x71]])); // i32.and
        };
        log(id * 10, out);
        match t {
            Ct::Block(inner) => {
                out.extend_from_slice(&[0x02, 0x40]);
                // conditional early exit from the block
                cond(out);
                out.extend_from_slice(&[0x0d, 0x00]);
                if fill != 1 {
                    log(id * 10 + 1, out);
                }
                ctrl_code(inner, next, depth + 1, fill, out);
                out.push(END);
            }
            Ct::Loop(inner) => {
                out.extend_from_slice(&[0x03, 0x40]);
                if fill != 1 {
                    log(id * 10 + 1, out);
                }
                ctrl_code(inner, next, depth + 1, fill, out);
                // counter-guarded back edge (counter local 2 is shared: every member terminates)
                out.extend_from_slice(&cat(&[&local_get(2), &i32_const(1), &[0x6a], &local_tee(2), &i32_const(3), &[0x49], &[0x0d, 0x00]]));
                out.push(END);
            }
            Ct::If(inner) => {
                cond(out);
                out.extend_from_slice(&[0x04, 0x40]);
                match fill {
                    0 | 3 => log(id * 10 + 1, out),
                    4 => out.push(0x01),
                    _ => {}
                }
                ctrl_code(inner, next, depth + 1, fill, out);
                out.push(END);
            }
            Ct::IfElse(a, b) => {
                cond(out);
                out.extend_from_slice(&[0x04, 0x40]);
                match fill {
                    0 | 3 => log(id * 10 + 1, out),
                    4 => out.push(0x01),
                    _ => {}
                }
                ctrl_code(a, next, depth + 1, fill, out);
                out.push(0x05);
                if fill == 0 || fill == 2 || fill == 4 {
                    log(id * 10 + 2, out);
                }
                ctrl_code(b, next, depth + 1, fill, out);
                out.push(END);
            }
        }
        log(id * 10 + 3, out);
    }
}

pub fn build_ctrl(forest: &[Ct]) -> Vec<u8> {
    build_ctrl_fill(forest, 0)
}

/// `fill` decides which bodies and arms hold instructions of their own: 0 all of them; 1 none
/// (arms without nested constructs are empty); 2 the then-arms are empty, the else-arms are not;
/// 3 the else-arms are empty, the then-arms are not; 4 the then-arms hold a single `nop`
pub fn build_ctrl_fill(forest: &[Ct], fill: u8) -> Vec<u8> {
    let mut mb = MB::default();
    let t0 = mb.ty(&[I32], &[I32]);
    let t1 = mb.ty(&[I32, I32], &[I32]);
    mb.imports.push(("env".into(), "log".into(), Desc::Func(t0)));
    let mut code = cat(&[&i32_const(8100), &[DROP]]);
    let mut next = 0;
    ctrl_code(forest, &mut next, 0, fill, &mut code);
    code.extend_from_slice(&local_get(2));
    code.push(END);
    let f = mb.func(t1, vec![(1, I32)], code);
    mb.export("f", 0, f);
    mb.build()
}

/// three nested blocks that each yield an i32; the innermost leaves through a `br_table` with the
/// given target vector and default, carrying a value; every exit adds its own power of ten, so the
/// result tells which label was taken and which value it carried
pub fn build_brtable(targets: &[u32], default: u32, typed: bool) -> Vec<u8> {
    let mut mb = MB::default();
    let t1 = mb.ty(&[I32], &[I32]);
    let bt: u8 = if typed { I32 } else { 0x40 };
    let mut code = cat(&[&i32_const(8200), &[DROP]]);
    for _ in 0..3 {
        code.extend_from_slice(&[0x02, bt]);
    }
    if typed {
        code.extend_from_slice(&i32_const(7));
    }
    code.extend_from_slice(&local_get(0));
    code.push(0x0e);
    uleb(targets.len() as u64, &mut code);
    for t in targets {
        uleb(*t as u64, &mut code);
    }
    uleb(default as u64, &mut code);
    code.push(END);
    for k in 0..3 {
        let add = [100, 1000, 10000][k];
        if typed {
            code.extend_from_slice(&cat(&[&i32_const(add), &[0x6a]]));
        } else {
            // untyped labels: record the path in the parameter local
            code.extend_from_slice(&cat(&[&local_get(0), &i32_const(add), &[0x6a], &local_set(0)]));
        }
        if k < 2 {
            code.push(END);
        }
    }
    if !typed {
        code.extend_from_slice(&local_get(0));
    }
    code.push(END);
    let f = mb.func(t1, vec![], code);
    mb.export("f", 0, f);
    mb.build()
}

/// two `br_table`s with `n` entries each over the same three labels, in every relative position of
/// the second one: inside the same block as the first, right after the `end` of a block that holds
/// the first (no construct opened in between), and inside a sibling block
pub fn build_brtable_pair(n: usize, shape: u8) -> Vec<u8> {
    let mut mb = MB::default();
    let t1 = mb.ty(&[I32], &[I32]);
    let table = |depth_shift: u32, out: &mut Vec<u8>| {
        out.extend_from_slice(&local_get(0));
        out.push(0x0e);
        uleb(n as u64, out);
        for k in 0..n {
            uleb((k % 3) as u64 + depth_shift as u64, out);
        }
        uleb(depth_shift as u64, out);
    };
    let mut code = cat(&[&i32_const(8400), &[DROP]]);
    // three result-less labels; each exit records itself in the parameter local
    for _ in 0..3 {
        code.extend_from_slice(&[0x02, 0x40]);
    }
    match shape {
        0 => {
            // first table inside an extra block, the second right after that block's end
            code.extend_from_slice(&[0x02, 0x40]);
            code.extend_from_slice(&cat(&[&local_get(0), &i32_const(64), &[0x49], &[0x0d, 0x00]])); // br_if 0 when param < 64: skip the first table
            table(1, &mut code);
            code.push(END);
            table(0, &mut code);
        }
        1 => {
            // both in the same sequence (the second is dead code after the first)
            table(0, &mut code);
            table(0, &mut code);
        }
        _ => {
            // first in one sibling block, second in another
            code.extend_from_slice(&[0x02, 0x40]);
            code.extend_from_slice(&cat(&[&local_get(0), &i32_const(64), &[0x49], &[0x0d, 0x00]]));
            table(1, &mut code);
            code.push(END);
            code.extend_from_slice(&[0x02, 0x40]);
            table(1, &mut code);
            code.push(END);
        }
    }
    code.push(END);
    for add in [100, 1000] {
        code.extend_from_slice(&cat(&[&local_get(0), &i32_const(add), &[0x6a], &local_set(0)]));
        code.push(END);
    }
    code.extend_from_slice(&cat(&[&local_get(0), &i32_const(10000), &[0x6a], &local_set(0)]));
    code.extend_from_slice(&local_get(0));
    code.push(END);
    let f = mb.func(t1, vec![], code);
    mb.export("f", 0, f);
    mb.build()
}

pub fn ctrl_family(tier: Tier) -> Vec<Member> {
    let k = if tier == Tier::Quick { 3 } else { 4 };
    let mut memo = vec![];
    let mut out = vec![];
    // if/else whose arms end in every combination of {fall through, br to the if itself, br to the
    // enclosing block, return, unreachable}, optionally with an earlier conditional branch to the if
    // itself, followed by code (which is live whenever the if can be left normally or through its own label)
    {
        let ends: [&[u8]; 5] = [&[], &[0x0c, 0x00], &[0x0c, 0x01], &[0x41, 0x05, 0x0f], &[0x00]];
        for (ai, a) in ends.iter().enumerate() {
            for (bi, b) in ends.iter().enumerate() {
                for early in [false, true] {
                    let mut mb = MB::default();
                    let t0 = mb.ty(&[I32], &[I32]);
                    let t1 = mb.ty(&[I32, I32], &[I32]);
                    mb.imports.push(("env".into(), "log".into(), Desc::Func(t0)));
                    let log = |id: i32| cat(&[&i32_const(id), &call(0), &[DROP]]);
                    let mut code = cat(&[&i32_const(8500), &[DROP]]);
                    code.extend_from_slice(&[0x02, 0x40]); // enclosing block
                    code.extend_from_slice(&cat(&[&local_get(0), &[0x04, 0x40]]));
                    code.extend_from_slice(&log(1));
                    if early {
                        code.extend_from_slice(&cat(&[&local_get(1), &[0x0d, 0x00]]));
                    }
                    code.extend_from_slice(&log(2));
                    code.extend_from_slice(a);
                    code.push(0x05);
                    code.extend_from_slice(&log(3));
                    if early {
                        code.extend_from_slice(&cat(&[&local_get(1), &[0x0d, 0x00]]));
                    }
                    code.extend_from_slice(b);
                    code.push(END);
                    code.extend_from_slice(&log(4)); // after the if, inside the block
                    code.push(END);
                    code.extend_from_slice(&log(5));
                    code.extend_from_slice(&local_get(0));
                    code.push(END);
                    let f = mb.func(t1, vec![], code);
                    mb.export("f", 0, f);
                    out.push(Member { family: "ctrl", coords: format!("if-exits then={} else={} early-br-to-if={}", ai, bi, early), wasm: mb.build() });
                }
            }
        }
    }
    // an `if` in dead code (after br / return / unreachable) inside one or two live ifs, with and without arms of its own
    for term in ["(br 0)", "(return (i32.const 5))", "(unreachable)"] {
        for dead_has_else in [false, true] {
            for outer_else in [false, true] {
                for depth in [1usize, 2] {
                    let dead = if dead_has_else { "(if (local.get 1) (then (drop (call $log (i32.const 31)))) (else (drop (call $log (i32.const 32)))))" } else { "(if (local.get 1) (then (drop (call $log (i32.const 31)))))" };
                    let mut inner = format!("(drop (call $log (i32.const 21))) {} {} (drop (call $log (i32.const 22)))", term, dead);
                    for d in 0..depth {
                        let els = if outer_else { format!("(else (drop (call $log (i32.const {}))))", 40 + d) } else { String::new() };
                        inner = format!("(drop (call $log (i32.const {}))) (if (local.get {}) (then {}) {}) (drop (call $log (i32.const {})))", 10 + d, d % 2, inner, els, 50 + d);
                    }
                    let src = format!(r#"(module (import "env" "log" (func $log (param i32) (result i32))) (func (export "f") (param i32 i32) (result i32) (i32.const 8600) (drop) {} (i32.const 7)))"#, inner);
                    out.push(Member {
                        family: "ctrl",
                        coords: format!("dead-if-in-live-if term={} dead-else={} outer-else={} depth={}", term, dead_has_else, outer_else, depth),
                        wasm: wat::parse_str(&src).unwrap_or_else(|e| panic!("dead-if member: {}\n{}", e, src)),
                    });
                }
            }
        }
    }
    // pairs of br_tables around the sizes where an implementation may switch strategy
    for n in if tier == Tier::Quick { vec![1usize, 15, 16, 17, 64] } else { vec![1usize, 2, 7, 8, 9, 15, 16, 17, 31, 32, 33, 64, 255, 256, 257] } {
        for shape in 0..3u8 {
            out.push(Member { family: "ctrl", coords: format!("brtable-pair n={} shape={}", n, shape), wasm: build_brtable_pair(n, shape) });
        }
    }
    // br_table: every target vector over the three labels up to length 2 (quick) / 3, every default
    let maxlen = if tier == Tier::Quick { 2 } else { 3 };
    for len in 0..=maxlen {
        for code in 0..3usize.pow(len as u32) {
            let mut c = code;
            let targets: Vec<u32> = (0..len).map(|_| { let t = (c % 3) as u32; c /= 3; t }).collect();
            for default in 0..3u32 {
                for typed in [true, false] {
                    out.push(Member { family: "ctrl", coords: format!("brtable targets={:?} default={} typed={}", targets, default, typed), wasm: build_brtable(&targets, default, typed) });
                }
            }
        }
    }
    for n in 0..=k {
        for (i, f) in forests(n, &mut memo).into_iter().enumerate() {
            out.push(Member { family: "ctrl", coords: format!("n={} #{} {:?}", n, i, f).chars().take(160).collect(), wasm: build_ctrl(&f) });
            if n > 0 {
                for fill in 1..=4u8 {
                    out.push(Member { family: "ctrl", coords: format!("n={} #{} fill={} {:?}", n, i, fill, f).chars().take(160).collect(), wasm: build_ctrl_fill(&f, fill) });
                }
            }
        }
    }
    out
}

// ------------------------------------------------------------------------------------------
// minimal: tiny modules with one section kind each, and modules with exactly one kind of GC root
// ------------------------------------------------------------------------------------------

pub fn minimal_family() -> Vec<Member> {
    let srcs: Vec<(&str, &str)> = vec![
        ("empty", "(module)"),
        ("types-only", "(module (type (func)) (type (func (param i32) (result i64))))"),
        ("imports-only", r#"(module (import "a" "f" (func)) (import "a" "g" (global i32)) (import "a" "t" (table 1 funcref)) (import "a" "m" (memory 1)))"#),
        ("memory-only", "(module (memory 1))"),
        ("data-only", r#"(module (memory 1) (data (i32.const 0) "abc"))"#),
        ("data-only-exported", r#"(module (memory (export "m") 1) (data (i32.const 0) "abc") (data (i32.const 8) ""))"#),
        ("imported-memory-data", r#"(module (import "a" "m" (memory 1)) (data (i32.const 4) "xy"))"#),
        ("import-func-and-data", r#"(module (import "a" "f" (func)) (memory 1) (data (i32.const 0) "q") (export "f" (func 0)))"#),
        ("globals-only", "(module (global i32 (i32.const 1)) (global (mut f64) (f64.const 2)))"),
        ("table-elem-imported-funcs", r#"(module (import "a" "f" (func)) (table (export "t") 2 funcref) (elem (i32.const 0) func 0))"#),
        ("start-only", r#"(module (import "a" "f" (func)) (func $s (call 0)) (start $s))"#),
        // exactly one kind of root each (no exports)
        ("root-start", r#"(module (global $g (mut i32) (i32.const 0)) (func $h (global.set $g (i32.const 1))) (func $s (call $h)) (func $dead) (start $s))"#),
        ("root-active-data", r#"(module (import "a" "g" (global $o i32)) (memory 1) (func $dead) (data (global.get $o) "z"))"#),
        ("root-active-elem-imported-table", r#"(module (import "env" "tbl" (table 4 funcref)) (import "a" "g" (global $o i32)) (func $a) (func $b (call $a)) (func $dead) (elem (global.get $o) func $b))"#),
        ("root-declared-elem", r#"(module (func $a) (func $b (call $a)) (func $dead) (elem declare func $b))"#),
        ("root-active-elem-imported-table-exprs", r#"(module (import "env" "tbl" (table 4 funcref)) (import "a" "gf" (global $gf funcref)) (func $a) (elem (i32.const 1) funcref (ref.func $a) (global.get $gf) (ref.null func)))"#),
        ("no-roots", r#"(module (memory 1) (table 1 funcref) (global i32 (i32.const 0)) (func $a) (data "p") (elem func $a))"#),
        ("export-only-global", r#"(module (import "a" "g" (global $o i32)) (global $l (export "l") i32 (global.get $o)) (func $dead))"#),
        ("funcs-no-data-count", r#"(module (memory 1) (func (export "f") (i32.store (i32.const 0) (i32.const 1))) (data (i32.const 0) "a"))"#),
        ("memory-init-on-active-segment", r#"(module (memory 1) (func (export "f") (memory.init 0 (i32.const 0) (i32.const 0) (i32.const 0))) (func (export "g")) (data (i32.const 0) "a"))"#),
        // imports that share module and field name (valid wasm), one used and one not, in both orders and for every kind
        ("dup-import-func-first-used", r#"(module (import "env" "f" (func $a)) (import "env" "f" (func $b (param i32))) (func (export "run") (i32.const 8301) (drop) (call $a)))"#),
        ("dup-import-func-second-used", r#"(module (import "env" "f" (func $a)) (import "env" "f" (func $b (param i32))) (func (export "run") (i32.const 8302) (drop) (call $b (i32.const 1))))"#),
        ("dup-import-func-same-sig-first-used", r#"(module (import "env" "f" (func $a)) (import "env" "f" (func $b)) (import "env" "f" (func $c)) (func (export "run") (i32.const 8303) (drop) (call $a)))"#),
        ("dup-import-global-first-used", r#"(module (import "env" "g" (global $a i32)) (import "env" "g" (global $b i32)) (func (export "run") (result i32) (i32.const 8304) (drop) (global.get $a)))"#),
        ("dup-import-global-second-used", r#"(module (import "env" "g" (global $a i32)) (import "env" "g" (global $b i32)) (func (export "run") (result i32) (i32.const 8305) (drop) (global.get $b)))"#),
        ("dup-import-table-first-used", r#"(module (import "env" "t" (table $a 1 funcref)) (import "env" "t" (table $b 2 funcref)) (func (export "run") (result i32) (i32.const 8306) (drop) (table.size $a)))"#),
        ("dup-import-mixed-kinds", r#"(module (import "env" "x" (func $f)) (import "env" "x" (global $g i32)) (import "env" "x" (table $t 1 funcref)) (func (export "run") (result i32) (i32.const 8307) (drop) (global.get $g)))"#),
        // modules that need exactly one proposal beyond the MVP (so that needing *another* one afterwards is visible)
        ("only-threads-imported-shared-memory", r#"(module (import "env" "m" (memory 1 2 shared)))"#),
        ("only-threads-local-shared-memory-atomics", r#"(module (memory 1 2 shared) (func (export "f") (result i32) (i32.atomic.load (i32.const 0))))"#),
        ("only-memory64-imported", r#"(module (import "env" "m" (memory i64 1)))"#),
        ("only-memory64-local-used", r#"(module (memory i64 1) (func (export "f") (result i32) (i32.load (i64.const 0))))"#),
        ("only-memory64-data-at-imported-i64-global", r#"(module (import "a" "g" (global $g i64)) (memory i64 1) (data (global.get $g) "x"))"#),
        ("only-memory64-table64-elem-at-imported-i64-global", r#"(module (import "a" "g" (global $g i64)) (table i64 2 funcref) (func $f) (elem (global.get $g) func $f))"#),
        ("only-mutable-global-export", r#"(module (global (export "g") (mut i32) (i32.const 0)))"#),
        ("only-mutable-global-import", r#"(module (import "a" "g" (global (mut i32))))"#),
        ("only-sign-extension", r#"(module (func (export "f") (param i32) (result i32) (i32.extend8_s (local.get 0))))"#),
        ("only-saturating-float-to-int", r#"(module (func (export "f") (param f32) (result i32) (i32.trunc_sat_f32_s (local.get 0))))"#),
        ("only-multi-value-function", r#"(module (func (export "f") (result i32 i32) (i32.const 1) (i32.const 2)))"#),
        ("only-multi-value-block-param", r#"(module (func (export "f") (param i32) (result i32) (local.get 0) (block (param i32) (result i32)) (loop (param i32) (result i32))))"#),
        ("only-bulk-memory-passive-data", r#"(module (memory 1) (data "p") (func (export "f") (memory.init 0 (i32.const 0) (i32.const 0) (i32.const 1)) (memory.fill (i32.const 0) (i32.const 0) (i32.const 0))))"#),
        ("only-reference-types-externref-table", r#"(module (table 1 externref) (func (export "f") (result i32) (ref.is_null (table.get 0 (i32.const 0)))))"#),
        ("only-simd", r#"(module (func (export "f") (result i32) (i32x4.extract_lane 2 (v128.const i8x16 1 2 3 4 5 6 7 8 9 10 11 12 13 14 15 16))))"#),
        ("only-tail-call", r#"(module (func $g (result i32) (i32.const 1)) (func (export "f") (result i32) (return_call $g)))"#),
        ("only-multi-memory", r#"(module (memory 1) (memory 1) (func (export "f") (result i32) (i32.load 1 (i32.const 0))))"#),
        ("typed-select-numeric", r#"(module (func (export "f") (param i32) (result i64) (select (result i64) (i64.const 1) (i64.const 2) (local.get 0))))"#),
        // all data segments active and named, nothing uses a bulk-memory instruction
        ("named-active-data-only", r#"(module (memory 1) (data $greeting (i32.const 8) "hello") (data $other (i32.const 0) "x") (func (export "f") (i32.const 8350) (drop)))"#),
        // a passive element segment that only elem.drop names, next to tables nothing uses
        ("elem-drop-only-and-unused-local-table", r#"(module (table 2 funcref) (func $x) (elem $p func $x) (func (export "f") (i32.const 8351) (drop) (elem.drop $p)))"#),
        ("elem-drop-only-and-unused-imported-table", r#"(module (import "env" "t" (table 2 funcref)) (func $x) (elem $p func $x) (func (export "f") (i32.const 8352) (drop) (elem.drop $p)))"#),
        ("data-drop-only-and-unused-memories", r#"(module (memory 1) (memory 2) (data $p "pp") (func (export "f") (i32.const 8353) (drop) (data.drop $p)))"#),
        // defined globals: one initialised from an imported global in front of constant-initialised ones
        ("global-get-initialised-global-before-constant-ones", r#"(module (import "a" "g" (global $ig i32)) (global $first (export "first") i32 (global.get $ig)) (global $second (export "second") i32 (i32.const 7)) (global $third (mut i64) (i64.const 9))
            (func (export "f") (result i32) (i32.const 8354) (drop) (global.set $third (i64.const 1)) (i32.add (global.get $first) (global.get $second))))"#),
        // memories at the top of the 32-bit range
        ("memory-max-65536-pages", r#"(module (memory 1 65536) (func (export "f") (result i32) (i32.const 8355) (drop) (memory.size)))"#),
        ("memory-min-65536-pages", r#"(module (memory 65536) (func (export "f") (result i32) (i32.const 8356) (drop) (memory.size)))"#),
        ("imported-memory-max-65536-pages", r#"(module (import "e" "m" (memory 1 65536)) (func (export "f") (result i32) (i32.const 8357) (drop) (i32.load (i32.const 0))))"#),
        ("memory-max-65536-pages-size-dropped", r#"(module (memory 1 65536) (func (export "f") (i32.const 8370) (drop) (memory.size) (drop)))"#),
        ("memory-min-65536-pages-size-dropped", r#"(module (memory 65536) (func (export "f") (i32.const 8371) (drop) (memory.size) (drop)))"#),
        ("imported-memory-max-65536-pages-size-dropped", r#"(module (import "e" "m" (memory 1 65536)) (func (export "f") (i32.const 8372) (drop) (memory.size) (drop)))"#),
        ("memory-max-65535-pages", r#"(module (memory 1 65535) (func (export "f") (i32.const 8373) (drop) (memory.size) (drop)))"#),
        ("table-max-u32", r#"(module (table 1 4294967295 funcref) (func (export "f") (i32.const 8374) (drop) (table.size 0) (drop)))"#),
        ("imported-table-max-u32", r#"(module (import "e" "t" (table 1 4294967295 funcref)) (func (export "f") (i32.const 8375) (drop)))"#),
        // a local, unexported table reached first through one of its active segments (elem.drop names it);
        // its other active segment and the function only that one lists are just as live
        ("table-reached-through-active-segment-first", r#"(module (type $t (func (result i32))) (table $tb 4 funcref)
            (func $a (type $t) (call_indirect $tb (type $t) (i32.const 1))) (func $b (type $t) (i32.const 8380))
            (elem $e1 (table $tb) (i32.const 0) func $a) (elem $e2 (table $tb) (i32.const 1) func $b)
            (func (export "u") (result i32) (elem.drop $e1) (call $a)))"#),
        ("table-mentioned-only-by-its-active-segments-one-dropped", r#"(module (table $t 2 funcref) (func $a (i32.const 8395) (drop)) (func $b (i32.const 8396) (drop))
            (elem $e1 (table $t) (i32.const 0) func $a) (elem $e2 (table $t) (i32.const 1) func $b) (func (export "run") (elem.drop $e1)))"#),
        ("table-reached-through-active-segment-then-call-indirect", r#"(module (type $t (func (result i32))) (table $tb 4 funcref)
            (func $a (type $t) (call_indirect $tb (type $t) (i32.const 1))) (func $b (type $t) (i32.const 8397))
            (elem $e1 (table $tb) (i32.const 0) func $a) (elem $e2 (table $tb) (i32.const 1) func $b)
            (func (export "u") (result i32) (call $a) (elem.drop $e1)))"#),
        ("table-reached-through-active-segment-user-found-via-ref-func-global", r#"(module (type $t (func (result i32))) (table $tb 4 funcref)
            (func $h (type $t) (call_indirect $tb (type $t) (i32.const 1))) (func $b (type $t) (i32.const 8398)) (func $c (type $t) (i32.const 8399))
            (global $gh (export "gh") funcref (ref.func $h))
            (elem $e1 (table $tb) (i32.const 0) func $c) (elem $e2 (table $tb) (i32.const 1) func $b)
            (func (export "u") (elem.drop $e1)))"#),
        ("table-reached-through-table-init-of-active-segment", r#"(module (type $t (func (result i32))) (table $tb 4 funcref) (table $other 4 funcref)
            (func $a (type $t) (call_indirect $tb (type $t) (i32.const 1))) (func $b (type $t) (i32.const 8381))
            (elem $e1 (table $tb) (i32.const 0) func $a) (elem $e2 (table $tb) (i32.const 1) func $b)
            (func (export "u") (result i32) (table.init $other $e1 (i32.const 0) (i32.const 0) (i32.const 0)) (call $a)))"#),
        // a 64-bit table with active segments, used through call_indirect
        ("table64-with-active-segments", r#"(module (type $t (func (result i32))) (table $tb (export "tb") i64 4 funcref)
            (func $a (type $t) (i32.const 8382)) (func $b (type $t) (i32.const 8383))
            (elem $e1 (table $tb) (i64.const 0) func $a) (elem $e2 (table $tb) (i64.const 2) func $b $a)
            (func (export "u") (param i64) (result i32) (call_indirect $tb (type $t) (local.get 0))))"#),
        ("table64-local-unexported-with-active-segment", r#"(module (type $t (func (result i32))) (table $tb i64 4 funcref)
            (func $a (type $t) (i32.const 8384))
            (elem $e1 (table $tb) (i64.const 1) func $a)
            (func (export "u") (param i64) (result i32) (call_indirect $tb (type $t) (local.get 0))))"#),
        // active data segments that end in zero bytes: overlapping an earlier segment, or reaching past the end of memory
        ("data-zero-tail-overlaps-earlier-segment", r#"(module (memory (export "mem") 1) (data (i32.const 0) "\01\02\03\04\05\06") (data (i32.const 2) "\09\00\00")
            (func (export "f") (param i32) (result i32) (i32.const 8385) (drop) (i32.load8_u (local.get 0))))"#),
        ("data-zero-tail-only", r#"(module (memory (export "mem") 1) (data (i32.const 16) "\00\00\00\00") (data (i32.const 32) "ab\00")
            (func (export "f") (param i32) (result i32) (i32.const 8386) (drop) (i32.load8_u (local.get 0))))"#),
        ("data-zero-tail-past-end-of-memory", r#"(module (memory (export "mem") 1) (data (i32.const 65534) "\07\08\00")
            (func (export "f") (param i32) (result i32) (i32.const 8387) (drop) (i32.load8_u (local.get 0))))"#),
        ("data-zero-tail-imported-memory", r#"(module (import "env" "mem" (memory 1)) (data (i32.const 4) "\07\00\00")
            (func (export "f") (param i32) (result i32) (i32.const 8388) (drop) (i32.load8_u (local.get 0))))"#),
        // copies between two memories / two tables of the same index width
        ("memory-copy-between-two-32-bit-memories", r#"(module (memory $a (export "a") 1) (memory $b (export "b") 1) (data (memory $a) (i32.const 0) "abcd") (data (memory $b) (i32.const 0) "wxyz")
            (func (export "f") (param i32) (result i32) (i32.const 8389) (drop) (memory.copy $b $a (i32.const 8) (i32.const 0) (i32.const 4)) (i32.load8_u $b (local.get 0))))"#),
        ("table-copy-between-two-tables", r#"(module (type $t (func (result i32))) (table $a 4 funcref) (table $b 4 funcref) (func $x (type $t) (i32.const 8390)) (elem (table $a) (i32.const 0) func $x)
            (func (export "f") (param i32) (result i32) (table.copy $b $a (i32.const 1) (i32.const 0) (i32.const 1)) (call_indirect $b (type $t) (local.get 0))))"#),
        // a declared local whose only mention is a local.tee
        ("local-only-teed", r#"(module (func (export "f") (param i32) (result i32) (local i64) (local i32) (i32.const 8391) (drop) (drop (local.tee 1 (i64.const 5))) (local.tee 2 (local.get 0))))"#),
        // unused local groups (dropped on emission) in functions with else-less ifs (an `else` may be added): byte counts can cancel out
        ("unused-local-and-two-else-less-ifs", r#"(module (func (export "f") (param i32) (local i64) (i32.const 8392) (drop) (if (local.get 0) (then (drop (i32.const 1)))) (if (local.get 0) (then (drop (i32.const 2)))) (drop (i32.const 3))))"#),
        ("two-unused-local-groups-and-four-else-less-ifs", r#"(module (func (export "f") (param i32) (local i64) (local f32) (i32.const 8393) (drop) (if (local.get 0) (then (drop (i32.const 1)))) (if (local.get 0) (then (drop (i32.const 2)))) (if (local.get 0) (then (nop))) (if (local.get 0) (then (drop (i32.const 4)))) (drop (i32.const 3))))"#),
        ("unused-local-and-one-else-less-if", r#"(module (func (export "f") (param i32) (local i64) (i32.const 8394) (drop) (if (local.get 0) (then (drop (i32.const 1)))) (drop (i32.const 3))))"#),
        // v128 constants with sign bits at lane boundaries, in bodies and in global initialisers
        ("v128-constants-with-sign-bits", r#"(module (global $g v128 (v128.const i64x2 -2 7)) (global $h (export "h") v128 (v128.const i32x4 0x00010203 0x04050607 0x08090a0b 0x0c0d0e0f))
            (func (export "f") (result v128) (i32.const 8400) (drop) (drop (v128.const i64x2 -2 7)) (drop (v128.const f64x2 -1.5 2.25)) (drop (v128.const i16x8 0 0 0 -4 1 2 3 4))
              (drop (v128.const i8x16 0 0 0 0 0 0 0 0x80 1 2 3 4 5 6 7 8)) (drop (global.get $g)) (v128.const i32x4 1 2 0x80000000 4)))"#),
        // both kinds of reference-typed locals in one function
        ("funcref-and-externref-locals-in-one-function", r#"(module (table $t 2 funcref) (table $e 2 externref) (func $x) (elem declare func $x)
            (func (export "f") (param externref) (local $h externref) (local $f funcref) (local $i i32) (local $f2 funcref) (i32.const 8410) (drop)
              (local.set $h (local.get 0)) (local.set $f (ref.func $x)) (local.set $f2 (local.get $f)) (local.set $i (i32.const 1))
              (table.set $e (local.get $i) (local.get $h)) (table.set $t (local.get $i) (local.get $f2))))"#),
        // a live data segment on the second memory while the first memory is used by nothing
        ("unused-first-memory-and-live-data-on-the-second", r#"(module (memory $unused 1) (memory $m 1) (data (memory $m) (i32.const 0) "ab")
            (func (export "f") (result i32) (i32.const 8411) (drop) (i32.load8_u $m (i32.const 0))))"#),
        ("unused-first-memory-and-passive-data-used-on-the-second", r#"(module (memory $unused 1) (memory $m 1) (data $p "ab")
            (func (export "f") (i32.const 8412) (drop) (memory.init $m $p (i32.const 0) (i32.const 0) (i32.const 2))))"#),
        // a reachable table without active segments next to an unreachable table with one
        ("live-table-without-segments-and-dead-table-with-active-segment", r#"(module (import "env" "g" (global $off i32)) (table $live (export "live") 2 funcref) (table $ext 1 externref) (table $dead 4 funcref)
            (func $a (i32.const 8413) (drop)) (func $b (call $a)) (elem (table $dead) (global.get $off) func $b)
            (func (export "f") (result externref) (table.get $ext (i32.const 0))))"#),
        // expression element segments whose items are global.get of imported funcref globals
        ("expression-segment-with-global-get-items", r#"(module (type $t (func (result i32))) (import "env" "hook" (global $hook funcref)) (table $tb (export "tb") 4 funcref)
            (func $a (type $t) (i32.const 8414)) (func $b (type $t) (i32.const 8415))
            (elem (table $tb) (i32.const 0) funcref (ref.func $a) (global.get $hook) (ref.func $b))
            (elem $p funcref (global.get $hook) (ref.func $a))
            (func (export "f") (param i32) (result i32) (table.init $tb $p (i32.const 2) (i32.const 0) (i32.const 2)) (call_indirect $tb (type $t) (local.get 0))))"#),
        // ifs nested in the then-arm of an if that has a result and a real else
        ("if-with-result-whose-then-arm-ends-in-an-else-less-if", r#"(module (import "env" "log" (func $log (param i32))) (func (export "f") (param i32 i32) (result i32) (i32.const 8416) (drop)
            (if (result i32) (local.get 0) (then (if (local.get 1) (then (call $log (i32.const 1)))) (i32.const 10)) (else (call $log (i32.const 2)) (i32.const 20)))))"#),
        ("if-with-result-whose-then-arm-holds-an-if-with-empty-else-deeper", r#"(module (import "env" "log" (func $log (param i32))) (func (export "f") (param i32 i32) (result i32) (i32.const 8417) (drop)
            (if (result i32) (local.get 0) (then (block (if (local.get 1) (then (call $log (i32.const 1))) (else))) (i32.const 10)) (else (i32.const 20)))))"#),
        // a ref.func target first met through the ref.func itself (declared only by a declare segment), the only path to another function
        ("function-first-reached-through-ref-func", r#"(module (type $t (func (result i32))) (func $leaf (type $t) (i32.const 8418)) (func $target (type $t) (call $leaf)) (elem declare func $target)
            (table $tb (export "tb") 1 funcref)
            (func (export "f") (result i32) (table.set $tb (i32.const 0) (ref.func $target)) (call_indirect $tb (type $t) (i32.const 0))))"#),
        // tail calls next to plain calls
        ("return-call-and-call", r#"(module (type $t (func (result i32))) (table 1 funcref) (func $a (type $t) (i32.const 8419)) (elem (i32.const 0) func $a)
            (func $b (export "b") (type $t) (drop (call $a)) (return_call $a)) (func (export "c") (type $t) (drop (call_indirect (type $t) (i32.const 0))) (return_call_indirect (type $t) (i32.const 0))))"#),
        // br_table without targets (only the default label) carrying a value
        ("br-table-default-only-with-value", r#"(module (func (export "f") (param i32) (result i32) (i32.const 8420) (drop) (block (result i32) (i32.const 7) (local.get 0) (br_table 0))))"#),
        // indirect tail calls through the second of two funcref tables, callee type not the first type
        ("return-call-indirect-through-the-second-table", r#"(module (type $v (func)) (type $t (func (param i32) (result i32))) (table $first 2 funcref) (table $second 2 funcref)
            (func $a (type $t) (i32.const 8430)) (func $b (type $t) (i32.const 8431)) (func $nop (type $v))
            (elem (table $first) (i32.const 0) func $a) (elem (table $second) (i32.const 0) func $b)
            (func (export "run") (type $t) (call $nop) (return_call_indirect $second (type $t) (local.get 0) (i32.const 0)))
            (func (export "run1") (type $t) (return_call_indirect $first (type $t) (local.get 0) (i32.const 0))))"#),
        ("return-call-indirect-single-table-callee-type-not-first", r#"(module (type $v (func)) (type $t (func (param i32) (result i32))) (table 2 funcref)
            (func $b (type $t) (i32.const 8432)) (func $nop (type $v)) (elem (i32.const 0) func $b)
            (func (export "run") (type $t) (call $nop) (return_call_indirect (type $t) (local.get 0) (i32.const 0))))"#),
        // atomics on the second memory
        ("atomics-on-the-second-memory", r#"(module (memory $m0 1 1 shared) (memory $m1 1 1 shared)
            (func (export "f") (result i32) (i32.const 8433) (drop) (drop (memory.atomic.notify $m1 offset=8 (i32.const 0) (i32.const 1)))
              (drop (memory.atomic.wait32 $m1 (i32.const 0) (i32.const 0) (i64.const 0))) (i32.atomic.load $m1 (i32.const 0))))"#),
        ("imported-table-named", r#"(module (import "env" "tbl" (table $t 4 funcref)) (table $own 2 funcref) (func $f (export "f") (result i32) (i32.const 8358) (drop) (i32.add (table.size $t) (table.size $own))))"#),
        // two functions whose operator counts in the input order them differently from their counts
        // after a round trip (nops and dead code disappear, an else-less if may gain an `else`)
        ("order:else-less-if vs 1 nop", r#"(module (func $a (export "a") (param i32) (i32.const 8360) (drop) (if (local.get 0) (then (drop (i32.const 1))))) (func $b (export "b") (param i32) (i32.const 8361) (drop) (drop (i32.const 2)) (drop (i32.const 3)) (nop)))"#),
        ("order:else-less-if vs 2 nops", r#"(module (func $a (export "a") (param i32) (i32.const 8362) (drop) (if (local.get 0) (then (drop (i32.const 1))))) (func $b (export "b") (param i32) (i32.const 8363) (drop) (drop (i32.const 2)) (drop (i32.const 3)) (nop) (nop)))"#),
        ("order:else-less-if vs 3 nops", r#"(module (func $a (export "a") (param i32) (i32.const 8364) (drop) (if (local.get 0) (then (drop (i32.const 1))))) (func $b (export "b") (param i32) (i32.const 8365) (drop) (drop (i32.const 2)) (drop (i32.const 3)) (nop) (nop) (nop)))"#),
        ("order:dead code after return vs straight line", r#"(module (func $a (export "a") (param i32) (i32.const 8366) (drop) (return) (drop (i32.const 1)) (drop (i32.const 2)) (drop (i32.const 3))) (func $b (export "b") (param i32) (i32.const 8367) (drop) (drop (i32.const 2)) (drop (local.get 0))))"#),
        ("order:nops first then else-less-if", r#"(module (func $b (export "b") (param i32) (i32.const 8368) (drop) (nop) (nop) (nop) (nop) (drop (i32.const 2))) (func $a (export "a") (param i32) (i32.const 8369) (drop) (if (local.get 0) (then (drop (i32.const 1)))) (drop (local.get 0))))"#),
        // an else-less if whose block type passes two or more values through (walrus synthesizes the missing arm)
        ("else-less-if-passing-two-values", r#"(module (func (export "f") (param i32 i64 i32) (result i32 i64) (local.get 0) (local.get 1) (local.get 2)
            (if (param i32 i64) (result i32 i64) (then (drop) (drop) (i32.const 1) (i64.const 2)))))"#),
        ("else-less-if-passing-three-values-nested", r#"(module (func (export "f") (param i32) (result i32 f32 i64) (i32.const 5) (f32.const 1) (i64.const 2) (local.get 0)
            (if (param i32 f32 i64) (result i32 f32 i64) (then (local.get 0) (if (param i32 f32 i64) (result i32 f32 i64) (then (drop) (i64.const 9)))))))"#),
        // memory.copy / memory.init between memories of different index width, table.copy between tables of different index width
        ("memory-copy-between-32-and-64-bit-memories", r#"(module (memory $a 1) (memory $b i64 1) (func (export "f") (i32.const 8340) (drop)
            (memory.copy $a $b (i32.const 0) (i64.const 0) (i32.const 1)) (memory.copy $b $a (i64.const 0) (i32.const 0) (i32.const 1))))"#),
        ("table-copy-between-32-and-64-bit-tables", r#"(module (table $a 2 funcref) (table $b i64 2 funcref) (func (export "f") (i32.const 8341) (drop)
            (table.copy $a $b (i32.const 0) (i64.const 0) (i32.const 1)) (table.copy $b $a (i64.const 0) (i32.const 0) (i32.const 1))))"#),
        // an instruction without any entity operand next to entities nothing uses
        ("atomic-fence-and-unused-first-memory", r#"(module (memory 1) (memory $used 1) (func (export "f") (result i32) (i32.const 8342) (drop) (atomic.fence) (i32.load $used (i32.const 0))))"#),
        ("atomic-fence-and-unused-imported-memory", r#"(module (import "env" "m" (memory 1 1 shared)) (func (export "f") (i32.const 8343) (drop) (atomic.fence)))"#),
        // an empty declared segment in front of segments that table.init / elem.drop name
        ("empty-declared-elem-before-used-passive", r#"(module (table 4 funcref) (func $a) (func $b) (elem $d declare func) (elem $p1 func $a) (elem $p2 func $b $b)
            (func (export "f") (i32.const 8344) (drop) (table.init $p1 (i32.const 0) (i32.const 0) (i32.const 1)) (elem.drop $p1) (elem.drop $p2)))"#),
        ("empty-passive-data-before-used-passive", r#"(module (memory 1) (data $e "") (data $p1 "a") (data $p2 "bb")
            (func (export "f") (i32.const 8345) (drop) (memory.init $p1 (i32.const 0) (i32.const 0) (i32.const 1)) (data.drop $p1) (data.drop $p2)))"#),
        // bulk-memory instructions on active segments in one of several functions (the others use none)
        ("active-data-ops-in-one-of-three-functions", r#"(module (memory (export "m") 1) (data $d (i32.const 0) "ab") (func (export "peek") (param i32) (result i32) (i32.load8_u (local.get 0)))
            (func (export "init") (i32.const 8346) (drop) (memory.init $d (i32.const 4) (i32.const 0) (i32.const 0)) (data.drop $d)) (func (export "nop") (i32.const 8347) (drop)))"#),
        // a ref.func target whose only declaration is the initialiser of a global nothing reaches
        ("ref-func-declared-only-by-dead-global", r#"(module (func $f) (global $dead funcref (ref.func $f)) (func (export "run") (i32.const 8330) (drop) (drop (ref.func $f))))"#),
        ("ref-func-declared-only-by-dead-passive-elem-exprs", r#"(module (func $f) (elem $dead funcref (ref.func $f)) (func (export "run") (i32.const 8331) (drop) (drop (ref.func $f))))"#),
        // the start function is an import
        ("start-is-an-import", r#"(module (import "a" "f" (func $f)) (start $f))"#),
        ("start-is-an-import-among-locals", r#"(module (import "a" "g" (func $g (param i32))) (import "a" "f" (func $f)) (func (export "run") (i32.const 8332) (call $g)) (start $f))"#),
        // 64-bit imported table and memory, used in every index-typed position
        ("imported-table64-used", r#"(module (import "env" "t" (table $t i64 2 funcref)) (func $f) (elem (table $t) (i64.const 0) func $f)
            (func (export "run") (result i64) (i32.const 8333) (drop) (table.set $t (i64.const 1) (table.get $t (i64.const 0))) (drop (table.grow $t (ref.null func) (i64.const 0))) (table.size $t)))"#),
        ("imported-memory64-used", r#"(module (import "env" "m" (memory $m i64 1)) (data (memory $m) (i64.const 0) "x")
            (func (export "run") (result i64) (i32.const 8334) (drop) (i64.store (i64.const 8) (i64.load (i64.const 0))) (memory.size)))"#),
        // an unused function import ahead of imports that stay: gc deletes the first import entry
        ("unused-func-import-before-imported-memory", r#"(module (import "a" "f" (func)) (import "a" "g" (global $g i32)) (import "a" "m" (memory 1)) (func (export "r") (result i32) (i32.const 8335) (drop) (i32.load (global.get $g))))"#),
        ("unused-imports-before-imported-table", r#"(module (import "a" "f" (func)) (import "a" "g" (global i32)) (import "a" "t" (table 2 funcref)) (type $v (func)) (func (export "r") (i32.const 8336) (drop) (call_indirect (type $v) (i32.const 0))))"#),
        // empty segments of every mode, referenced by the instructions that may name them
        ("empty-declared-elem-dropped", r#"(module (table 1 funcref) (elem $d declare func) (func (export "f") (i32.const 8320) (drop) (elem.drop $d)))"#),
        ("empty-declared-elem-table-init", r#"(module (table 1 funcref) (elem $d declare funcref) (func (export "f") (i32.const 8321) (drop) (table.init $d (i32.const 0) (i32.const 0) (i32.const 0))))"#),
        ("empty-passive-and-active-elem", r#"(module (table 1 funcref) (elem $p func) (elem $a (i32.const 0) func) (func (export "f") (i32.const 8322) (drop) (elem.drop $p) (elem.drop $a)))"#),
        ("empty-declared-elem-unreferenced", r#"(module (table 1 funcref) (func $x) (elem $d declare func) (elem $e declare func $x) (func (export "f") (i32.const 8323) (drop) (ref.func $x) (drop)))"#),
        ("empty-passive-data-dropped", r#"(module (memory 1) (data $p "") (data $q "q") (func (export "f") (i32.const 8324) (drop) (data.drop $p) (memory.init $q (i32.const 0) (i32.const 0) (i32.const 1))))"#),
        // an unreferenced passive segment ahead of a referenced one: gc renumbers the survivor
        ("passive-data-second-used", r#"(module (memory 1) (data $a "aaaa") (data $b "bbbbbb") (data $c "cc") (func (export "f") (i32.const 8308) (drop) (memory.init $b (i32.const 0) (i32.const 0) (i32.const 1)) (data.drop $b)) (func (export "g") (i32.const 8309) (drop) (data.drop $c)))"#),
        ("passive-elem-second-used", r#"(module (table 4 funcref) (func $x) (func $y) (elem $a func $x) (elem $b func $y $y) (elem $c func $x $y $x) (func (export "f") (i32.const 8310) (drop) (table.init $b (i32.const 0) (i32.const 0) (i32.const 1)) (elem.drop $b)) (func (export "g") (i32.const 8311) (drop) (elem.drop $c)))"#),
        // an active element segment with a non-constant offset on a table nothing reaches
        ("dead-table-global-offset-elem", r#"(module (import "a" "g" (global $o i32)) (table $t 4 funcref) (func $x) (func (export "live") (i32.const 8312) (drop)) (elem (table $t) (global.get $o) func $x))"#),
        ("dead-memory-global-offset-data-and-live-memory", r#"(module (import "a" "g" (global $o i32)) (memory $m 1) (func (export "live") (i32.const 8313) (drop)) (data (memory $m) (global.get $o) "zz"))"#),
    ];
    srcs.into_iter()
        .map(|(n, src)| Member { family: "minimal", coords: n.to_string(), wasm: wat::parse_str(src).unwrap_or_else(|e| panic!("minimal module {}: {}", n, e)) })
        .collect()
}
