//! Twelve small *stateful* modules (state carries over between calls), written for the
//! behavioural checks.  Assembled with wat 1.259.

pub fn stateful_modules() -> Vec<(&'static str, Vec<u8>)> {
    let srcs: Vec<(&'static str, &'static str)> = vec![
        ("counter-global", r#"(module
            (global $c (mut i32) (i32.const 0))
            (func (export "inc") (result i32) (global.set $c (i32.add (global.get $c) (i32.const 1))) (global.get $c))
            (func (export "add") (param i32) (result i32) (global.set $c (i32.add (global.get $c) (local.get 0))) (global.get $c))
            (func $unused (result i32) (i32.const 99))
            (global $dead (mut i64) (i64.const 5))
            (export "c" (global $c)))"#),
        ("memory-cells", r#"(module
            (memory (export "mem") 1 2)
            (func (export "store") (param i32 i32) (i32.store (i32.and (local.get 0) (i32.const 0xfffc)) (local.get 1)))
            (func (export "load") (param i32) (result i32) (i32.load (local.get 0)))
            (func (export "sum") (result i32) (i32.add (i32.load (i32.const 0)) (i32.load (i32.const 4))))
            (data (i32.const 0) "\01\00\00\00\02\00\00\00"))"#),
        ("table-mutation", r#"(module
            (type $t (func (result i32)))
            (table (export "tab") 4 funcref)
            (func $a (result i32) (i32.const 10))
            (func $b (result i32) (i32.const 20))
            (func $dead (result i32) (i32.const 30))
            (elem (i32.const 0) $a $b)
            (elem declare func $b $a)
            (func (export "swap") (param i32) (table.set (local.get 0) (ref.func $b)) )
            (func (export "call") (param i32) (result i32) (call_indirect (type $t) (local.get 0)))
            (func (export "size") (result i32) (table.size 0)))"#),
        ("memory-init-drop", r#"(module
            (memory (export "mem") 1)
            (data $p "abcdefgh")
            (data $q "unused-passive")
            (func (export "init") (param i32) (memory.init $p (local.get 0) (i32.const 0) (i32.const 8)))
            (func (export "drop") (data.drop $p))
            (func (export "peek") (param i32) (result i32) (i32.load8_u (local.get 0))))"#),
        ("table-init-drop", r#"(module
            (type $t (func (result i32)))
            (table (export "tab") 4 funcref)
            (func $a (result i32) (i32.const 1))
            (func $b (result i32) (i32.const 2))
            (elem $p func $a $b)
            (elem $unused func $b)
            (func (export "init") (param i32) (table.init $p (local.get 0) (i32.const 0) (i32.const 2)))
            (func (export "drop") (elem.drop $p))
            (func (export "call") (param i32) (result i32) (call_indirect (type $t) (local.get 0))))"#),
        ("memory-grow", r#"(module
            (memory (export "mem") 1 3)
            (func (export "grow") (param i32) (result i32) (memory.grow (local.get 0)))
            (func (export "size") (result i32) (memory.size))
            (func (export "poke") (param i32 i32) (i32.store8 (local.get 0) (local.get 1))))"#),
        ("start-side-effects", r#"(module
            (import "env" "log" (func $log (param i32)))
            (memory (export "mem") 1)
            (global $g (export "g") (mut i32) (i32.const 1))
            (func $start (global.set $g (i32.const 42)) (i32.store (i32.const 16) (i32.const 7)) (call $log (i32.const 5)))
            (start $start)
            (func (export "get") (result i32) (global.get $g)))"#),
        ("segment-edge-of-bounds", r#"(module
            (memory (export "mem") 1)
            (table (export "tab") 2 funcref)
            (func $f)
            (data (i32.const 65532) "\aa\bb\cc\dd")
            (elem (i32.const 1) $f)
            (func (export "last") (result i32) (i32.load (i32.const 65532))))"#),
        ("segment-out-of-bounds", r#"(module
            (memory (export "mem") 1)
            (data (i32.const 65533) "\aa\bb\cc\dd")
            (func (export "f") (result i32) (i32.const 1)))"#),
        ("imports-and-reexports", r#"(module
            (import "env" "h" (func $h (param i32) (result i32)))
            (import "env" "g" (global $ig i32))
            (import "env" "unused" (func $u))
            (global $l (export "l") (mut i32) (global.get $ig))
            (func (export "twice") (param i32) (result i32) (call $h (call $h (local.get 0))))
            (func (export "bump") (result i32) (global.set $l (i32.add (global.get $l) (global.get $ig))) (global.get $l))
            (export "h" (func $h)))"#),
        ("multi-value-and-locals", r#"(module
            (func $pair (param i32) (result i32 i64) (local.get 0) (i64.extend_i32_s (local.get 0)))
            (func (export "f") (param i32) (result i64) (local i64 i32 f32)
               (call $pair (local.get 0)) (local.set 1) (local.set 2)
               (block (param) (result i64) (i64.add (local.get 1) (i64.extend_i32_u (local.get 2)))))
            (func (export "sel") (param i32 i32 i32) (result i32) (select (local.get 0) (local.get 1) (local.get 2))))"#),
        ("two-tables-copy", r#"(module
            (type $t (func (result i32)))
            (table $dst (export "dst") 4 funcref)
            (table $src (export "src") 4 funcref)
            (func $a (result i32) (i32.const 11))
            (func $b (result i32) (i32.const 22))
            (elem (table $src) (i32.const 0) func $a $b)
            (elem (table $dst) (i32.const 2) func $b)
            (func (export "copy") (param i32 i32 i32) (table.copy $dst $src (local.get 0) (local.get 1) (i32.and (local.get 2) (i32.const 3))))
            (func (export "call_dst") (param i32) (result i32) (call_indirect $dst (type $t) (local.get 0)))
            (func (export "call_src") (param i32) (result i32) (call_indirect $src (type $t) (local.get 0)))
            (func (export "fill") (param i32) (table.fill $src (local.get 0) (ref.null func) (i32.const 1))))"#),
        ("loops-and-branches", r#"(module
            (memory (export "mem") 1)
            (func (export "fill") (param i32) (result i32) (local i32)
               (block $out (loop $l
                  (br_if $out (i32.ge_u (local.get 1) (i32.and (local.get 0) (i32.const 15))))
                  (i32.store8 (local.get 1) (local.get 1))
                  (local.set 1 (i32.add (local.get 1) (i32.const 1)))
                  (br $l)))
               (local.get 1))
            (func (export "tbl") (param i32) (result i32)
               (block $a (block $b (block $c (br_table $a $b $c (local.get 0))) (return (i32.const 3))) (return (i32.const 2))) (i32.const 1)))"#),
        // every segment mode next to each other: a declared segment is dropped at instantiation
        // (table.init from it traps for n > 0), a passive one lives until elem.drop, an active one
        // is dropped after it was applied; the same for data segments
        ("segment-modes", r#"(module
            (type $t (func (result i32)))
            (table $t0 (export "t") 6 funcref)
            (memory (export "mem") 1)
            (func $f (result i32) (i32.const 42))
            (func $g (result i32) (i32.const 43))
            (elem $act (i32.const 4) func $g)
            (elem $decl declare func $f $g)
            (elem $pas func $g $f)
            (data $dact (i32.const 16) "AB")
            (data $dpas "xyz")
            (func (export "init_decl") (param i32) (table.init $t0 $decl (i32.const 0) (i32.const 0) (i32.and (local.get 0) (i32.const 3))))
            (func (export "init_pas") (param i32) (table.init $t0 $pas (i32.const 2) (i32.const 0) (i32.and (local.get 0) (i32.const 3))))
            (func (export "init_act") (param i32) (table.init $t0 $act (i32.const 0) (i32.const 0) (i32.and (local.get 0) (i32.const 1))))
            (func (export "drop_pas") (elem.drop $pas))
            (func (export "minit_act") (param i32) (memory.init $dact (i32.const 0) (i32.const 0) (i32.and (local.get 0) (i32.const 1))))
            (func (export "minit_pas") (param i32) (memory.init $dpas (i32.const 4) (i32.const 0) (i32.and (local.get 0) (i32.const 3))))
            (func (export "ddrop") (data.drop $dpas))
            (func (export "call") (param i32) (result i32) (call_indirect $t0 (type $t) (i32.rem_u (local.get 0) (i32.const 6))))
            (func (export "rf") (result i32) (ref.is_null (ref.func $f))))"#),
        // v128 constants whose sixteen bytes are all different and non-zero, in a body, in a global
        // initialiser and written to memory (a v128 cannot cross the host boundary: lanes and bytes can)
        ("simd-consts", r#"(module
            (memory (export "mem") 1)
            (global $gv v128 (v128.const i8x16 0xa1 0xa2 0xa3 0xa4 0xa5 0xa6 0xa7 0xa8 0xa9 0xaa 0xab 0xac 0xad 0xae 0xaf 0xb0))
            (func (export "lane8") (param i32) (result i32)
               (v128.store (i32.const 0) (v128.const i8x16 1 2 3 4 5 6 7 8 9 10 11 12 13 14 15 16))
               (i32.load8_u (i32.and (local.get 0) (i32.const 15))))
            (func (export "glane8") (param i32) (result i32)
               (v128.store (i32.const 16) (global.get $gv))
               (i32.load8_u (i32.add (i32.const 16) (i32.and (local.get 0) (i32.const 15)))))
            (func (export "lanes32") (result i32)
               (i32.xor (i32x4.extract_lane 2 (v128.const i32x4 0x01020304 0x11121314 0x21222324 0x31323334)) (i32x4.extract_lane 3 (v128.const i32x4 0x41424344 0x51525354 0x61626364 0x71727374))))
            (func (export "f64lane") (result f64) (f64x2.extract_lane 1 (v128.const f64x2 1.5 -2.7182818)))
            (func (export "shuffle") (result i32)
               (i32x4.extract_lane 1 (i8x16.shuffle 0 17 2 19 4 21 6 23 8 25 10 27 12 29 14 31 (v128.const i8x16 1 2 3 4 5 6 7 8 9 10 11 12 13 14 15 16) (v128.const i8x16 0xf1 0xf2 0xf3 0xf4 0xf5 0xf6 0xf7 0xf8 0xf9 0xfa 0xfb 0xfc 0xfd 0xfe 0xff 0xe0)))))"#),
        // every width of atomic load / store / read-modify-write at an address taken from the first
        // parameter (mod 64): an unaligned atomic access traps where the plain access of the same
        // width would not
        ("atomics-alignment", r#"(module (memory (export "mem") 1) (data (i32.const 0) "\11\22\33\44\55\66\77\88\99\aa\bb\cc\dd\ee\ff\01") (func (export "l32") (param i32) (result i32) (i32.atomic.load (i32.and (local.get 0) (i32.const 63))))
            (func (export "l32_8") (param i32) (result i32) (i32.atomic.load8_u (i32.and (local.get 0) (i32.const 63))))
            (func (export "l32_16") (param i32) (result i32) (i32.atomic.load16_u (i32.and (local.get 0) (i32.const 63))))
            (func (export "l64") (param i32) (result i32) (i32.wrap_i64 (i64.atomic.load (i32.and (local.get 0) (i32.const 63)))))
            (func (export "l64_8") (param i32) (result i32) (i32.wrap_i64 (i64.atomic.load8_u (i32.and (local.get 0) (i32.const 63)))))
            (func (export "l64_16") (param i32) (result i32) (i32.wrap_i64 (i64.atomic.load16_u (i32.and (local.get 0) (i32.const 63)))))
            (func (export "l64_32") (param i32) (result i32) (i32.wrap_i64 (i64.atomic.load32_u (i32.and (local.get 0) (i32.const 63)))))
            (func (export "s32") (param i32 i32) (i32.atomic.store (i32.and (local.get 0) (i32.const 63)) (local.get 1)))
            (func (export "s32_8") (param i32 i32) (i32.atomic.store8 (i32.and (local.get 0) (i32.const 63)) (local.get 1)))
            (func (export "s32_16") (param i32 i32) (i32.atomic.store16 (i32.and (local.get 0) (i32.const 63)) (local.get 1)))
            (func (export "s64") (param i32 i32) (i64.atomic.store (i32.and (local.get 0) (i32.const 63)) (i64.extend_i32_u (local.get 1))))
            (func (export "s64_8") (param i32 i32) (i64.atomic.store8 (i32.and (local.get 0) (i32.const 63)) (i64.extend_i32_u (local.get 1))))
            (func (export "s64_16") (param i32 i32) (i64.atomic.store16 (i32.and (local.get 0) (i32.const 63)) (i64.extend_i32_u (local.get 1))))
            (func (export "s64_32") (param i32 i32) (i64.atomic.store32 (i32.and (local.get 0) (i32.const 63)) (i64.extend_i32_u (local.get 1))))
            (func (export "a32") (param i32 i32) (result i32) (i32.atomic.rmw.add (i32.and (local.get 0) (i32.const 63)) (local.get 1)))
            (func (export "a32_16") (param i32 i32) (result i32) (i32.atomic.rmw16.add_u (i32.and (local.get 0) (i32.const 63)) (local.get 1)))
            (func (export "a64_32") (param i32 i32) (result i32) (i32.wrap_i64 (i64.atomic.rmw32.add_u (i32.and (local.get 0) (i32.const 63)) (i64.extend_i32_u (local.get 1)))))
            (func (export "x64") (param i32 i32) (result i32) (i32.wrap_i64 (i64.atomic.rmw.xchg (i32.and (local.get 0) (i32.const 63)) (i64.extend_i32_u (local.get 1)))))
            (func (export "c32") (param i32 i32) (result i32) (i32.atomic.rmw.cmpxchg (i32.and (local.get 0) (i32.const 63)) (local.get 1) (local.get 1))))"#),
    ];
    srcs.into_iter().map(|(n, s)| (n, wat::parse_str(s).unwrap_or_else(|e| panic!("stateful module {}: {}", n, e)))).collect()
}

/// assemble WAT text (wat 1.259)
pub fn assemble(src: &str) -> Result<Vec<u8>, String> {
    wat::parse_str(src).map_err(|e| e.to_string())
}
