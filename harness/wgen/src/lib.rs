//! `wgen`: bounded-exhaustive module families (DESIGN §3.2).  Never depends on walrus.

pub mod body;
pub mod families;
pub mod mb;
pub mod opcensus;
pub mod stateful;

#[derive(Clone, Debug)]
pub struct Member {
    pub family: &'static str,
    /// generator coordinates, enough to regenerate the member
    pub coords: String,
    pub wasm: Vec<u8>,
}

#[derive(Clone, Copy, Debug, PartialEq, Eq)]
pub enum Tier {
    Quick,
    Thorough,
}
