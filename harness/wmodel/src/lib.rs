//! `wmodel`: a walrus-independent model of a WebAssembly binary (decoded with wasmparser 0.259),
//! an isomorphism-up-to-renumbering checker, an independent reachability analysis and thin
//! wrappers around the two reference validators.  This crate must never depend on walrus.

pub mod decode;
pub mod iso;
pub mod reach;
pub mod validate;

pub use decode::*;
pub use iso::{iso, IsoMode, Maps, Mismatch};
pub use validate::{validate214, validate259, Feat, FeatureSet};

pub fn hex(b: &[u8]) -> String {
    let mut s = String::with_capacity(b.len() * 2);
    for x in b {
        s.push_str(&format!("{:02x}", x));
    }
    s
}

pub fn unhex(s: &str) -> Vec<u8> {
    let s = s.trim();
    (0..s.len() / 2)
        .map(|i| u8::from_str_radix(&s[2 * i..2 * i + 2], 16).unwrap())
        .collect()
}

/// FNV-1a 64 (deterministic across processes; used for digests and canonical keys)
pub fn fnv(b: &[u8]) -> u64 {
    let mut h: u64 = 0xcbf29ce484222325;
    for x in b {
        h ^= *x as u64;
        h = h.wrapping_mul(0x100000001b3);
    }
    h
}

pub fn leb_len(mut v: u64) -> u64 {
    let mut n = 1;
    while v >= 0x80 {
        v >>= 7;
        n += 1;
    }
    n
}
