//! Independent reachability analysis over a decoded binary, written from the property text and
//! the wasm spec (not from walrus's `used.rs`).
//!
//! Roots: exports, the start function, active data segments, active element segments of
//! *imported* tables, declared element segments.  Edges: every index operand of every operator
//! in a reachable body / init / offset expression; element items; a reachable table keeps the
//! active element segments that initialise it; segment -> its table / memory; function -> type;
//! block -> type; import -> its type.

use crate::decode::*;

#[derive(Clone, Debug, Default)]
pub struct ReachSets {
    pub funcs: Vec<bool>,
    pub tables: Vec<bool>,
    pub mems: Vec<bool>,
    pub globals: Vec<bool>,
    pub elems: Vec<bool>,
    pub datas: Vec<bool>,
    pub types: Vec<bool>,
}

impl ReachSets {
    pub fn get(&self, s: Space) -> &Vec<bool> {
        match s {
            Space::Func => &self.funcs,
            Space::Table => &self.tables,
            Space::Mem => &self.mems,
            Space::Global => &self.globals,
            Space::Elem => &self.elems,
            Space::Data => &self.datas,
            Space::Tag => panic!("tags unsupported"),
        }
    }
}

struct W<'m> {
    m: &'m WModule,
    r: ReachSets,
    stack: Vec<(Space, u32)>,
}

impl<'m> W<'m> {
    fn push(&mut self, s: Space, i: u32) {
        let v = match s {
            Space::Func => &mut self.r.funcs,
            Space::Table => &mut self.r.tables,
            Space::Mem => &mut self.r.mems,
            Space::Global => &mut self.r.globals,
            Space::Elem => &mut self.r.elems,
            Space::Data => &mut self.r.datas,
            Space::Tag => return,
        };
        if let Some(x) = v.get_mut(i as usize) {
            if !*x {
                *x = true;
                self.stack.push((s, i));
            }
        }
    }
    fn ty(&mut self, t: u32) {
        if let Some(x) = self.r.types.get_mut(t as usize) {
            *x = true;
        }
    }
    fn ops<'a>(&mut self, ops: impl Iterator<Item = &'a Op>) {
        for op in ops {
            for im in &op.imms {
                match im {
                    Imm::Func(i) => self.push(Space::Func, *i),
                    Imm::Global(i) => self.push(Space::Global, *i),
                    Imm::Table(i) => self.push(Space::Table, *i),
                    Imm::Mem(i) => self.push(Space::Mem, *i),
                    Imm::Data(i) => self.push(Space::Data, *i),
                    Imm::Elem(i) => self.push(Space::Elem, *i),
                    Imm::Type(i) => self.ty(*i),
                    Imm::Block(BlockTy::Func(i)) => self.ty(*i),
                    Imm::MemArg { memory, .. } => self.push(Space::Mem, *memory),
                    _ => {}
                }
            }
        }
    }
}

pub fn reach(m: &WModule) -> ReachSets {
    let mut w = W {
        m,
        r: ReachSets {
            funcs: vec![false; m.funcs.len()],
            tables: vec![false; m.tables.len()],
            mems: vec![false; m.memories.len()],
            globals: vec![false; m.globals.len()],
            elems: vec![false; m.elems.len()],
            datas: vec![false; m.datas.len()],
            types: vec![false; m.types.len()],
        },
        stack: vec![],
    };
    for e in &m.exports {
        w.push(e.space, e.index);
    }
    if let Some(s) = m.start {
        w.push(Space::Func, s);
    }
    for (i, d) in m.datas.iter().enumerate() {
        if let DataMode::Active { .. } = d.mode {
            w.push(Space::Data, i as u32);
        }
    }
    for (i, e) in m.elems.iter().enumerate() {
        match &e.mode {
            ElemMode::Declared => w.push(Space::Elem, i as u32),
            ElemMode::Active { table, .. } => {
                if m.tables.get(*table as usize).map(|t| t.import.is_some()).unwrap_or(false) {
                    w.push(Space::Elem, i as u32);
                }
            }
            ElemMode::Passive => {}
        }
    }
    while let Some((s, i)) = w.stack.pop() {
        let m = w.m;
        match s {
            Space::Func => {
                let f = &m.funcs[i as usize];
                w.ty(f.ty);
                if let Some(b) = &f.body {
                    w.ops(b.ops.iter().map(|x| &x.0));
                }
            }
            Space::Global => {
                if let Some(init) = &m.globals[i as usize].init {
                    w.ops(init.iter());
                }
            }
            Space::Table => {
                if let Some(init) = &m.tables[i as usize].init {
                    w.ops(init.iter());
                }
                for (k, e) in m.elems.iter().enumerate() {
                    if let ElemMode::Active { table, .. } = &e.mode {
                        if *table == i {
                            w.push(Space::Elem, k as u32);
                        }
                    }
                }
            }
            Space::Mem => {}
            Space::Elem => {
                let e = &m.elems[i as usize];
                if let ElemMode::Active { table, offset } = &e.mode {
                    w.push(Space::Table, *table);
                    w.ops(offset.iter());
                }
                match &e.items {
                    ElemItems::Funcs(v) => {
                        for f in v {
                            w.push(Space::Func, *f);
                        }
                    }
                    ElemItems::Exprs(v) => {
                        for x in v {
                            w.ops(x.iter());
                        }
                    }
                }
            }
            Space::Data => {
                if let DataMode::Active { memory, offset } = &m.datas[i as usize].mode {
                    w.push(Space::Mem, *memory);
                    w.ops(offset.iter());
                }
            }
            Space::Tag => {}
        }
    }
    w.r
}
