//! Decoder: bytes -> plain data, using wasmparser 0.259 only.

use std::collections::BTreeMap;
use std::ops::Range;
use wasmparser as wp;

#[derive(Clone, Debug, PartialEq, Eq, Hash, PartialOrd, Ord)]
pub enum VT {
    I32,
    I64,
    F32,
    F64,
    V128,
    FuncRef,
    ExternRef,
    Other(String),
}

impl VT {
    pub fn short(&self) -> String {
        match self {
            VT::I32 => "i32".into(),
            VT::I64 => "i64".into(),
            VT::F32 => "f32".into(),
            VT::F64 => "f64".into(),
            VT::V128 => "v128".into(),
            VT::FuncRef => "funcref".into(),
            VT::ExternRef => "externref".into(),
            VT::Other(s) => s.clone(),
        }
    }
}

pub fn vt(t: wp::ValType) -> VT {
    match t {
        wp::ValType::I32 => VT::I32,
        wp::ValType::I64 => VT::I64,
        wp::ValType::F32 => VT::F32,
        wp::ValType::F64 => VT::F64,
        wp::ValType::V128 => VT::V128,
        wp::ValType::Ref(r) => rt(r),
    }
}
pub fn rt(r: wp::RefType) -> VT {
    if r == wp::RefType::FUNCREF {
        VT::FuncRef
    } else if r == wp::RefType::EXTERNREF {
        VT::ExternRef
    } else {
        VT::Other(format!("{:?}", r))
    }
}

#[derive(Clone, Debug, PartialEq, Eq, Hash, PartialOrd, Ord)]
pub struct FuncSig {
    pub params: Vec<VT>,
    pub results: Vec<VT>,
}

#[derive(Clone, Debug, PartialEq, Eq, Hash)]
pub struct Limits {
    pub min: u64,
    pub max: Option<u64>,
    pub is64: bool,
    pub shared: bool,
}

#[derive(Clone, Debug, PartialEq, Eq, Hash)]
pub struct TableTy {
    pub elem: VT,
    pub lim: Limits,
}
#[derive(Clone, Debug, PartialEq, Eq, Hash)]
pub struct MemTy {
    pub lim: Limits,
    pub page_size_log2: Option<u32>,
}
#[derive(Clone, Debug, PartialEq, Eq, Hash)]
pub struct GlobalTy {
    pub ty: VT,
    pub mutable: bool,
    pub shared: bool,
}

#[derive(Clone, Debug, PartialEq, Eq, Hash)]
pub enum ImportKind {
    Func(u32),
    Table(TableTy),
    Memory(MemTy),
    Global(GlobalTy),
    Tag(u32),
}

#[derive(Clone, Debug, PartialEq, Eq, Hash)]
pub struct Import {
    pub module: String,
    pub name: String,
    pub kind: ImportKind,
    /// index of the entity inside its own index space
    pub index: u32,
}

#[derive(Clone, Copy, Debug, PartialEq, Eq, Hash, PartialOrd, Ord)]
pub enum Space {
    Func,
    Table,
    Mem,
    Global,
    Elem,
    Data,
    Tag,
}

#[derive(Clone, Debug, PartialEq, Eq, Hash)]
pub enum BlockTy {
    Empty,
    Val(VT),
    Func(u32),
}

#[derive(Clone, Debug, PartialEq, Eq, Hash)]
pub enum Imm {
    Func(u32),
    Global(u32),
    Local(u32),
    Table(u32),
    Mem(u32),
    Type(u32),
    Data(u32),
    Elem(u32),
    Tag(u32),
    Depth(u32),
    /// all targets, the default last
    Targets(Vec<u32>),
    Block(BlockTy),
    MemArg { align: u8, offset: u64, memory: u32 },
    I32(i32),
    I64(i64),
    F32(u32),
    F64(u64),
    V128([u8; 16]),
    Lane(u8),
    Lanes([u8; 16]),
    ValTy(VT),
    ValTys(Vec<VT>),
    HeapTy(String),
    Other(String),
}

#[derive(Clone, Debug, PartialEq, Eq, Hash)]
pub struct Op {
    pub name: &'static str,
    pub imms: Vec<Imm>,
}

impl Op {
    pub fn is(&self, n: &str) -> bool {
        self.name == n
    }
    pub fn show(&self) -> String {
        if self.imms.is_empty() {
            self.name.to_string()
        } else {
            format!("{}{:?}", self.name, self.imms)
        }
    }
}

mod conv {
    use super::*;
    pub trait ToImm {
        fn to_imm(&self) -> Imm;
    }
    impl ToImm for i32 {
        fn to_imm(&self) -> Imm {
            Imm::I32(*self)
        }
    }
    impl ToImm for i64 {
        fn to_imm(&self) -> Imm {
            Imm::I64(*self)
        }
    }
    impl ToImm for wp::Ieee32 {
        fn to_imm(&self) -> Imm {
            Imm::F32(self.bits())
        }
    }
    impl ToImm for wp::Ieee64 {
        fn to_imm(&self) -> Imm {
            Imm::F64(self.bits())
        }
    }
    impl ToImm for wp::V128 {
        fn to_imm(&self) -> Imm {
            Imm::V128(*self.bytes())
        }
    }
    pub fn value<T: ToImm>(x: &T) -> Imm {
        x.to_imm()
    }
    pub fn function_index(x: &u32) -> Imm {
        Imm::Func(*x)
    }
    pub fn global_index(x: &u32) -> Imm {
        Imm::Global(*x)
    }
    pub fn local_index(x: &u32) -> Imm {
        Imm::Local(*x)
    }
    pub fn table_index(x: &u32) -> Imm {
        Imm::Table(*x)
    }
    pub fn table(x: &u32) -> Imm {
        Imm::Table(*x)
    }
    pub fn src_table(x: &u32) -> Imm {
        Imm::Table(*x)
    }
    pub fn dst_table(x: &u32) -> Imm {
        Imm::Table(*x)
    }
    pub fn mem(x: &u32) -> Imm {
        Imm::Mem(*x)
    }
    pub fn src_mem(x: &u32) -> Imm {
        Imm::Mem(*x)
    }
    pub fn dst_mem(x: &u32) -> Imm {
        Imm::Mem(*x)
    }
    pub fn type_index(x: &u32) -> Imm {
        Imm::Type(*x)
    }
    pub fn struct_type_index(x: &u32) -> Imm {
        Imm::Type(*x)
    }
    pub fn array_type_index(x: &u32) -> Imm {
        Imm::Type(*x)
    }
    pub fn array_type_index_src(x: &u32) -> Imm {
        Imm::Type(*x)
    }
    pub fn array_type_index_dst(x: &u32) -> Imm {
        Imm::Type(*x)
    }
    pub fn cont_type_index(x: &u32) -> Imm {
        Imm::Type(*x)
    }
    pub fn data_index(x: &u32) -> Imm {
        Imm::Data(*x)
    }
    pub fn array_data_index(x: &u32) -> Imm {
        Imm::Data(*x)
    }
    pub fn elem_index(x: &u32) -> Imm {
        Imm::Elem(*x)
    }
    pub fn array_elem_index(x: &u32) -> Imm {
        Imm::Elem(*x)
    }
    pub fn tag_index(x: &u32) -> Imm {
        Imm::Tag(*x)
    }
    pub fn relative_depth(x: &u32) -> Imm {
        Imm::Depth(*x)
    }
    pub fn field_index(x: &u32) -> Imm {
        Imm::Other(format!("field{}", x))
    }
    pub fn array_size(x: &u32) -> Imm {
        Imm::Other(format!("size{}", x))
    }
    pub fn result_index(x: &u32) -> Imm {
        Imm::Other(format!("res{}", x))
    }
    pub fn argument_index(x: &u32) -> Imm {
        Imm::Other(format!("arg{}", x))
    }
    pub fn lane(x: &u8) -> Imm {
        Imm::Lane(*x)
    }
    pub fn lanes(x: &[u8; 16]) -> Imm {
        Imm::Lanes(*x)
    }
    pub fn ty(x: &wp::ValType) -> Imm {
        Imm::ValTy(vt(*x))
    }
    pub fn tys(x: &Vec<wp::ValType>) -> Imm {
        Imm::ValTys(x.iter().map(|t| vt(*t)).collect())
    }
    pub fn from_ref_type(x: &wp::RefType) -> Imm {
        Imm::HeapTy(format!("{:?}", x))
    }
    pub fn to_ref_type(x: &wp::RefType) -> Imm {
        Imm::HeapTy(format!("{:?}", x))
    }
    pub fn hty(x: &wp::HeapType) -> Imm {
        Imm::HeapTy(format!("{:?}", x))
    }
    pub fn ordering(x: &wp::Ordering) -> Imm {
        Imm::Other(format!("{:?}", x))
    }
    pub fn try_table(x: &wp::TryTable) -> Imm {
        Imm::Other(format!("{:?}", x))
    }
    pub fn resume_table(x: &wp::ResumeTable) -> Imm {
        Imm::Other(format!("{:?}", x))
    }
    pub fn memarg(x: &wp::MemArg) -> Imm {
        Imm::MemArg { align: x.align, offset: x.offset, memory: x.memory }
    }
    pub fn blockty(x: &wp::BlockType) -> Imm {
        Imm::Block(match x {
            wp::BlockType::Empty => BlockTy::Empty,
            wp::BlockType::Type(t) => BlockTy::Val(vt(*t)),
            wp::BlockType::FuncType(i) => BlockTy::Func(*i),
        })
    }
    pub fn targets(x: &wp::BrTable<'_>) -> Imm {
        let mut v: Vec<u32> = x.targets().map(|t| t.unwrap_or(u32::MAX)).collect();
        v.push(x.default());
        Imm::Targets(v)
    }
}

macro_rules! define_convert {
    ($( @$proposal:ident $op:ident $({ $($arg:ident: $argty:ty),* })? => $visit:ident ($($ann:tt)*) )*) => {
        pub fn convert(op: &wp::Operator<'_>) -> Op {
            match op {
                $( wp::Operator::$op $({ $($arg),* })? => Op { name: stringify!($op), imms: vec![$($( conv::$arg($arg) ),*)?] }, )*
                #[allow(unreachable_patterns)]
                _ => Op { name: "UnknownOperator", imms: vec![] },
            }
        }
        /// every operator name wasmparser 0.259 knows about
        pub const ALL_OP_NAMES_259: &[&str] = &[ $( stringify!($op) ),* ];
    }
}
wp::for_each_operator!(define_convert);

#[derive(Clone, Debug, PartialEq, Eq)]
pub struct Body {
    /// declared locals (parameters excluded), expanded
    pub locals: Vec<VT>,
    pub local_runs: Vec<(u32, VT)>,
    pub ops: Vec<(Op, u64)>,
    /// the code entry including its size LEB
    pub entry: Range<u64>,
    /// the body bytes (after the size LEB): locals + operators
    pub body: Range<u64>,
}

#[derive(Clone, Debug, PartialEq, Eq)]
pub struct Func {
    pub ty: u32,
    pub import: Option<usize>,
    pub body: Option<Body>,
}

#[derive(Clone, Debug, PartialEq, Eq)]
pub struct Table {
    pub ty: TableTy,
    pub import: Option<usize>,
    pub init: Option<Vec<Op>>,
}
#[derive(Clone, Debug, PartialEq, Eq)]
pub struct Memory {
    pub ty: MemTy,
    pub import: Option<usize>,
}
#[derive(Clone, Debug, PartialEq, Eq)]
pub struct Global {
    pub ty: GlobalTy,
    pub import: Option<usize>,
    pub init: Option<Vec<Op>>,
}
#[derive(Clone, Debug, PartialEq, Eq)]
pub struct Export {
    pub name: String,
    pub space: Space,
    pub index: u32,
}
#[derive(Clone, Debug, PartialEq, Eq)]
pub enum ElemMode {
    Passive,
    Declared,
    Active { table: u32, offset: Vec<Op> },
}
#[derive(Clone, Debug, PartialEq, Eq)]
pub enum ElemItems {
    Funcs(Vec<u32>),
    Exprs(Vec<Vec<Op>>),
}
#[derive(Clone, Debug, PartialEq, Eq)]
pub struct Elem {
    pub mode: ElemMode,
    pub elem_ty: VT,
    pub items: ElemItems,
    /// the raw flag value of the binary encoding (0..=7)
    pub flag: u32,
}
#[derive(Clone, Debug, PartialEq, Eq)]
pub enum DataMode {
    Passive,
    Active { memory: u32, offset: Vec<Op> },
}
#[derive(Clone, Debug, PartialEq, Eq)]
pub struct Data {
    pub mode: DataMode,
    pub payload: Vec<u8>,
    pub flag: u32,
}
#[derive(Clone, Debug, PartialEq, Eq)]
pub struct Custom {
    pub name: String,
    pub data: Vec<u8>,
    /// number of non-custom sections seen before this one
    pub after_sections: usize,
    /// id of the last non-custom section before it (0 if none)
    pub after_id: u8,
    pub range: Range<u64>,
    pub data_range: Range<u64>,
}

#[derive(Clone, Debug, Default, PartialEq, Eq)]
pub struct Names {
    pub present: bool,
    pub module: Option<String>,
    pub funcs: BTreeMap<u32, String>,
    pub locals: BTreeMap<(u32, u32), String>,
    pub labels: BTreeMap<(u32, u32), String>,
    pub types: BTreeMap<u32, String>,
    pub tables: BTreeMap<u32, String>,
    pub memories: BTreeMap<u32, String>,
    pub globals: BTreeMap<u32, String>,
    pub elems: BTreeMap<u32, String>,
    pub datas: BTreeMap<u32, String>,
    pub fields: BTreeMap<(u32, u32), String>,
    pub tags: BTreeMap<u32, String>,
    pub unknown_subsections: Vec<u8>,
    pub subsection_order: Vec<u8>,
    /// (subsection id, index) pairs that occur more than once in one name map
    pub duplicates: Vec<(u8, u32)>,
    pub error: Option<String>,
}

#[derive(Clone, Debug, PartialEq, Eq)]
pub struct SectionInfo {
    pub id: u8,
    pub name: Option<String>,
    pub range: Range<u64>,
}

#[derive(Clone, Debug, Default, PartialEq, Eq)]
pub struct WModule {
    pub types: Vec<Option<FuncSig>>,
    pub imports: Vec<Import>,
    pub funcs: Vec<Func>,
    pub tables: Vec<Table>,
    pub memories: Vec<Memory>,
    pub globals: Vec<Global>,
    pub tags: Vec<u32>,
    pub exports: Vec<Export>,
    pub start: Option<u32>,
    pub elems: Vec<Elem>,
    pub datas: Vec<Data>,
    pub customs: Vec<Custom>,
    pub names: Names,
    pub producers: Option<Vec<(String, Vec<(String, String)>)>>,
    pub data_count: Option<u32>,
    /// offset of the first byte of the code section *contents* (the function-count LEB)
    pub code_contents_start: Option<u64>,
    pub code_count_leb_len: u64,
    pub sections: Vec<SectionInfo>,
    pub len: usize,
}

impl WModule {
    pub fn sig(&self, ty: u32) -> Option<&FuncSig> {
        self.types.get(ty as usize).and_then(|x| x.as_ref())
    }
    pub fn func_sig(&self, f: u32) -> Option<&FuncSig> {
        self.funcs.get(f as usize).and_then(|f| self.sig(f.ty))
    }
    pub fn num_imported_funcs(&self) -> usize {
        self.funcs.iter().filter(|f| f.import.is_some()).count()
    }
    pub fn local_funcs(&self) -> impl Iterator<Item = (u32, &Func)> {
        self.funcs.iter().enumerate().filter(|(_, f)| f.import.is_none()).map(|(i, f)| (i as u32, f))
    }
    pub fn space_len(&self, s: Space) -> usize {
        match s {
            Space::Func => self.funcs.len(),
            Space::Table => self.tables.len(),
            Space::Mem => self.memories.len(),
            Space::Global => self.globals.len(),
            Space::Elem => self.elems.len(),
            Space::Data => self.datas.len(),
            Space::Tag => self.tags.len(),
        }
    }
    pub fn block_sig(&self, b: &BlockTy) -> Option<FuncSig> {
        match b {
            BlockTy::Empty => Some(FuncSig { params: vec![], results: vec![] }),
            BlockTy::Val(v) => Some(FuncSig { params: vec![], results: vec![v.clone()] }),
            BlockTy::Func(i) => self.sig(*i).cloned(),
        }
    }
    /// custom sections walrus does not interpret (C12's scope)
    pub fn uninterpreted_customs(&self) -> Vec<(String, Vec<u8>)> {
        self.customs
            .iter()
            .filter(|c| c.name != "name" && c.name != "producers" && !c.name.starts_with(".debug"))
            .map(|c| (c.name.clone(), c.data.clone()))
            .collect()
    }
    pub fn total_ops(&self) -> usize {
        self.funcs.iter().filter_map(|f| f.body.as_ref()).map(|b| b.ops.len()).sum()
    }
}

fn const_ops(e: &wp::ConstExpr<'_>) -> Result<Vec<Op>, String> {
    let mut r = e.get_operators_reader();
    let mut v = vec![];
    while !r.eof() {
        let op = r.read().map_err(|e| e.to_string())?;
        v.push(convert(&op));
    }
    Ok(v)
}

fn limits_t(t: &wp::TableType) -> TableTy {
    TableTy {
        elem: rt(t.element_type),
        lim: Limits { min: t.initial, max: t.maximum, is64: t.table64, shared: t.shared },
    }
}
fn limits_m(t: &wp::MemoryType) -> MemTy {
    MemTy {
        lim: Limits { min: t.initial, max: t.maximum, is64: t.memory64, shared: t.shared },
        page_size_log2: t.page_size_log2,
    }
}
fn global_t(t: &wp::GlobalType) -> GlobalTy {
    GlobalTy { ty: vt(t.content_type), mutable: t.mutable, shared: t.shared }
}

fn read_leb_u32(b: &[u8], mut pos: usize) -> (u32, usize) {
    let mut r: u64 = 0;
    let mut s = 0;
    let start = pos;
    while pos < b.len() {
        let x = b[pos];
        pos += 1;
        r |= ((x & 0x7f) as u64) << s;
        s += 7;
        if x & 0x80 == 0 {
            break;
        }
        if s > 35 {
            break;
        }
    }
    (r as u32, pos - start)
}

pub fn decode(bytes: &[u8]) -> Result<WModule, String> {
    let mut m = WModule::default();
    m.len = bytes.len();
    let parser = wp::Parser::new(0);
    let mut noncustom = 0usize;
    let mut last_id = 0u8;
    let mut local_func_tys: Vec<u32> = vec![];
    let mut code_idx = 0usize;
    let mut n_imported_funcs = 0usize;
    for payload in parser.parse_all(bytes) {
        let payload = payload.map_err(|e| format!("decode: {}", e))?;
        if let Some((id, range)) = payload.as_section() {
            let name = match &payload {
                wp::Payload::CustomSection(c) => Some(c.name().to_string()),
                _ => None,
            };
            // as_section gives the range of the section contents; fine for inventory
            m.sections.push(SectionInfo { id, name, range: range.start as u64..range.end as u64 });
            if id != 0 {
                noncustom += 1;
                last_id = id;
            }
        }
        match payload {
            wp::Payload::Version { .. } => {}
            wp::Payload::TypeSection(r) => {
                for rg in r {
                    let rg = rg.map_err(|e| e.to_string())?;
                    for st in rg.into_types() {
                        match &st.composite_type.inner {
                            wp::CompositeInnerType::Func(f) => m.types.push(Some(FuncSig {
                                params: f.params().iter().map(|t| vt(*t)).collect(),
                                results: f.results().iter().map(|t| vt(*t)).collect(),
                            })),
                            _ => m.types.push(None),
                        }
                    }
                }
            }
            wp::Payload::ImportSection(r) => {
                for imps in r {
                    let imps = imps.map_err(|e| e.to_string())?;
                    for imp in imps {
                        let (_, imp) = imp.map_err(|e| e.to_string())?;
                        let at = m.imports.len();
                        let (kind, index) = match imp.ty {
                            wp::TypeRef::Func(t) | wp::TypeRef::FuncExact(t) => {
                                m.funcs.push(Func { ty: t, import: Some(at), body: None });
                                n_imported_funcs += 1;
                                (ImportKind::Func(t), m.funcs.len() - 1)
                            }
                            wp::TypeRef::Table(t) => {
                                m.tables.push(Table { ty: limits_t(&t), import: Some(at), init: None });
                                (ImportKind::Table(limits_t(&t)), m.tables.len() - 1)
                            }
                            wp::TypeRef::Memory(t) => {
                                m.memories.push(Memory { ty: limits_m(&t), import: Some(at) });
                                (ImportKind::Memory(limits_m(&t)), m.memories.len() - 1)
                            }
                            wp::TypeRef::Global(t) => {
                                m.globals.push(Global { ty: global_t(&t), import: Some(at), init: None });
                                (ImportKind::Global(global_t(&t)), m.globals.len() - 1)
                            }
                            wp::TypeRef::Tag(t) => {
                                m.tags.push(t.func_type_idx);
                                (ImportKind::Tag(t.func_type_idx), m.tags.len() - 1)
                            }
                        };
                        m.imports.push(Import {
                            module: imp.module.to_string(),
                            name: imp.name.to_string(),
                            kind,
                            index: index as u32,
                        });
                    }
                }
            }
            wp::Payload::FunctionSection(r) => {
                for t in r {
                    local_func_tys.push(t.map_err(|e| e.to_string())?);
                }
                for t in &local_func_tys {
                    m.funcs.push(Func { ty: *t, import: None, body: None });
                }
            }
            wp::Payload::TableSection(r) => {
                for t in r {
                    let t = t.map_err(|e| e.to_string())?;
                    let init = match &t.init {
                        wp::TableInit::RefNull => None,
                        wp::TableInit::Expr(e) => Some(const_ops(e)?),
                    };
                    m.tables.push(Table { ty: limits_t(&t.ty), import: None, init });
                }
            }
            wp::Payload::MemorySection(r) => {
                for t in r {
                    let t = t.map_err(|e| e.to_string())?;
                    m.memories.push(Memory { ty: limits_m(&t), import: None });
                }
            }
            wp::Payload::TagSection(r) => {
                for t in r {
                    let t = t.map_err(|e| e.to_string())?;
                    m.tags.push(t.func_type_idx);
                }
            }
            wp::Payload::GlobalSection(r) => {
                for g in r {
                    let g = g.map_err(|e| e.to_string())?;
                    m.globals.push(Global {
                        ty: global_t(&g.ty),
                        import: None,
                        init: Some(const_ops(&g.init_expr)?),
                    });
                }
            }
            wp::Payload::ExportSection(r) => {
                for e in r {
                    let e = e.map_err(|e| e.to_string())?;
                    let space = match e.kind {
                        wp::ExternalKind::Func | wp::ExternalKind::FuncExact => Space::Func,
                        wp::ExternalKind::Table => Space::Table,
                        wp::ExternalKind::Memory => Space::Mem,
                        wp::ExternalKind::Global => Space::Global,
                        wp::ExternalKind::Tag => Space::Tag,
                    };
                    m.exports.push(Export { name: e.name.to_string(), space, index: e.index });
                }
            }
            wp::Payload::StartSection { func, .. } => m.start = Some(func),
            wp::Payload::ElementSection(r) => {
                for e in r {
                    let e = e.map_err(|e| e.to_string())?;
                    let (flag, _) = read_leb_u32(bytes, e.range.start as usize);
                    let mode = match &e.kind {
                        wp::ElementKind::Passive => ElemMode::Passive,
                        wp::ElementKind::Declared => ElemMode::Declared,
                        wp::ElementKind::Active { table_index, offset_expr } => ElemMode::Active {
                            table: table_index.unwrap_or(0),
                            offset: const_ops(offset_expr)?,
                        },
                    };
                    let (elem_ty, items) = match &e.items {
                        wp::ElementItems::Functions(fs) => {
                            let mut v = vec![];
                            for f in fs.clone() {
                                v.push(f.map_err(|e| e.to_string())?);
                            }
                            (VT::FuncRef, ElemItems::Funcs(v))
                        }
                        wp::ElementItems::Expressions(t, es) => {
                            let mut v = vec![];
                            for x in es.clone() {
                                v.push(const_ops(&x.map_err(|e| e.to_string())?)?);
                            }
                            (rt(*t), ElemItems::Exprs(v))
                        }
                    };
                    m.elems.push(Elem { mode, elem_ty, items, flag });
                }
            }
            wp::Payload::DataCountSection { count, .. } => m.data_count = Some(count),
            wp::Payload::DataSection(r) => {
                for d in r {
                    let d = d.map_err(|e| e.to_string())?;
                    let (flag, _) = read_leb_u32(bytes, d.range.start as usize);
                    let mode = match &d.kind {
                        wp::DataKind::Passive => DataMode::Passive,
                        wp::DataKind::Active { memory_index, offset_expr } => DataMode::Active {
                            memory: *memory_index,
                            offset: const_ops(offset_expr)?,
                        },
                    };
                    m.datas.push(Data { mode, payload: d.data.to_vec(), flag });
                }
            }
            wp::Payload::CodeSectionStart { range, .. } => {
                m.code_contents_start = Some(range.start as u64);
                let (_, n) = read_leb_u32(bytes, range.start as usize);
                m.code_count_leb_len = n as u64;
            }
            wp::Payload::CodeSectionEntry(body) => {
                let r = body.range();
                let size = (r.end - r.start) as u64;
                // the size LEB directly precedes the body; it may be padded, so scan backwards
                let mut leb = crate::leb_len(size);
                // verify; if padded (non-minimal) find the true start
                loop {
                    let (v, n) = read_leb_u32(bytes, (r.start as u64 - leb) as usize);
                    if v as u64 == size && n as u64 == leb {
                        break;
                    }
                    leb += 1;
                    if leb > 5 {
                        return Err("cannot locate body size LEB".into());
                    }
                }
                let mut locals = vec![];
                let mut runs = vec![];
                let mut lr = body.get_locals_reader().map_err(|e| e.to_string())?;
                for _ in 0..lr.get_count() {
                    let (n, t) = lr.read().map_err(|e| e.to_string())?;
                    runs.push((n, vt(t)));
                    if locals.len() as u64 + n as u64 > 100_000 {
                        return Err("too many locals for the model".into());
                    }
                    for _ in 0..n {
                        locals.push(vt(t));
                    }
                }
                let mut ops = vec![];
                let mut or = body.get_operators_reader().map_err(|e| e.to_string())?;
                while !or.eof() {
                    let (op, off) = or.read_with_offset().map_err(|e| e.to_string())?;
                    ops.push((convert(&op), off as u64));
                }
                let fi = n_imported_funcs + code_idx;
                code_idx += 1;
                if fi >= m.funcs.len() {
                    return Err("code entry without function".into());
                }
                m.funcs[fi].body = Some(Body {
                    locals,
                    local_runs: runs,
                    ops,
                    entry: (r.start as u64 - leb)..(r.end as u64),
                    body: (r.start as u64)..(r.end as u64),
                });
            }
            wp::Payload::CustomSection(c) => {
                let name = c.name().to_string();
                m.customs.push(Custom {
                    name: name.clone(),
                    data: c.data().to_vec(),
                    after_sections: noncustom,
                    after_id: last_id,
                    range: c.range().start as u64..c.range().end as u64,
                    data_range: c.data_range().start as u64..c.data_range().end as u64,
                });
                match c.as_known() {
                    wp::KnownCustom::Name(r) if name == "name" => {
                        m.names.present = true;
                        if let Err(e) = decode_names(r, &mut m.names) {
                            m.names.error = Some(e);
                        }
                    }
                    wp::KnownCustom::Producers(r) if name == "producers" => {
                        let mut fields = vec![];
                        let mut ok = true;
                        for f in r {
                            match f {
                                Ok(f) => {
                                    let mut vals = vec![];
                                    for v in f.values {
                                        match v {
                                            Ok(v) => vals.push((v.name.to_string(), v.version.to_string())),
                                            Err(_) => ok = false,
                                        }
                                    }
                                    fields.push((f.name.to_string(), vals));
                                }
                                Err(_) => ok = false,
                            }
                        }
                        if ok {
                            m.producers = Some(fields);
                        }
                    }
                    _ => {}
                }
            }
            wp::Payload::UnknownSection { id, .. } => return Err(format!("unknown section {}", id)),
            wp::Payload::End(_) => {}
            _ => return Err("unexpected payload (component?)".into()),
        }
    }
    Ok(m)
}

fn decode_names(r: wp::NameSectionReader<'_>, n: &mut Names) -> Result<(), String> {
    fn nm(m: wp::NameMap<'_>, out: &mut BTreeMap<u32, String>, id: u8, dups: &mut Vec<(u8, u32)>) -> Result<(), String> {
        let mut last: Option<u32> = None;
        for x in m {
            let x = x.map_err(|e| e.to_string())?;
            if out.insert(x.index, x.name.to_string()).is_some() || last.map(|l| x.index <= l).unwrap_or(false) {
                dups.push((id, x.index));
            }
            last = Some(x.index);
        }
        Ok(())
    }
    fn inm(m: wp::IndirectNameMap<'_>, out: &mut BTreeMap<(u32, u32), String>) -> Result<(), String> {
        for x in m {
            let x = x.map_err(|e| e.to_string())?;
            for y in x.names {
                let y = y.map_err(|e| e.to_string())?;
                out.insert((x.index, y.index), y.name.to_string());
            }
        }
        Ok(())
    }
    for sub in r {
        let sub = sub.map_err(|e| e.to_string())?;
        match sub {
            wp::Name::Module { name, .. } => {
                n.subsection_order.push(0);
                n.module = Some(name.to_string())
            }
            wp::Name::Function(m) => {
                n.subsection_order.push(1);
                { let mut d = vec![]; let r = nm(m, &mut n.funcs, 1, &mut d); n.duplicates.extend(d); r? }
            }
            wp::Name::Local(m) => {
                n.subsection_order.push(2);
                inm(m, &mut n.locals)?
            }
            wp::Name::Label(m) => {
                n.subsection_order.push(3);
                inm(m, &mut n.labels)?
            }
            wp::Name::Type(m) => {
                n.subsection_order.push(4);
                { let mut d = vec![]; let r = nm(m, &mut n.types, 4, &mut d); n.duplicates.extend(d); r? }
            }
            wp::Name::Table(m) => {
                n.subsection_order.push(5);
                { let mut d = vec![]; let r = nm(m, &mut n.tables, 5, &mut d); n.duplicates.extend(d); r? }
            }
            wp::Name::Memory(m) => {
                n.subsection_order.push(6);
                { let mut d = vec![]; let r = nm(m, &mut n.memories, 6, &mut d); n.duplicates.extend(d); r? }
            }
            wp::Name::Global(m) => {
                n.subsection_order.push(7);
                { let mut d = vec![]; let r = nm(m, &mut n.globals, 7, &mut d); n.duplicates.extend(d); r? }
            }
            wp::Name::Element(m) => {
                n.subsection_order.push(8);
                { let mut d = vec![]; let r = nm(m, &mut n.elems, 8, &mut d); n.duplicates.extend(d); r? }
            }
            wp::Name::Data(m) => {
                n.subsection_order.push(9);
                { let mut d = vec![]; let r = nm(m, &mut n.datas, 9, &mut d); n.duplicates.extend(d); r? }
            }
            wp::Name::Field(m) => {
                n.subsection_order.push(10);
                inm(m, &mut n.fields)?
            }
            wp::Name::Tag(m) => {
                n.subsection_order.push(11);
                { let mut d = vec![]; let r = nm(m, &mut n.tags, 11, &mut d); n.duplicates.extend(d); r? }
            }
            wp::Name::Unknown { ty, .. } => {
                n.subsection_order.push(ty);
                n.unknown_subsections.push(ty)
            }
        }
    }
    Ok(())
}
