//! Stand-alone reference validators.  The feature sets are written down here from walrus's
//! *documentation*, never read from walrus's code.

/// The 12 optional post-MVP proposals walrus documents as supported, in a fixed order.
#[derive(Clone, Copy, Debug, PartialEq, Eq, Hash)]
#[repr(u8)]
pub enum Feat {
    MutableGlobal = 0,
    SatFloatToInt = 1,
    SignExt = 2,
    MultiValue = 3,
    BulkMemory = 4,
    ReferenceTypes = 5,
    Simd = 6,
    RelaxedSimd = 7,
    TailCall = 8,
    Threads = 9,
    MultiMemory = 10,
    Memory64 = 11,
}

pub const ALL_FEATS: [Feat; 12] = [
    Feat::MutableGlobal,
    Feat::SatFloatToInt,
    Feat::SignExt,
    Feat::MultiValue,
    Feat::BulkMemory,
    Feat::ReferenceTypes,
    Feat::Simd,
    Feat::RelaxedSimd,
    Feat::TailCall,
    Feat::Threads,
    Feat::MultiMemory,
    Feat::Memory64,
];

pub fn feat_name(f: Feat) -> &'static str {
    match f {
        Feat::MutableGlobal => "mutable-global",
        Feat::SatFloatToInt => "sat-float-to-int",
        Feat::SignExt => "sign-ext",
        Feat::MultiValue => "multi-value",
        Feat::BulkMemory => "bulk-memory",
        Feat::ReferenceTypes => "reference-types",
        Feat::Simd => "simd",
        Feat::RelaxedSimd => "relaxed-simd",
        Feat::TailCall => "tail-call",
        Feat::Threads => "threads",
        Feat::MultiMemory => "multi-memory",
        Feat::Memory64 => "memory64",
    }
}

/// A subset of the 12 proposals as a bit mask (bit i = ALL_FEATS[i]). Floats are always on.
#[derive(Clone, Copy, Debug, PartialEq, Eq, Hash)]
pub struct FeatureSet(pub u16);

impl FeatureSet {
    pub const MVP: FeatureSet = FeatureSet(0);
    /// walrus default: everything it documents
    pub const DEFAULT: FeatureSet = FeatureSet(0xfff);
    /// `only_stable_features(true)`: default minus threads, multi-memory, memory64
    pub const STABLE: FeatureSet = FeatureSet(0x1ff);
    pub fn has(self, f: Feat) -> bool {
        self.0 & (1 << (f as u8)) != 0
    }
    pub fn names(self) -> Vec<&'static str> {
        ALL_FEATS.iter().filter(|f| self.has(**f)).map(|f| feat_name(*f)).collect()
    }
    fn to214(self) -> wp214::WasmFeatures {
        use wp214::WasmFeatures as W;
        let mut w = W::empty();
        w.insert(W::FLOATS);
        let tbl = [
            (Feat::MutableGlobal, W::MUTABLE_GLOBAL),
            (Feat::SatFloatToInt, W::SATURATING_FLOAT_TO_INT),
            (Feat::SignExt, W::SIGN_EXTENSION),
            (Feat::MultiValue, W::MULTI_VALUE),
            (Feat::BulkMemory, W::BULK_MEMORY),
            (Feat::ReferenceTypes, W::REFERENCE_TYPES),
            (Feat::Simd, W::SIMD),
            (Feat::RelaxedSimd, W::RELAXED_SIMD),
            (Feat::TailCall, W::TAIL_CALL),
            (Feat::Threads, W::THREADS),
            (Feat::MultiMemory, W::MULTI_MEMORY),
            (Feat::Memory64, W::MEMORY64),
        ];
        for (f, b) in tbl {
            if self.has(f) {
                w.insert(b);
            }
        }
        w
    }
    fn to259(self) -> wasmparser::WasmFeatures {
        use wasmparser::WasmFeatures as W;
        let mut w = W::empty();
        w.insert(W::FLOATS);
        // not a proposal: gates externref as a *type*; reference-types still decides
        w.insert(W::GC_TYPES);
        let tbl = [
            (Feat::MutableGlobal, W::MUTABLE_GLOBAL),
            (Feat::SatFloatToInt, W::SATURATING_FLOAT_TO_INT),
            (Feat::SignExt, W::SIGN_EXTENSION),
            (Feat::MultiValue, W::MULTI_VALUE),
            (Feat::BulkMemory, W::BULK_MEMORY),
            (Feat::ReferenceTypes, W::REFERENCE_TYPES),
            (Feat::Simd, W::SIMD),
            (Feat::RelaxedSimd, W::RELAXED_SIMD),
            (Feat::TailCall, W::TAIL_CALL),
            (Feat::Threads, W::THREADS),
            (Feat::MultiMemory, W::MULTI_MEMORY),
            (Feat::Memory64, W::MEMORY64),
        ];
        for (f, b) in tbl {
            if self.has(f) {
                w.insert(b);
            }
        }
        w
    }
}

/// wasmparser 0.214 (the version walrus links), called stand-alone.
pub fn validate214(bytes: &[u8], f: FeatureSet) -> Result<(), String> {
    let mut v = wp214::Validator::new_with_features(f.to214());
    v.validate_all(bytes).map(|_| ()).map_err(|e| e.to_string())
}

/// wasmparser 0.259: second opinion.
pub fn validate259(bytes: &[u8], f: FeatureSet) -> Result<(), String> {
    let mut v = wasmparser::Validator::new_with_features(f.to259());
    v.validate_all(bytes).map(|_| ()).map_err(|e| e.to_string())
}

/// every operator name wasmparser 0.214 knows about
macro_rules! names214 {
    ($( @$proposal:ident $op:ident $({ $($arg:ident: $argty:ty),* })? => $visit:ident)*) => {
        pub const ALL_OP_NAMES_214: &[(&str, &str)] = &[ $( (stringify!($op), stringify!($proposal)) ),* ];
    }
}
wp214::for_each_operator!(names214);
