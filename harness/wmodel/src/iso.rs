//! Isomorphism up to consistent renumbering and the documented elisions (DESIGN §3.1, §3.8).
//!
//! `iso(a, b, mode)`: `a` is the input module, `b` the module walrus emitted.  The entity
//! correspondence is discovered by unification from anchors (imports, exports, start, segment
//! order); bodies are aligned operator by operator, tolerating only removal of `nop`s and of
//! syntactically dead operators and insertion/removal of an empty `else`.

use crate::decode::*;
use std::collections::BTreeMap;

#[derive(Clone, Copy, Debug, PartialEq, Eq)]
pub enum IsoMode {
    /// nothing may be added or dropped: per index space a bijection
    RoundTrip,
    /// input entities may be unmatched (deleted by a pass); nothing may be added
    Gc,
    /// `b` embeds in `a`: every entity, export and the start of `b` has its counterpart in `a`,
    /// `a` may have more of everything (used with a = edited output, b = unedited output:
    /// additions made through the edit API must leave everything else as it was)
    Embed,
    /// `a` embeds in `b`: like RoundTrip for everything `a` has, `b` may hold additional entities,
    /// exports and segments (used with a = the input, b = the output after additions through the
    /// edit API; unlike Embed with swapped roles it keeps the direction of the nop / dead-code tolerance)
    Extended,
}

#[derive(Clone, Debug, PartialEq, Eq)]
pub struct Mismatch {
    /// canonical, input-independent where possible
    pub sig: String,
    pub detail: String,
}

fn mm<T>(sig: impl Into<String>, detail: impl Into<String>) -> Result<T, Mismatch> {
    Err(Mismatch { sig: sig.into(), detail: detail.into() })
}

pub const SPACES: [Space; 6] = [Space::Func, Space::Table, Space::Mem, Space::Global, Space::Elem, Space::Data];

pub fn sidx(s: Space) -> usize {
    match s {
        Space::Func => 0,
        Space::Table => 1,
        Space::Mem => 2,
        Space::Global => 3,
        Space::Elem => 4,
        Space::Data => 5,
        Space::Tag => 6,
    }
}

#[derive(Clone, Debug, Default)]
pub struct FuncCorr {
    pub a: u32,
    pub b: u32,
    /// for each operator of the input body: index of the corresponding output operator
    pub op_map: Vec<Option<usize>>,
    /// output operators that correspond to no input operator (a synthesised `else`)
    pub b_inserted: Vec<usize>,
    /// input local index -> output local index (parameters included)
    pub local_map: BTreeMap<u32, u32>,
}

#[derive(Clone, Debug, Default)]
pub struct Maps {
    pub fwd: [Vec<Option<u32>>; 7],
    pub bwd: [Vec<Option<u32>>; 7],
    pub bodies: BTreeMap<u32, FuncCorr>,
    /// output *declared* element segments without an input counterpart (tolerated under gc: a
    /// pass may have to re-declare `ref.func` targets whose declaring segment it removed)
    pub added_declared_elems: Vec<u32>,
    /// output entities without an input counterpart (mode Extended only)
    pub added: Vec<(Space, u32)>,
    /// number of input operators that were skipped as nop / dead code
    pub elided_ops: usize,
    pub inserted_else: usize,
}

impl Maps {
    pub fn f(&self, s: Space, i: u32) -> Option<u32> {
        self.fwd[sidx(s)].get(i as usize).copied().flatten()
    }
    pub fn r(&self, s: Space, i: u32) -> Option<u32> {
        self.bwd[sidx(s)].get(i as usize).copied().flatten()
    }
    /// true iff some index space was permuted or shrunk
    pub fn renumbered(&self) -> bool {
        self.fwd.iter().any(|v| v.iter().enumerate().any(|(i, x)| *x != Some(i as u32)))
    }
}

#[derive(Clone)]
struct St<'m> {
    a: &'m WModule,
    b: &'m WModule,
    maps: Maps,
    work: Vec<(Space, u32, u32)>,
}

pub fn is_transfer(op: &Op) -> bool {
    matches!(
        op.name,
        "Br" | "BrTable" | "Return" | "Unreachable" | "ReturnCall" | "ReturnCallIndirect" | "ReturnCallRef" | "Throw" | "ThrowRef" | "Rethrow"
    )
}
pub fn opens_frame(op: &Op) -> bool {
    matches!(op.name, "Block" | "Loop" | "If" | "TryTable" | "Try")
}

/// index of the delimiter (`End`, or `Else` at depth 0) that closes the frame that is open at `from`
pub fn frame_close(ops: &[(Op, u64)], from: usize) -> Option<usize> {
    let mut depth = 0usize;
    let mut k = from;
    while k < ops.len() {
        let o = &ops[k].0;
        if opens_frame(o) {
            depth += 1;
        } else if o.name == "End" {
            if depth == 0 {
                return Some(k);
            }
            depth -= 1;
        } else if o.name == "Else" && depth == 0 {
            return Some(k);
        }
        k += 1;
    }
    None
}

struct BodyCtx<'x> {
    a_params: usize,
    a_types: Vec<&'x VT>,
    b_types: Vec<&'x VT>,
    lmap: BTreeMap<u32, u32>,
    lrev: BTreeMap<u32, u32>,
}

impl<'m> St<'m> {
    fn new(a: &'m WModule, b: &'m WModule) -> Self {
        let mut maps = Maps::default();
        for s in SPACES {
            maps.fwd[sidx(s)] = vec![None; a.space_len(s)];
            maps.bwd[sidx(s)] = vec![None; b.space_len(s)];
        }
        St { a, b, maps, work: vec![] }
    }

    /// would `bind` succeed without changing anything?
    fn can_bind(&self, s: Space, ai: u32, bi: u32) -> bool {
        let f = &self.maps.fwd[sidx(s)];
        let r = &self.maps.bwd[sidx(s)];
        if ai as usize >= f.len() || bi as usize >= r.len() {
            return false;
        }
        match (f[ai as usize], r[bi as usize]) {
            (Some(x), _) if x != bi => false,
            (_, Some(y)) if y != ai => false,
            _ => true,
        }
    }

    fn bind(&mut self, s: Space, ai: u32, bi: u32) -> Result<(), Mismatch> {
        let k = sidx(s);
        if ai as usize >= self.maps.fwd[k].len() {
            return mm(format!("index-out-of-range:{:?}", s), format!("input {:?} index {}", s, ai));
        }
        if bi as usize >= self.maps.bwd[k].len() {
            return mm(format!("index-out-of-range:{:?}", s), format!("output {:?} index {}", s, bi));
        }
        match self.maps.fwd[k][ai as usize] {
            Some(x) if x == bi => return Ok(()),
            Some(x) => {
                return mm(
                    format!("retargeted:{:?}", s),
                    format!("input {:?} {} corresponds to output {} elsewhere but to {} here", s, ai, x, bi),
                )
            }
            None => {}
        }
        if let Some(y) = self.maps.bwd[k][bi as usize] {
            return mm(
                format!("merged:{:?}", s),
                format!("output {:?} {} stands for input {} and for input {}", s, bi, y, ai),
            );
        }
        self.maps.fwd[k][ai as usize] = Some(bi);
        self.maps.bwd[k][bi as usize] = Some(ai);
        self.work.push((s, ai, bi));
        Ok(())
    }

    fn propagate(&mut self) -> Result<(), Mismatch> {
        while let Some((s, ai, bi)) = self.work.pop() {
            self.process(s, ai, bi)?;
        }
        Ok(())
    }

    fn cmp_import(&self, what: &str, ia: Option<usize>, ib: Option<usize>) -> Result<(), Mismatch> {
        match (ia, ib) {
            (None, None) => Ok(()),
            (Some(x), Some(y)) => {
                let (x, y) = (&self.a.imports[x], &self.b.imports[y]);
                if x.module != y.module || x.name != y.name {
                    return mm(
                        format!("import-name-changed:{}", what),
                        format!("{}.{} -> {}.{}", x.module, x.name, y.module, y.name),
                    );
                }
                Ok(())
            }
            (Some(_), None) => mm(format!("import-became-local:{}", what), ""),
            (None, Some(_)) => mm(format!("local-became-import:{}", what), ""),
        }
    }

    fn process(&mut self, s: Space, ai: u32, bi: u32) -> Result<(), Mismatch> {
        let (a, b) = (self.a, self.b);
        match s {
            Space::Func => {
                let (fa, fb) = (&a.funcs[ai as usize], &b.funcs[bi as usize]);
                let (sa, sb) = (a.sig(fa.ty), b.sig(fb.ty));
                if sa.is_none() || sa != sb {
                    return mm("func-signature-changed", format!("func {}->{}: {:?} vs {:?}", ai, bi, sa, sb));
                }
                self.cmp_import("func", fa.import, fb.import)?;
                if let (Some(ba), Some(bb)) = (&fa.body, &fb.body) {
                    let corr = self.cmp_body(ai, bi, ba, bb, sa.unwrap())?;
                    self.maps.bodies.insert(ai, corr);
                }
                Ok(())
            }
            Space::Table => {
                let (ta, tb) = (&a.tables[ai as usize], &b.tables[bi as usize]);
                if ta.ty != tb.ty {
                    return mm("table-type-changed", format!("table {}->{}: {:?} vs {:?}", ai, bi, ta.ty, tb.ty));
                }
                self.cmp_import("table", ta.import, tb.import)?;
                match (&ta.init, &tb.init) {
                    (None, None) => Ok(()),
                    (Some(x), Some(y)) => self.cmp_expr(x, y, "table-init"),
                    _ => mm("table-init-changed", format!("table {}->{}", ai, bi)),
                }
            }
            Space::Mem => {
                let (ta, tb) = (&a.memories[ai as usize], &b.memories[bi as usize]);
                if ta.ty != tb.ty {
                    let mut what = vec![];
                    if ta.ty.lim.is64 != tb.ty.lim.is64 {
                        what.push("memory64");
                    }
                    if ta.ty.lim.shared != tb.ty.lim.shared {
                        what.push("shared");
                    }
                    if ta.ty.lim.min != tb.ty.lim.min {
                        what.push("min");
                    }
                    if ta.ty.lim.max != tb.ty.lim.max {
                        what.push("max");
                    }
                    if ta.ty.page_size_log2 != tb.ty.page_size_log2 {
                        what.push("page-size");
                    }
                    let kind = if ta.import.is_some() { "imported" } else { "local" };
                    return mm(
                        format!("memory-type-changed:{}:{}", kind, what.join("+")),
                        format!("memory {}->{}: {:?} vs {:?}", ai, bi, ta.ty, tb.ty),
                    );
                }
                self.cmp_import("memory", ta.import, tb.import)
            }
            Space::Global => {
                let (ga, gb) = (&a.globals[ai as usize], &b.globals[bi as usize]);
                if ga.ty != gb.ty {
                    return mm("global-type-changed", format!("global {}->{}: {:?} vs {:?}", ai, bi, ga.ty, gb.ty));
                }
                self.cmp_import("global", ga.import, gb.import)?;
                match (&ga.init, &gb.init) {
                    (None, None) => Ok(()),
                    (Some(x), Some(y)) => self.cmp_expr(x, y, "global-init"),
                    _ => mm("global-init-changed", format!("global {}->{}", ai, bi)),
                }
            }
            Space::Elem => {
                let (ea, eb) = (&a.elems[ai as usize], &b.elems[bi as usize]);
                if ea.elem_ty != eb.elem_ty {
                    return mm("elem-type-changed", format!("elem {}->{}: {:?} vs {:?}", ai, bi, ea.elem_ty, eb.elem_ty));
                }
                match (&ea.mode, &eb.mode) {
                    (ElemMode::Passive, ElemMode::Passive) | (ElemMode::Declared, ElemMode::Declared) => {}
                    (ElemMode::Active { table: t1, offset: o1 }, ElemMode::Active { table: t2, offset: o2 }) => {
                        self.bind(Space::Table, *t1, *t2)?;
                        self.cmp_expr(o1, o2, "elem-offset")?;
                    }
                    (x, y) => {
                        return mm("elem-mode-changed", format!("elem {}->{}: {:?} vs {:?}", ai, bi, x, y));
                    }
                }
                let ia = norm_items(&ea.items);
                let ib = norm_items(&eb.items);
                if ia.len() != ib.len() {
                    return mm("elem-items-changed", format!("elem {}->{}: {} vs {} items", ai, bi, ia.len(), ib.len()));
                }
                for (x, y) in ia.iter().zip(ib.iter()) {
                    match (x, y) {
                        (Item::Func(f), Item::Func(g)) => self.bind(Space::Func, *f, *g)?,
                        (Item::Expr(p), Item::Expr(q)) => self.cmp_expr(p, q, "elem-item")?,
                        _ => return mm("elem-items-changed", format!("elem {}->{}: {:?} vs {:?}", ai, bi, x, y)),
                    }
                }
                Ok(())
            }
            Space::Data => {
                let (da, db) = (&a.datas[ai as usize], &b.datas[bi as usize]);
                match (&da.mode, &db.mode) {
                    (DataMode::Passive, DataMode::Passive) => {}
                    (DataMode::Active { memory: m1, offset: o1 }, DataMode::Active { memory: m2, offset: o2 }) => {
                        self.bind(Space::Mem, *m1, *m2)?;
                        self.cmp_expr(o1, o2, "data-offset")?;
                    }
                    (x, y) => return mm("data-mode-changed", format!("data {}->{}: {:?} vs {:?}", ai, bi, x, y)),
                }
                if da.payload != db.payload {
                    return mm("data-payload-changed", format!("data {}->{}", ai, bi));
                }
                Ok(())
            }
            Space::Tag => Ok(()),
        }
    }

    fn cmp_expr(&mut self, x: &[Op], y: &[Op], what: &str) -> Result<(), Mismatch> {
        if x.len() != y.len() {
            return mm(format!("{}-changed", what), format!("{:?} vs {:?}", x, y));
        }
        for (p, q) in x.iter().zip(y.iter()) {
            self.cmp_op(p, q, None, true).map_err(|m| Mismatch { sig: format!("{}:{}", what, m.sig), detail: m.detail })?;
        }
        Ok(())
    }

    /// Compare two operators. With `commit == false` nothing is changed and the answer is only
    /// "could these correspond given what is known so far".
    fn cmp_op(&mut self, x: &Op, y: &Op, mut ctx: Option<&mut BodyCtx<'_>>, commit: bool) -> Result<(), Mismatch> {
        if x.name != y.name {
            return mm(format!("op-changed:{}->{}", x.name, y.name), format!("{} vs {}", x.show(), y.show()));
        }
        if x.imms.len() != y.imms.len() {
            return mm(format!("imm-count-changed:{}", x.name), format!("{} vs {}", x.show(), y.show()));
        }
        for (p, q) in x.imms.iter().zip(y.imms.iter()) {
            let ent = |s: Space, i: u32, j: u32, st: &mut Self| -> Result<(), Mismatch> {
                if commit {
                    st.bind(s, i, j).map_err(|m| Mismatch {
                        sig: format!("{}:in-{}", m.sig, x.name),
                        detail: format!("{} (operator {} vs {})", m.detail, x.show(), y.show()),
                    })
                } else if st.can_bind(s, i, j) {
                    Ok(())
                } else {
                    mm("x", "")
                }
            };
            match (p, q) {
                (Imm::Func(i), Imm::Func(j)) => ent(Space::Func, *i, *j, self)?,
                (Imm::Global(i), Imm::Global(j)) => ent(Space::Global, *i, *j, self)?,
                (Imm::Table(i), Imm::Table(j)) => ent(Space::Table, *i, *j, self)?,
                (Imm::Mem(i), Imm::Mem(j)) => ent(Space::Mem, *i, *j, self)?,
                (Imm::Data(i), Imm::Data(j)) => ent(Space::Data, *i, *j, self)?,
                (Imm::Elem(i), Imm::Elem(j)) => ent(Space::Elem, *i, *j, self)?,
                (Imm::Type(i), Imm::Type(j)) => {
                    let (sa, sb) = (self.a.sig(*i), self.b.sig(*j));
                    if sa.is_none() || sa != sb {
                        return mm(
                            format!("type-operand-changed:{}", x.name),
                            format!("{:?} vs {:?}", sa, sb),
                        );
                    }
                }
                (Imm::Block(i), Imm::Block(j)) => {
                    let (sa, sb) = (self.a.block_sig(i), self.b.block_sig(j));
                    if sa.is_none() || sa != sb {
                        return mm(format!("block-type-changed:{}", x.name), format!("{:?} vs {:?}", sa, sb));
                    }
                }
                (Imm::Local(i), Imm::Local(j)) => {
                    let c = match ctx.as_deref_mut() {
                        Some(c) => c,
                        None => return mm("local-in-const-expr", ""),
                    };
                    let (ta, tb) = (c.a_types.get(*i as usize), c.b_types.get(*j as usize));
                    if ta.is_none() || tb.is_none() || ta != tb {
                        return mm(
                            format!("local-type-changed:{}", x.name),
                            format!("local {} {:?} vs local {} {:?}", i, ta, j, tb),
                        );
                    }
                    let is_param_a = (*i as usize) < c.a_params;
                    let is_param_b = (*j as usize) < c.a_params;
                    if (is_param_a || is_param_b) && i != j {
                        return mm(format!("param-moved:{}", x.name), format!("local {} vs {}", i, j));
                    }
                    match (c.lmap.get(i), c.lrev.get(j)) {
                        (Some(v), _) if v != j => {
                            return mm(
                                format!("local-retargeted:{}", x.name),
                                format!("input local {} is output local {} elsewhere but {} here", i, v, j),
                            )
                        }
                        (_, Some(u)) if u != i => {
                            return mm(
                                format!("locals-merged:{}", x.name),
                                format!("output local {} stands for input locals {} and {}", j, u, i),
                            )
                        }
                        _ => {}
                    }
                    if commit {
                        c.lmap.insert(*i, *j);
                        c.lrev.insert(*j, *i);
                    }
                }
                (Imm::MemArg { align: a1, offset: o1, memory: m1 }, Imm::MemArg { align: a2, offset: o2, memory: m2 }) => {
                    if a1 != a2 {
                        return mm(format!("memarg-align-changed:{}", x.name), format!("{} vs {}", a1, a2));
                    }
                    if o1 != o2 {
                        if *o1 > u32::MAX as u64 && *o2 == (*o1 & 0xffff_ffff) {
                            return mm("memarg-offset-truncated-u32", format!("{}: offset {:#x} -> {:#x}", x.name, o1, o2));
                        }
                        return mm(format!("memarg-offset-changed:{}", x.name), format!("{:#x} vs {:#x}", o1, o2));
                    }
                    ent(Space::Mem, *m1, *m2, self)?;
                }
                (p, q) => {
                    if p != q {
                        let kind = match p {
                            Imm::Depth(_) => "depth",
                            Imm::Targets(_) => "br_table-targets",
                            Imm::I32(_) | Imm::I64(_) | Imm::F32(_) | Imm::F64(_) | Imm::V128(_) => "const",
                            Imm::Lane(_) => "lane",
                            Imm::Lanes(_) => "shuffle",
                            Imm::ValTy(_) | Imm::ValTys(_) => "valtype",
                            _ => "other",
                        };
                        return mm(format!("imm-changed:{}:{}", x.name, kind), format!("{:?} vs {:?}", p, q));
                    }
                }
            }
        }
        Ok(())
    }

    fn cmp_body(&mut self, ai: u32, bi: u32, ba: &Body, bb: &Body, sig: &FuncSig) -> Result<FuncCorr, Mismatch> {
        let a_types: Vec<&VT> = sig.params.iter().chain(ba.locals.iter()).collect();
        let b_types: Vec<&VT> = sig.params.iter().chain(bb.locals.iter()).collect();
        let mut ctx = BodyCtx { a_params: sig.params.len(), a_types, b_types, lmap: BTreeMap::new(), lrev: BTreeMap::new() };
        let (ao, bo) = (&ba.ops, &bb.ops);
        let (na, nb) = (ao.len(), bo.len());
        let mut op_map: Vec<Option<usize>> = vec![None; na];
        let mut b_inserted = vec![];
        // frame stack of the input's live part: (is_if, has_else)
        let mut frames: Vec<(bool, bool)> = vec![(false, false)];
        let (mut i, mut j) = (0usize, 0usize);
        let at = |i: usize, j: usize| format!("func {}->{} at input op #{} / output op #{}", ai, bi, i, j);
        let mut elided = 0usize;
        let mut ins_else = 0usize;
        while i < na || j < nb {
            if i < na && j < nb {
                let (x, y) = (&ao[i].0, &bo[j].0);
                if x.name == "Nop" {
                    if y.name == "Nop" {
                        op_map[i] = Some(j);
                        j += 1;
                    } else {
                        elided += 1;
                    }
                    i += 1;
                    continue;
                }
                if self.cmp_op(x, y, Some(&mut ctx), false).is_ok() {
                    self.cmp_op(x, y, Some(&mut ctx), true)
                        .map_err(|m| Mismatch { sig: m.sig, detail: format!("{} ({})", m.detail, at(i, j)) })?;
                    op_map[i] = Some(j);
                    // frame bookkeeping
                    if opens_frame(x) {
                        frames.push((x.name == "If", false));
                    } else if x.name == "Else" {
                        if let Some(f) = frames.last_mut() {
                            f.1 = true;
                        }
                    } else if x.name == "End" {
                        frames.pop();
                    }
                    i += 1;
                    j += 1;
                    if is_transfer(x) {
                        // dead region of the input: up to the delimiter closing the current frame
                        let ka = frame_close(ao, i).ok_or_else(|| Mismatch { sig: "input-malformed".into(), detail: at(i, j) })?;
                        let kb = match frame_close(bo, j) {
                            Some(k) => k,
                            None => return mm("body-structure-changed", format!("output frame not closed ({})", at(i, j))),
                        };
                        // bo[j..kb] must be a subsequence of ao[i..ka]
                        let mut p = i;
                        let mut dead_inserted = 0usize;
                        for q in j..kb {
                            let mut found = false;
                            let mut pp = p;
                            while pp < ka {
                                if self.cmp_op(&ao[pp].0, &bo[q].0, Some(&mut ctx), false).is_ok() {
                                    self.cmp_op(&ao[pp].0, &bo[q].0, Some(&mut ctx), true)
                                        .map_err(|m| Mismatch { sig: m.sig, detail: format!("{} ({})", m.detail, at(pp, q)) })?;
                                    op_map[pp] = Some(q);
                                    p = pp + 1;
                                    found = true;
                                    break;
                                }
                                pp += 1;
                            }
                            if !found && bo[q].0.name == "Else" && q + 1 < nb && bo[q + 1].0.name == "End" {
                                // an empty `else` synthesised inside code the input never reaches
                                b_inserted.push(q);
                                ins_else += 1;
                                dead_inserted += 1;
                                continue;
                            }
                            if !found {
                                return mm(
                                    format!("op-inserted-in-dead-code:{}", bo[q].0.name),
                                    format!("output operator {} has no counterpart ({})", bo[q].0.show(), at(i, q)),
                                );
                            }
                        }
                        elided += (ka - i) + dead_inserted - (kb - j);
                        i = ka;
                        j = kb;
                    }
                    continue;
                }
                // tolerated: an `else` synthesised for an if that had none
                if x.name == "End" && y.name == "Else" && j + 1 < nb && bo[j + 1].0.name == "End" {
                    if let Some((true, false)) = frames.last() {
                        b_inserted.push(j);
                        ins_else += 1;
                        j += 1;
                        continue;
                    }
                }
                // tolerated: an empty `else` dropped
                if x.name == "Else" && i + 1 < na && ao[i + 1].0.name == "End" && y.name == "End" {
                    if let Some((true, false)) = frames.last() {
                        elided += 1;
                        i += 1;
                        continue;
                    }
                }
                // genuine mismatch: produce the precise reason
                let e = self.cmp_op(x, y, Some(&mut ctx), true).unwrap_err();
                return Err(Mismatch { sig: e.sig, detail: format!("{} ({})", e.detail, at(i, j)) });
            } else if i < na {
                let x = &ao[i].0;
                if x.name == "Nop" {
                    elided += 1;
                    i += 1;
                    continue;
                }
                return mm(format!("op-dropped:{}", x.name), format!("input operator {} has no counterpart ({})", x.show(), at(i, j)));
            } else {
                let y = &bo[j].0;
                return mm(format!("op-inserted:{}", y.name), format!("output operator {} has no counterpart ({})", y.show(), at(i, j)));
            }
        }
        self.maps.elided_ops += elided;
        self.maps.inserted_else += ins_else;
        Ok(FuncCorr { a: ai, b: bi, op_map, b_inserted, local_map: ctx.lmap })
    }

    fn unmatched_a(&self, s: Space) -> Vec<u32> {
        self.maps.fwd[sidx(s)].iter().enumerate().filter(|(_, x)| x.is_none()).map(|(i, _)| i as u32).collect()
    }
    fn unmatched_b(&self, s: Space) -> Vec<u32> {
        self.maps.bwd[sidx(s)]
            .iter()
            .enumerate()
            .filter(|(i, x)| x.is_none() && !(s == Space::Elem && self.maps.added_declared_elems.contains(&(*i as u32))) && !self.maps.added.contains(&(s, *i as u32)))
            .map(|(i, _)| i as u32)
            .collect()
    }

    /// Match leftover output entities to leftover input entities by trial unification with
    /// backtracking.  Returns the completed state or the first output entity with no partner.
    fn match_leftovers(self, mode: IsoMode, budget: &mut usize) -> Result<St<'m>, Mismatch> {
        // find the first space with an unmatched output entity
        for s in SPACES {
            let ub = self.unmatched_b(s);
            if let Some(&bj) = ub.first() {
                let ua = self.unmatched_a(s);
                // candidate order: same index first, then ascending
                let mut cands = ua.clone();
                cands.sort_by_key(|x| (*x != bj, *x));
                // segment order must be preserved: only candidates after the last matched predecessor
                for ai in cands {
                    if *budget == 0 {
                        return mm("iso-budget-exhausted", "backtracking budget exhausted (machinery)");
                    }
                    *budget -= 1;
                    let mut t = self.clone();
                    if t.bind(s, ai, bj).is_err() || t.propagate().is_err() {
                        continue;
                    }
                    if let Ok(done) = t.match_leftovers(mode, budget) {
                        return Ok(done);
                    }
                }
                // tolerated under gc: a fresh declared segment that only lists functions
                if mode == IsoMode::Gc && s == Space::Elem {
                    let e = &self.b.elems[bj as usize];
                    if e.mode == ElemMode::Declared && norm_items(&e.items).iter().all(|it| matches!(it, Item::Func(_))) {
                        let mut t = self.clone();
                        t.maps.added_declared_elems.push(bj);
                        if let Ok(done) = t.match_leftovers(mode, budget) {
                            return Ok(done);
                        }
                    }
                }
                if mode == IsoMode::Extended {
                    let mut t = self.clone();
                    t.maps.added.push((s, bj));
                    return t.match_leftovers(mode, budget);
                }
                // diagnosis: if a plausible partner exists (same intrinsic marker, or the only
                // candidate), report why *that* pairing fails instead of a generic message
                let plausible: Option<u32> = if ua.len() == 1 {
                    Some(ua[0])
                } else if s == Space::Func {
                    let mk = func_marker(self.b, bj);
                    if mk.is_some() {
                        let c: Vec<u32> = ua.iter().copied().filter(|ai| func_marker(self.a, *ai) == mk).collect();
                        if c.len() == 1 { Some(c[0]) } else { None }
                    } else {
                        None
                    }
                } else {
                    None
                };
                if let Some(ai) = plausible {
                    let mut t = self.clone();
                    let r = t.bind(s, ai, bj).and_then(|_| t.propagate());
                    if let Err(m) = r {
                        return Err(Mismatch { sig: m.sig, detail: format!("{} [pairing input {:?} {} with output {} by marker/uniqueness]", m.detail, s, ai, bj) });
                    }
                }
                return mm(
                    format!("entity-added:{:?}", s),
                    format!("output {:?} {} corresponds to no input entity", s, bj),
                );
            }
        }
        Ok(self)
    }
}

/// the `i32.const K; drop` prologue generated families put at the start of every function
pub fn func_marker(m: &WModule, f: u32) -> Option<i32> {
    let b = m.funcs.get(f as usize)?.body.as_ref()?;
    if b.ops.len() >= 2 && b.ops[0].0.name == "I32Const" && b.ops[1].0.name == "Drop" {
        if let Imm::I32(k) = b.ops[0].0.imms[0] {
            return Some(k);
        }
    }
    None
}

#[derive(Debug, Clone, PartialEq)]
pub enum Item {
    Func(u32),
    Expr(Vec<Op>),
}

pub fn norm_items(it: &ElemItems) -> Vec<Item> {
    match it {
        ElemItems::Funcs(v) => v.iter().map(|f| Item::Func(*f)).collect(),
        ElemItems::Exprs(v) => v
            .iter()
            .map(|e| {
                if e.len() == 2 && e[0].name == "RefFunc" && e[1].name == "End" {
                    if let Imm::Func(f) = e[0].imms[0] {
                        return Item::Func(f);
                    }
                }
                Item::Expr(e.clone())
            })
            .collect(),
    }
}

fn monotone(v: &[Option<u32>]) -> bool {
    let mut last: Option<u32> = None;
    for x in v.iter().flatten() {
        if let Some(l) = last {
            if *x <= l {
                return false;
            }
        }
        last = Some(*x);
    }
    true
}

pub fn iso(a: &WModule, b: &WModule, mode: IsoMode) -> Result<Maps, Vec<Mismatch>> {
    let mut st = St::new(a, b);
    let mut errs: Vec<Mismatch> = vec![];
    macro_rules! tryp {
        ($e:expr) => {
            if let Err(m) = $e {
                errs.push(m);
            }
        };
    }
    // exports: the same set of (name, kind); export names are unique in a valid module, and the
    // property does not fix their order (it does for imports and segments), so they are matched by name
    if mode == IsoMode::Embed {
        for y in b.exports.iter() {
            match a.exports.iter().find(|x| x.name == y.name) {
                Some(x) if x.space == y.space => {
                    tryp!(st.bind(x.space, x.index, y.index).map_err(|m| Mismatch { sig: format!("export:{}", m.sig), detail: format!("export {:?}: {}", x.name, m.detail) }));
                }
                Some(x) => errs.push(Mismatch { sig: "export-changed".into(), detail: format!("{:?} vs {:?}", x, y) }),
                None => errs.push(Mismatch { sig: "export-dropped".into(), detail: format!("{:?} has no counterpart", y) }),
            }
        }
        if let Some(y) = b.start {
            match a.start {
                Some(x) => tryp!(st.bind(Space::Func, x, y).map_err(|m| Mismatch { sig: format!("start:{}", m.sig), detail: m.detail })),
                None => errs.push(Mismatch { sig: "start-changed".into(), detail: format!("None vs {:?}", y) }),
            }
        }
    } else {
        if a.exports.len() != b.exports.len() && mode != IsoMode::Extended {
            errs.push(Mismatch {
                sig: "export-count-changed".into(),
                detail: format!("{} vs {}", a.exports.len(), b.exports.len()),
            });
        }
        for x in a.exports.iter() {
            let y = match b.exports.iter().find(|y| y.name == x.name) {
                Some(y) => y,
                None => {
                    errs.push(Mismatch { sig: "export-dropped".into(), detail: format!("{:?} has no counterpart", x) });
                    continue;
                }
            };
            if x.space != y.space {
                errs.push(Mismatch {
                    sig: "export-changed".into(),
                    detail: format!("{:?} vs {:?}", x, y),
                });
                continue;
            }
            tryp!(st.bind(x.space, x.index, y.index).map_err(|m| Mismatch { sig: format!("export:{}", m.sig), detail: format!("export {:?}: {}", x.name, m.detail) }));
        }
        match (a.start, b.start) {
            (None, None) => {}
            (Some(x), Some(y)) => tryp!(st.bind(Space::Func, x, y).map_err(|m| Mismatch { sig: format!("start:{}", m.sig), detail: m.detail })),
            (x, y) => errs.push(Mismatch { sig: "start-changed".into(), detail: format!("{:?} vs {:?}", x, y) }),
        }
    }
    if mode == IsoMode::Extended {
        // the input's imports keep their relative order; matched by (module, field, kind), first unused occurrence
        let mut used = vec![false; b.imports.len()];
        for x in a.imports.iter() {
            let sx = kind_space(&x.kind);
            match (0..b.imports.len()).find(|j| !used[*j] && b.imports[*j].module == x.module && b.imports[*j].name == x.name && kind_space(&b.imports[*j].kind) == sx) {
                Some(j) => {
                    used[j] = true;
                    tryp!(st.bind(sx, x.index, b.imports[j].index).map_err(|m| Mismatch { sig: format!("import:{}", m.sig), detail: m.detail }));
                }
                None => errs.push(Mismatch { sig: "import-dropped".into(), detail: format!("{:?} has no counterpart", x) }),
            }
        }
    }
    if mode == IsoMode::RoundTrip {
        if a.imports.len() != b.imports.len() {
            errs.push(Mismatch { sig: "import-count-changed".into(), detail: format!("{} vs {}", a.imports.len(), b.imports.len()) });
        }
        for (x, y) in a.imports.iter().zip(b.imports.iter()) {
            let (sx, sy) = (kind_space(&x.kind), kind_space(&y.kind));
            if x.module != y.module || x.name != y.name || sx != sy {
                errs.push(Mismatch { sig: "import-changed".into(), detail: format!("{:?} vs {:?}", x, y) });
                continue;
            }
            tryp!(st.bind(sx, x.index, y.index).map_err(|m| Mismatch { sig: format!("import:{}", m.sig), detail: m.detail }));
        }
        if a.elems.len() != b.elems.len() {
            errs.push(Mismatch { sig: "elem-count-changed".into(), detail: format!("{} vs {}", a.elems.len(), b.elems.len()) });
        }
        for i in 0..a.elems.len().min(b.elems.len()) {
            tryp!(st.bind(Space::Elem, i as u32, i as u32));
        }
        if a.datas.len() != b.datas.len() {
            errs.push(Mismatch { sig: "data-count-changed".into(), detail: format!("{} vs {}", a.datas.len(), b.datas.len()) });
        }
        for i in 0..a.datas.len().min(b.datas.len()) {
            tryp!(st.bind(Space::Data, i as u32, i as u32));
        }
    }
    // propagate, collecting every forced mismatch
    loop {
        match st.propagate() {
            Ok(()) => break,
            Err(m) => errs.push(m),
        }
    }
    if !errs.is_empty() {
        return Err(errs);
    }
    let mut budget = 200_000usize;
    let st = match st.match_leftovers(mode, &mut budget) {
        Ok(s) => s,
        Err(m) => return Err(vec![m]),
    };
    let mut errs = vec![];
    if mode == IsoMode::RoundTrip || mode == IsoMode::Extended {
        for s in SPACES {
            let ua = st.unmatched_a(s);
            if !ua.is_empty() {
                errs.push(Mismatch {
                    sig: format!("entity-dropped:{:?}", s),
                    detail: format!("input {:?} {:?} correspond to nothing in the output", s, ua),
                });
            }
        }
    }
    // order: segments and imports keep their relative order
    for s in [Space::Elem, Space::Data] {
        if !monotone(&st.maps.fwd[sidx(s)]) {
            errs.push(Mismatch { sig: format!("segment-order-changed:{:?}", s), detail: format!("{:?}", st.maps.fwd[sidx(s)]) });
        }
    }
    {
        // imports: position of each matched import in b must increase with its position in a
        let mut pos: Vec<Option<u32>> = vec![];
        for imp in &a.imports {
            let s = kind_space(&imp.kind);
            let bi = st.maps.f(s, imp.index);
            let bpos = bi.and_then(|bi| b.imports.iter().position(|y| kind_space(&y.kind) == s && y.index == bi)).map(|p| p as u32);
            pos.push(bpos);
        }
        if !monotone(&pos) {
            errs.push(Mismatch { sig: "import-order-changed".into(), detail: format!("{:?}", pos) });
        }
    }
    if !errs.is_empty() {
        return Err(errs);
    }
    Ok(st.maps)
}

pub fn kind_space(k: &ImportKind) -> Space {
    match k {
        ImportKind::Func(_) => Space::Func,
        ImportKind::Table(_) => Space::Table,
        ImportKind::Memory(_) => Space::Mem,
        ImportKind::Global(_) => Space::Global,
        ImportKind::Tag(_) => Space::Tag,
    }
}
