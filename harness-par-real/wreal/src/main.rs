//! C09 supplement (SAMPLING, labelled as such, never the deciding step): the same inputs run on
//! the *real* rayon-core, free-running, for every thread count 1..=16 x R repeats, compared with
//! the serial build's result.  It can only add violations (any difference is a real difference);
//! it exists because interleavings *inside* one rayon task (e.g. rayon's own `par_bridge`) are
//! invisible to the task-granular schedule explorer.
//!
//! usage: wreal <cases.bin> <repeats>      output: one JSON line per case

use serde_json::json;

struct CaseIn {
    wasm: Vec<u8>,
    preserve_ct: bool,
    loc_mod: bool,
    shared_locals: bool,
    gc: bool,
    expected: Result<Vec<u8>, ()>,
}

fn read_cases(p: &str) -> Vec<CaseIn> {
    let b = std::fs::read(p).expect("cases file");
    let mut v = vec![];
    let mut i = 0;
    let rd = |i: &mut usize| -> Vec<u8> {
        let n = u32::from_le_bytes(b[*i..*i + 4].try_into().unwrap()) as usize;
        *i += 4;
        let r = b[*i..*i + n].to_vec();
        *i += n;
        r
    };
    while i < b.len() {
        let wasm = rd(&mut i);
        let flags = b[i];
        let ok = b[i + 1];
        i += 2;
        let exp = rd(&mut i);
        v.push(CaseIn { wasm, preserve_ct: flags & 1 != 0, gc: flags & 2 != 0, loc_mod: flags & 4 != 0, shared_locals: flags & 8 != 0, expected: if ok == 1 { Ok(exp) } else { Err(()) } });
    }
    v
}


/// a consumer of the code transform: its payload is the transform itself (code section start, every
/// function range, every (input location, output offset) pair), so the emitted bytes depend on it
#[derive(Debug, Default)]
pub struct CtDump(pub Vec<u8>);
impl walrus::CustomSection for CtDump {
    fn name(&self) -> &str {
        "ct-dump"
    }
    fn data(&self, _: &walrus::IdsToIndices) -> std::borrow::Cow<'_, [u8]> {
        std::borrow::Cow::Borrowed(&self.0)
    }
    fn apply_code_transform(&mut self, t: &walrus::CodeTransform) {
        let mut v = vec![];
        v.extend_from_slice(&(t.code_section_start as u32).to_le_bytes());
        for (id, r) in &t.function_ranges {
            v.extend_from_slice(&(id.index() as u32).to_le_bytes());
            v.extend_from_slice(&(r.start as u32).to_le_bytes());
            v.extend_from_slice(&(r.end as u32).to_le_bytes());
        }
        for (loc, off) in &t.instruction_map {
            v.extend_from_slice(&loc.data().to_le_bytes());
            v.extend_from_slice(&(*off as u32).to_le_bytes());
        }
        self.0 = v;
    }
}


/// two pairs of builder-made functions that share a `LocalId`: a parameter of the first, a plain
/// local of the second (module-level locals can be used that way); each pair is adjacent in the
/// size order walrus emits functions in, the parameter user first
fn add_functions_sharing_locals(m: &mut walrus::Module) {
    use walrus::{FunctionBuilder, ValType};
    for (k, pairs) in [6i32, 2].iter().enumerate() {
        let l = m.locals.add(ValType::I32);
        let mut b1 = FunctionBuilder::new(&mut m.types, &[ValType::I32], &[ValType::I32]);
        {
            let mut body = b1.func_body();
            for j in 0..*pairs {
                body.i32_const(9000 + j).drop();
            }
            body.local_get(l);
        }
        let f1 = b1.finish(vec![l], &mut m.funcs);
        let mut b2 = FunctionBuilder::new(&mut m.types, &[], &[ValType::I32]);
        {
            let mut body = b2.func_body();
            for j in 0..(*pairs - 2) {
                body.i32_const(9100 + j).drop();
            }
            body.i32_const(5).local_set(l).local_get(l);
        }
        let f2 = b2.finish(vec![], &mut m.funcs);
        m.exports.add(&format!("shared_param_{}", k), f1);
        m.exports.add(&format!("shared_local_{}", k), f2);
    }
}

fn walrus_run(c: &CaseIn) -> Result<Vec<u8>, String> {
    let mut cfg = walrus::ModuleConfig::new();
    cfg.preserve_code_transform(c.preserve_ct);
    if c.shared_locals {
        cfg.generate_name_section(false);
    }
    if c.loc_mod {
        cfg.on_instr_loc(|pos| walrus::InstrLocId::new((*pos % 7) as u32));
    }
    let r = std::panic::catch_unwind(std::panic::AssertUnwindSafe(|| -> Result<Vec<u8>, String> {
        let mut m = cfg.parse(&c.wasm).map_err(|e| format!("{:#}", e))?;
        if c.preserve_ct {
            m.customs.add(CtDump::default());
        }
        if c.shared_locals {
            add_functions_sharing_locals(&mut m);
        }
        if c.gc {
            walrus::passes::gc::run(&mut m);
        }
        Ok(m.emit_wasm())
    }));
    match r {
        Ok(x) => x,
        Err(_) => Err("PANIC".into()),
    }
}

/// C17 on the parallel build: every history of add / delete(any live) on the function collection up
/// to `depth`; in every state the parallel iterators must yield exactly what the sequential ones do
/// (the live items). Prints one JSON line.
fn ids_mode(depth: usize) {
    use rayon::prelude::*;
    #[derive(Clone, Copy, Debug)]
    enum Op {
        Add,
        Del(usize),
    }
    fn build(h: &[Op]) -> (walrus::Module, Vec<Option<walrus::FunctionId>>) {
        let mut m = walrus::Module::default();
        let mut issued: Vec<Option<walrus::FunctionId>> = vec![];
        for (k, op) in h.iter().enumerate() {
            match op {
                Op::Add => {
                    let mut b = walrus::FunctionBuilder::new(&mut m.types, &[], &[]);
                    b.func_body().i32_const(k as i32).drop();
                    issued.push(Some(b.finish(vec![], &mut m.funcs)));
                }
                Op::Del(i) => {
                    if let Some(f) = issued[*i].take() {
                        m.funcs.delete(f);
                    }
                }
            }
        }
        (m, issued)
    }
    let mut states = 0u64;
    let mut frontier: Vec<Vec<Op>> = vec![vec![]];
    let mut bad: Option<String> = None;
    'outer: for _ in 0..=depth {
        let mut next = vec![];
        for h in &frontier {
            states += 1;
            let (mut m, issued) = build(h);
            let mut seq: Vec<usize> = m.funcs.iter().map(|f| f.id().index()).collect();
            seq.sort();
            let mut live: Vec<usize> = issued.iter().flatten().map(|f| f.index()).collect();
            live.sort();
            let mut par: Vec<usize> = m.funcs.par_iter().map(|f| f.id().index()).collect();
            par.sort();
            let mut parl: Vec<usize> = m.funcs.par_iter_local().map(|(id, _)| id.index()).collect();
            parl.sort();
            let mut parm: Vec<usize> = m.funcs.par_iter_mut().map(|f| f.id().index()).collect();
            parm.sort();
            let mut parlm: Vec<usize> = m.funcs.par_iter_local_mut().map(|(id, _)| id.index()).collect();
            parlm.sort();
            for (name, got) in [("iter", &seq), ("par_iter", &par), ("par_iter_local", &parl), ("par_iter_mut", &parm), ("par_iter_local_mut", &parlm)] {
                if *got != live {
                    bad = Some(format!("after {:?}: funcs.{}() yields ids {:?}, the live functions are {:?}", h, name, got, live));
                    break 'outer;
                }
            }
            let nlive: Vec<usize> = issued.iter().enumerate().filter(|(_, x)| x.is_some()).map(|(i, _)| i).collect();
            let mut h2 = h.clone();
            h2.push(Op::Add);
            next.push(h2);
            for i in nlive {
                let mut h2 = h.clone();
                h2.push(Op::Del(i));
                next.push(h2);
            }
        }
        frontier = next;
    }
    println!("{}", json!({"mode": "ids", "depth": depth, "states": states, "verdict": if bad.is_some() { "diff" } else { "ok" }, "detail": bad}));
}

fn main() {
    std::panic::set_hook(Box::new(|_| {}));
    let av: Vec<String> = std::env::args().collect();
    if av.get(1).map(|s| s.as_str()) == Some("ids") {
        ids_mode(av.get(2).and_then(|x| x.parse().ok()).unwrap_or(5));
        return;
    }
    // the process has used rayon before (a long-lived host; an earlier module): one small parallel
    // parse + emit outside of any exploration, so that every item below - and every replay - starts from
    // the same process history
    {
        let tiny: [u8; 30] = [0, 0x61, 0x73, 0x6d, 1, 0, 0, 0, 1, 4, 1, 0x60, 0, 0, 3, 3, 2, 0, 0, 0x0a, 7, 2, 2, 0, 0x0b, 2, 0, 0x0b, 0, 0];
        let _ = std::panic::catch_unwind(|| walrus::Module::from_buffer(&tiny[..28]).map(|mut m| m.emit_wasm()));
    }
    let cases = read_cases(&av[1]);
    let repeats: usize = av[2].parse().unwrap_or(5);
    let pools: Vec<(usize, rayon::ThreadPool)> = (1..=16).map(|t| (t, rayon::ThreadPoolBuilder::new().num_threads(t).build().unwrap())).collect();
    for (k, c) in cases.iter().enumerate() {
        let mut runs = 0u64;
        let mut bad: Option<(usize, String)> = None;
        'outer: for (t, pool) in &pools {
            for _ in 0..repeats {
                let r = pool.install(|| walrus_run(c));
                runs += 1;
                let d = match (&c.expected, &r) {
                    (Ok(e), Ok(g)) if e == g => None,
                    (Ok(e), Ok(g)) => Some(format!("output-differs-from-serial: {} vs {} bytes", g.len(), e.len())),
                    (Err(()), Err(m)) if m != "PANIC" => None,
                    (Err(()), Err(_)) => Some("panic-where-serial-returns-error".to_string()),
                    (Ok(_), Err(m)) => Some(format!("rejected-or-panicked-where-serial-accepts: {}", m)),
                    (Err(()), Ok(_)) => Some("accepted-where-serial-rejects".to_string()),
                };
                if let Some(d) = d {
                    bad = Some((*t, d));
                    break 'outer;
                }
            }
        }
        println!("{}", json!({"case": k, "runs": runs, "verdict": if bad.is_some() { "diff" } else { "ok" }, "threads": bad.as_ref().map(|b| b.0), "detail": bad.map(|b| b.1)}));
    }
}
