#!/usr/bin/env python3
"""usage: tools/install_seed.py <ID> <name> '<needs>' '<caught_by json>' -- copies a verified sub-agent change into /verif/seeded/<name>/"""
import json, os, shutil, sys, subprocess
ID, name, needs, caught = sys.argv[1], sys.argv[2], sys.argv[3], json.loads(sys.argv[4])
src = os.environ.get("SEED_ROOT", "/tmp/wt") + f"/{ID}-out"; dst = f"/verif/seeded/{name}"
os.makedirs(dst, exist_ok=True)
shutil.copy(f"{src}/patch.diff", f"{dst}/patch.diff")
if os.path.isdir(f"{dst}/demo"): shutil.rmtree(f"{dst}/demo")
os.makedirs(f"{dst}/demo")
for f in os.listdir(f"{src}/demo"):
    p = f"{src}/demo/{f}"
    if os.path.isfile(p) and os.path.getsize(p) < 200_000: shutil.copy(p, f"{dst}/demo/{f}")
if os.path.exists(f"{src}/README.md"): shutil.copy(f"{src}/README.md", f"{dst}/README.md")
ver = [l for l in open(os.environ.get("SEED_LOG", "/verif/work/seed_verify.log")) if l.startswith(ID + ":") or l.startswith(ID + "(")]
meta = {
  "property": ID, "origin": "fresh sub-agent given only the property text and a scratch worktree of /repo",
  "needs_to_manifest": needs,
  "independently_confirmed": ver[-1].strip() if ver else "NOT CONFIRMED",
  "confirmation_procedure": "tools/verify_seed.sh: fresh worktree of /repo HEAD; demonstration run without the patch (must pass), patch applied with git apply, repository suite run with nextest (134 pass, the 5 always-failing fuzz-utils tests ignored), demonstration run with the patch (must fail); worktree removed",
  "checks_run": "tools/try_patch.sh <patch> quick <IDs>: git -C /repo apply, ./check <ID> --tier quick, git -C /repo checkout -- .",
  "caught_by": caught,
}
json.dump(meta, open(f"{dst}/meta.json", "w"), indent=1)
print("installed", dst)
