#!/bin/bash
# second-round variant of verify_seed.sh: demos are integration tests either of walrus-tests or of the root package
set -u
ID="$1"; ROOT=${SEED_ROOT:-/tmp/wt2}; OUT=$ROOT/$ID-out; WT=$ROOT/verify-$ID
export CARGO_NET_OFFLINE=true RUST_BACKTRACE=0
rm -rf "$WT"; git -C /repo worktree prune
git -C /repo worktree add -q "$WT" HEAD || exit 2
[ -d $ROOT/$ID/target ] && mv $ROOT/$ID/target "$WT/target"
cd "$WT"
DEMO=$(ls $OUT/demo/*.rs | head -1); NAME=$(basename "$DEMO" .rs)
if grep -q "walrus-tests" $OUT/demo/RUN.md; then PKG=tests; else PKG=root; fi
run_demo() {
  if [ "$PKG" = "tests" ]; then
    cp "$DEMO" crates/tests/tests/
    if [ "$ID" = "C09" ]; then RAYON_NUM_THREADS=4 cargo test -q -p walrus-tests --offline --features parallel --test "$NAME" >/dev/null 2>&1; else cargo test -q -p walrus-tests --offline --test "$NAME" >/dev/null 2>&1; fi
    RC=$?; rm -f crates/tests/tests/$NAME.rs; return $RC
  else
    mkdir -p tests; cp "$DEMO" tests/; cargo test -q --offline --test "$NAME" >/dev/null 2>&1; RC=$?; rm -rf tests; return $RC
  fi
}
run_demo; WITHOUT=$?
git apply "$OUT/patch.diff" || { echo "$ID: PATCH DOES NOT APPLY"; cd /; git -C /repo worktree remove --force "$WT"; exit 1; }
SUITE=$(cargo nextest run --workspace --no-fail-fast --offline --test-threads 8 2>&1 | grep "tests run:" | sed 's/.*tests run: //')
run_demo; WITH=$?
echo "$ID(round2): suite_with_patch=[$SUITE] demo_without_patch_rc=$WITHOUT demo_with_patch_rc=$WITH"
cd /; git -C /repo worktree remove --force "$WT"
