#!/bin/bash
# usage: tools/verify_seed.sh <ID-dir under /tmp/wt> e.g. C07  -- confirms a sub-agent's seeded change independently:
# patch applies to /repo HEAD, the 134 baseline tests pass with it, the demonstration fails with it and passes without it.
set -u
ID="$1"; ROOT=${SEED_ROOT:-/tmp/wt}; OUT=$ROOT/$ID-out; WT=$ROOT/verify-$ID
export CARGO_NET_OFFLINE=true RUST_BACKTRACE=0
rm -rf "$WT"; git -C /repo worktree prune
git -C /repo worktree add -q "$WT" HEAD || exit 2
# reuse the agent's build output to save time
[ -d $ROOT/$ID/target ] && mv $ROOT/$ID/target "$WT/target"
cd "$WT"
DEMO=$(ls $OUT/demo/*.rs 2>/dev/null | head -1); NAME=$(basename "${DEMO:-none}" .rs)
EXTRA=""; [ "$ID" = "C09" ] && EXTRA="--features walrus/parallel"
run_demo() {
  if [ "$ID" = "C09" ]; then
    # the agent's script compares dumps of the serial and the parallel build for several thread counts
    sed "s#/tmp/wt/C09 #$WT #; s#cd /tmp/wt/C09#cd $WT#" $OUT/demo/run_demo.sh > /tmp/wt/run_demo_verify.sh
    sh /tmp/wt/run_demo_verify.sh /tmp/wt/c09dump > /tmp/wt/c09demo.log 2>&1
    rm -f crates/tests/tests/$NAME.rs
    if grep -q "DIFFERENT\|test result: FAILED" /tmp/wt/c09demo.log; then return 1; else return 0; fi
  fi
  if [ "$ID" = "C10" ]; then
    # a small cargo project with a path dependency on the agent's worktree: point it at this worktree
    rm -rf /tmp/wt/c10demo; cp -r $OUT/demo /tmp/wt/c10demo; sed -i "s#/tmp/wt/C10#$WT#g" /tmp/wt/c10demo/Cargo.toml
    ( cd /tmp/wt/c10demo && CARGO_TARGET_DIR=/tmp/wt/c10demo-target cargo test -q --offline >/dev/null 2>&1 ); RC=$?; return $RC
  fi
  if [ "$ID" = "C05" ] || [ "$ID" = "C02" ] || [ "$ID" = "C20" ]; then
    mkdir -p tests; cp "$DEMO" tests/; cargo test -q --offline --test "$NAME" >/dev/null 2>&1; RC=$?; rm -rf tests; return $RC
  fi
  cp "$DEMO" crates/tests/tests/; cargo test -q -p walrus-tests --offline --test "$NAME" >/dev/null 2>&1; RC=$?; rm -f crates/tests/tests/$NAME.rs; return $RC; }
run_demo; WITHOUT=$?
git apply "$OUT/patch.diff" || { echo "$ID: PATCH DOES NOT APPLY"; exit 1; }
SUITE=$(cargo nextest run --workspace --no-fail-fast --offline --test-threads 8 2>&1 | grep "tests run:" | sed 's/.*tests run: //')
run_demo; WITH=$?
echo "$ID: suite_with_patch=[$SUITE] demo_without_patch_rc=$WITHOUT demo_with_patch_rc=$WITH"
cd /; git -C /repo worktree remove --force "$WT"
