NOT_YET = {}
claim("C02", "bounded-exhaustive enumeration of module families x configurations + explicit-state search over API edit histories, on the real code",
      "every member of the generated families (complete inside the stated bounds) and every edit history up to the depth bound is run through the real parse/gc/emit under catch_unwind and the output is judged by a stand-alone validator; a coverage statement, not a sample",
      "trusted: wasmparser 0.214 Validator as the definition of 'valid under walrus's feature set' (0.259 second opinion); bounds: family sizes, edit depth", "5/C02")
claim("C03", "exhaustive operator census (opcode space x immediate instances x operand tuples through the reference validator) + bounded-exhaustive body enumeration, compared by an independent decoder",
      "every operator the reference validator accepts under walrus's feature set (enumerated from the opcode space, cross-checked against wasmparser's own operator list) with boundary immediates, and every valid body over a 40-token alphabet up to length L, is round-tripped by the real walrus and compared operator by operator with a wasmparser-0.259-based model",
      "trusted: wasmparser 0.259 decoder, the iso normaliser; bounds: immediates per class, body length L (4 quick / 5 thorough)", "5/C03")
claim("C04", "bounded-exhaustive enumeration of module-level attribute products, isomorphism-up-to-renumbering oracle",
      "every single dimension (quick) / every pair of dimensions (thorough) of the module-level attribute space inside a context with one of everything, plus all fixtures, round-tripped by the real walrus and compared by unification of index spaces",
      "trusted: wasmparser 0.259 decoder, iso; bound: dimension variants listed in wgen::families", "5/C04")
claim("C08", "explicit-state exploration of {emit, gc, reparse} histories on real Module values (BFS, replay successors, canonical-observation dedup)",
      "all histories up to depth 4 (quick) / 6 (thorough) from every family member; in every state two consecutive emits must agree and emit(parse(emit)) must be a fixpoint; cross-process determinism is sampled by 4-9 processes and labelled as sampling",
      "assumes the canonical observation (bytes of the next emit + live arena counts) determines a state's futures; per-process hash seeds are sampled, not enumerated", "5/C08")
claim("C12", "explicit-state exploration of {emit, gc, reparse} histories over the bounded-exhaustive custom-section family",
      "every placement of <=2 (quick) / <=3 (thorough) custom sections over the 13 inter-section gaps x names x sizes, every history up to the depth bound; after every emit the ordered list of uninterpreted sections must equal the input's",
      "trusted: wasmparser 0.259 custom-section framing; names starting with .debug / name / producers are interpreted by walrus and out of scope", "5/C12")
claim("C20", "bounded-exhaustive enumeration x all explored feature subsets through the reference validator",
      "for every member of fixtures/struct/funcs/locals/opcensus/body and each of 26 (quick) / all 4096 (thorough) subsets of the 12 optional proposals: input valid under F implies output valid under F; plus direct MVP encoding checks",
      "feature need is defined by stand-alone wasmparser 0.214 with exactly that subset enabled", "5/C20")
claim("C13", "bounded-exhaustive enumeration of name-section subsets, names traced back through independently forced entity maps",
      "all 2^9 subsets of the name subsections (x3 module shapes thorough) on modules that walrus's size sort permutes, plus fixtures, x {no pass, gc}; each output name is traced to the input entity through iso maps forced by exports/markers",
      "trusted: wasmparser 0.259 name-section reader, iso maps; tolerated: names of unused locals, label/field/tag subsections, merged types", "5/C13")
claim("C14", "complete enumeration of the 2^6 switch combinations x input variants x round-trip counts; byte-level section inventory",
      "finite space enumerated completely: 64 switch combinations x 20 inputs x 1..3 round trips; each switch flipped alone must change only its own section (raw section comparison); the parse callback is counted on every prefix and 7 substitutions per byte of two seeds",
      "walrus's version string is read from /repo/Cargo.toml; DWARF inputs are synthesized by wdwarf (gimli 0.32)", "5/C14")
claim("C15", "explicit enumeration of builder-API action histories with a lock-step reference tree",
      "every history of <=3 (quick) / <=4 (thorough) builder actions (units appended or inserted at every instruction position, branches to every enclosing sequence, closure-built and dangling-then-attached blocks/loops/ifs) replayed on the real FunctionBuilder; the emitted body is decoded independently and compared with the reference flattening in every state",
      "trusted: the reference tree flattening written from the wasm spec; wasmparser 0.259 decoder", "5/C15")
claim("C16", "explicit enumeration of instruction trees x 4 visitor variants against an independent reference walk; depth family in a child process",
      "every tree of C15's space, every operator of the census, every fixture function and nesting depth up to 10^5: dfs_in_order / dfs_pre_order_mut event logs under default and overridden hooks compared with an independent iterative walk; stack span measured inside callbacks on a 256 KiB thread",
      "entity operands of an instruction are read off its derived Debug rendering; mutable traversal compared as multisets (the property fixes no order)", "5/C16")
claim("C17", "explicit-state exploration of add/delete histories on every public collection against a Vec<Option<payload>> reference",
      "all histories of add(v)/delete(any live id) up to length 6 (quick) / 8 (thorough) on each of 11 collections of a real Module; every id ever issued is resolved in every state; iteration, len, find-by-name and types.add/find de-duplication compared with the reference",
      "absence = panic or None from the public getter; internal entry types created by FunctionBuilder are outside the modelled histories", "5/C17")
claim("C19", "bounded-exhaustive enumeration; parse-time map interrogated inside on_parse, emit-time map through a spy custom section",
      "every member of fixtures/struct/funcs/locals/names x {no pass, gc}: every index of every space (and one past the end) looked up in IndicesToIds and compared with the independent model of the input; IdsToIndices queried for every live id during serialisation and compared with the entity's real position in the output",
      "trusted: wmodel decoder and iso maps (forced by anchors) to identify entities in the output", "5/C19")
claim("C01", "product-state exploration of input vs re-emitted instances in V8 over bounded-exhaustive program families",
      "every valid body over a 40-token alphabet up to length L (batched), funcs/locals/struct/reach families, fixtures and twelve stateful modules: input and walrus output are instantiated against identical deterministic hosts and driven through all exports x all argument vectors (batches) or a breadth-first search over call sequences with re-instantiation and replay (stateful modules); results, trap class, host-call trace and exported/imported state digest must agree after every transition",
      "V8 in node 20 is the execution oracle (no multi-memory, no 64-bit tables: such members are exec_skipped and covered structurally by C03/C04); NaN payloads of results unobservable from JS; non-terminating fixture functions time out as machinery notes", "5/C01")
claim("C06", "bounded-exhaustive reference-graph enumeration (reach family) + isomorphism (mode gc) + V8 product exploration",
      "every subset of <=2 (quick) / <=3 (thorough) of 40 reference edges over a fixed entity population, plus struct/funcs/fixtures/stateful modules, through parse; gc; emit: no panic, valid, same exports, kept part isomorphic, and behaviourally equal to the input in V8 for inputs that instantiate",
      "trusted: wmodel iso, V8; the one tolerated difference of the property is absorbed by comparing only inputs whose instantiation succeeds", "5/C06")
claim("C07", "independent reachability analysis on the emitted binary over the reach family + explicit-state search over {gc, emit, reparse} histories",
      "precision: after gc nothing unreachable from the property's roots may remain in the emitted binary (analysis written from the property text, run on the output bytes); idempotence: in every state of every history up to depth 3/4 whose history contains gc, one more gc must not change the emitted bytes",
      "trusted: wmodel decoder and reach analysis; tolerated residue: one memory when only data segments need it", "5/C07")
claim("C09", "stateless DFS over fork-join schedules of the real parallel build on a controlled rayon-core (all linear extensions of the task DAG)",
      "walrus --features parallel is compiled unchanged against a replacement rayon-core whose join hands every fork to a baton scheduler; every schedule of every fan-out (full product) for inputs with <=3 (quick) / <=4 (thorough) functions x 5 thread counts x migrated flag, deviation-bounded (<=2) plus per-fan-out complete for larger inputs; each must equal the serial build byte for byte and in accept/reject",
      "task granularity (audit of shared mutable state printed in the evidence); rayon internals are not the subject", "5/C09")
claim("C18", "complete enumeration of module variants x targets x replacement bodies; independent expected module; iso + V8 product exploration",
      "16 module variants x every imported/exported function x 5 replacement bodies performed with the real replace_* APIs; the result must validate, be isomorphic to an independently written expected module and behave identically in V8 (BFS over call sequences)",
      "expected modules are WAT text assembled by wat 1.259; for a function exported twice either single retargeted export is accepted", "5/C18")
