NOT_YET = {}
claim("C02", "bounded-exhaustive enumeration of module families x configurations + explicit-state search over API edit histories, on the real code",
      "every member of the generated families (complete inside the stated bounds) and every edit history up to the depth bound is run through the real parse/gc/emit under catch_unwind and the output is judged by a stand-alone validator; a coverage statement, not a sample",
      "trusted: wasmparser 0.214 Validator as the definition of 'valid under walrus's feature set' (0.259 second opinion); bounds: family sizes, edit depth", "5/C02")
claim("C03", "exhaustive operator census (opcode space x immediate instances x operand tuples through the reference validator) + bounded-exhaustive body enumeration, compared by an independent decoder",
      "every operator the reference validator accepts under walrus's feature set (enumerated from the opcode space, cross-checked against wasmparser's own operator list) with boundary immediates, and every valid body over a 40-token alphabet up to length L, is round-tripped by the real walrus and compared operator by operator with a wasmparser-0.259-based model",
      "trusted: wasmparser 0.259 decoder, the iso normaliser; bounds: immediates per class, body length L (4 quick / 5 thorough)", "5/C03")
claim("C04", "bounded-exhaustive enumeration of module-level attribute products, isomorphism-up-to-renumbering oracle",
      "every single dimension (quick) / every pair of dimensions (thorough) of the module-level attribute space inside a context with one of everything, plus all fixtures, round-tripped by the real walrus and compared by unification of index spaces",
      "trusted: wasmparser 0.259 decoder, iso; bound: dimension variants listed in wgen::families", "5/C04")
claim("C08", "explicit-state exploration of {emit, gc, reparse} histories on real Module values (BFS, replay successors, canonical-observation dedup)",
      "all histories up to depth 4 (quick) / 6 (thorough) from every family member; in every state two consecutive emits must agree and emit(parse(emit)) must be a fixpoint; cross-process determinism is sampled by 4-9 processes and labelled as sampling",
      "assumes the canonical observation (bytes of the next emit + live arena counts) determines a state's futures; per-process hash seeds are sampled, not enumerated", "5/C08")
claim("C12", "explicit-state exploration of {emit, gc, reparse} histories over the bounded-exhaustive custom-section family",
      "every placement of <=2 (quick) / <=3 (thorough) custom sections over the 13 inter-section gaps x names x sizes, every history up to the depth bound; after every emit the ordered list of uninterpreted sections must equal the input's",
      "trusted: wasmparser 0.259 custom-section framing; names starting with .debug / name / producers are interpreted by walrus and out of scope", "5/C12")
claim("C20", "bounded-exhaustive enumeration x all explored feature subsets through the reference validator",
      "for every member of fixtures/struct/funcs/locals/opcensus/body and each of 26 (quick) / all 4096 (thorough) subsets of the 12 optional proposals: input valid under F implies output valid under F; plus direct MVP encoding checks",
      "feature need is defined by stand-alone wasmparser 0.214 with exactly that subset enabled", "5/C20")
