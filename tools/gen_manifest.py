#!/usr/bin/env python3
"""Regenerates MANIFEST.json from the table below (the single source of truth for what is claimed)."""
import json, sys
ids = [json.loads(l)["id"] for l in open("/verif/properties.jsonl")]
# id -> (technique, level text, level note, design ref)
CLAIMS = {}
def claim(i, technique, text, note, ref):
    CLAIMS[i] = dict(technique=technique, text=text, note=note, ref=ref)

exec(open("/verif/tools/claims.py").read())

checks = []
for i in ids:
    if i not in CLAIMS:
        continue
    c = CLAIMS[i]
    checks.append({
        "property_id": i,
        "quick_cmd": f"./check {i} --tier quick",
        "thorough_cmd": f"./check {i} --tier thorough",
        "evidence_file": f"/verif/evidence/{i}.json",
        "replay_cmd_template": f"./check {i} --replay {{path}}",
        "engine": "wcheck",
        "level_claimed": {"category": "model_checking", "text": c["text"], "design_ref": c["ref"]},
        "level_note": c["note"],
        "technique": c["technique"],
    })
na = [{"property_id": i, "reason": NOT_YET.get(i, "check not yet built (work in progress; DESIGN.md section 7 implementation order)")} for i in ids if i not in CLAIMS]
m = {
    "version": 1,
    "setup_cmd": "./check --setup",
    "hooks": {
        "guard": "rustwasm_walrus_verif",
        "enable": "no hooks: every observation goes through walrus's public API; the harness links /repo's working tree as a cargo path dependency and rebuilds it on every check",
        "baseline_off_cmd": "cd /repo && cargo test --workspace --no-fail-fast --offline",
        "source_commits": [],
        "add_only": True,
    },
    "engines": [
        {"name": "wcheck", "path": "/verif/harness/wcheck", "serves_properties": sorted(CLAIMS.keys()),
         "kind_free_text": "bounded-exhaustive enumeration of module families / operator census / byte deviations and explicit-state exploration of API histories over the real walrus, judged by walrus-independent oracles (wmodel: wasmparser 0.259 decoder + isomorphism checker + reachability; stand-alone wasmparser 0.214 validator; node/V8 product exploration; gimli 0.32)"},
    ],
    "checks": checks,
    "not_applicable": na,
    "notes": "see DESIGN.md; known findings in known_findings.json",
}
json.dump(m, open("/verif/MANIFEST.json", "w"), indent=1)
print("claimed:", sorted(CLAIMS.keys()))
