#!/bin/bash
# usage: tools/try_patch.sh <patch.diff> <tier> <ID> [<ID> ...]
# applies the patch to /repo, runs the listed checks, prints one line per check, reverts /repo.
set -u
P="$(realpath "$1")"; TIER="$2"; shift 2
cd /verif
if ! git -C /repo diff --quiet; then echo "REFUSING: /repo has uncommitted changes"; exit 2; fi
git -C /repo apply "$P" || { echo "patch does not apply"; exit 2; }
# evidence/ and replays/ describe the unchanged tree: keep them out of reach of the mutated runs
rm -rf work/evidence.keep work/replays.keep; cp -a evidence work/evidence.keep 2>/dev/null; cp -a replays work/replays.keep 2>/dev/null
trap 'git -C /repo checkout -- . ; git -C /repo clean -fdq src crates 2>/dev/null; rm -rf evidence replays; mv work/evidence.keep evidence 2>/dev/null; mv work/replays.keep replays 2>/dev/null' EXIT
for ID in "$@"; do
  OUT=$(./check "$ID" --tier "$TIER" 2>&1); RC=$?
  NV=$(echo "$OUT" | grep -c '^VIOLATION')
  SIGS=$(echo "$OUT" | grep 'signature:' | sed 's/.*signature: //' | sort -u | head -4 | tr '\n' '|')
  echo "$ID rc=$RC violations=$NV sigs=[$SIGS] $(echo "$OUT" | grep " $TIER:" | sed 's/.*wall=/wall=/')"
done
