#!/bin/bash
# Regression over the seeded changes: for every seeded/<name>/ apply patch.diff to /repo, run the
# property's own quick check (and the others named in meta.json), expect a VIOLATION, revert.
# usage: tools/run_seeded.sh [name-prefix]
cd /verif
PASS=0; FAIL=0
for d in seeded/${1:-}*/; do
  n=$(basename $d); id=${n:0:3}
  extra=$(python3 -c "
import json,re;m=json.load(open('$d/meta.json'));print(' '.join(sorted(set(re.findall(r'C\d\d', m['caught_by'].get('after',''))) - {'$id'})))")
  # C09's deciding check for this seed is the free-running supplement; it needs the full run
  out=$(tools/try_patch.sh $d/patch.diff quick $id $extra 2>&1 | grep "^C[0-9]")
  if echo "$out" | grep -q "^$id rc=1"; then PASS=$((PASS+1)); st=CAUGHT; else FAIL=$((FAIL+1)); st=MISSED; fi
  echo "$st $n"; echo "$out" | sed 's/^/    /' | cut -c1-200
done
echo "seeded changes caught by their own property's check: $PASS, missed: $FAIL"
