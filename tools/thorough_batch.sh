#!/bin/bash
# runs the listed thorough checks one after another, one summary line each
./check --setup >/dev/null 2>&1
for id in "$@"; do
  s=$(date +%s)
  out=$(./check $id --tier thorough 2>&1); rc=$?
  e=$(( $(date +%s) - s ))
  echo "$id ${e}s rc=$rc $(echo "$out" | grep ' thorough:' | cut -c1-220)"
  echo "$out" | grep "signature:\|VIOLATION\|MACHINERY" | sort -u | head -8
done
