#!/bin/bash
# No-false-alarm regression: every benign/<name>.diff changes walrus in a way that keeps all 20
# properties (another function / type / export / local order, another placement of the sections
# walrus generates itself). Each is applied to /repo, every quick check must still exit 0, and
# /repo is reverted.  usage: tools/run_benign.sh [name-prefix] [IDs...]
cd /verif
PFX=${1:-}; shift
IDS=${@:-C01 C02 C03 C04 C05 C06 C07 C08 C09 C10 C11 C12 C13 C14 C15 C16 C17 C18 C19 C20}
BAD=0
for p in benign/${PFX}*.diff; do
  out=$(tools/try_patch.sh $p quick $IDS 2>&1 | grep "^C[0-9]")
  n=$(echo "$out" | grep -vc "rc=0")
  if [ "$n" = "0" ]; then echo "QUIET $(basename $p .diff)"; else BAD=$((BAD+1)); echo "ALARM $(basename $p .diff)"; echo "$out" | grep -v "rc=0" | sed 's/^/    /' | cut -c1-260; fi
done
echo "benign changes that raised an alarm: $BAD"
