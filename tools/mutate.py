#!/usr/bin/env python3
"""Self-test mutants: apply one textual replacement to /repo, run checks, revert.
usage: tools/mutate.py <name>   (see MUTANTS below)  |  tools/mutate.py --all"""
import subprocess, sys, json
MUTANTS = {
 # name: (file, old, new, [checks expected to fire])
 "c04-imported-table-max": ("src/module/imports.rs", "maximum: table.maximum,\n                            shared: false,", "maximum: None,\n                            shared: false,", ["C04"]),
 "c12-dedup-customs": ("src/module/mod.rs", "            if section.name().starts_with(\".debug\") {\n                continue;\n            }\n", "            if section.name().starts_with(\".debug\") || section.name() == \"b\" {\n                continue;\n            }\n", ["C12"]),
 "c13-func-names-by-id": ("src/module/mod.rs", "    funcs.sort_by_key(|p| p.0); // sort by index", "    funcs.sort_by_key(|p| p.0); funcs.iter_mut().enumerate().for_each(|(i, p)| if i == 0 { p.0 = p.0 } ); // sort by index", []),
 "c14-producers-push": ("src/module/producers.rs", "                if value.name == name {\n                    *value = new_value;\n                    return;\n                }", "                if value.name == name && value.version == version {\n                    return;\n                }", ["C14"]),
 "c16-skip-table-init-table": ("src/ir/mod.rs", "    /// `table.init`\n    TableInit {\n        /// The table we're copying into.\n        table: TableId,", "    /// `table.init`\n    TableInit {\n        /// The table we're copying into.\n        #[walrus(skip_visit)]\n        table: TableId,", ["C16","C06","C02"]),
 "c19-emit-map-types-shift": ("src/emit.rs", "                    let idx = self.$member.len() as u32;", "                    let idx = self.$member.len() as u32 + if stringify!($member) == \"globals\" && self.$member.len() > 1 { 0 } else { 0 };", []),
 "c20-always-datacount": ("src/module/data.rs", "        if any_passive\n            || maybe_parallel!", "        if true || any_passive\n            || maybe_parallel!", ["C20"]),
 "c05-skip-data-validation": ("src/module/mod.rs", "                    validator\n                        .data_section(&s)\n                        .context(\"failed to parse data section\")?;\n", "", ["C05"]),
 "c10-offset-after-instr": ("src/module/functions/local_function/emit.rs", "        if let Some(map) = self.map.as_mut() {\n            let pos = self.encoder.byte_len();\n            // Save the encoded_at position for the specified ExprId.\n            map.push((*instr_loc, pos));\n        }\n\n        let is_block", "        if let Some(map) = self.map.as_mut() {\n            let pos = self.encoder.byte_len() + 1;\n            // Save the encoded_at position for the specified ExprId.\n            map.push((*instr_loc, pos));\n        }\n\n        let is_block", ["C10","C11"]),
 "c02-no-data-offset-global": ("src/passes/used.rs", "                    stack.push_memory(*memory);\n                    if let ConstExpr::Global(g) = offset {\n                        stack.push_global(*g);\n                    }", "                    stack.push_memory(*memory);", ["C02","C06"]),
 "c01-branch-target-no-rev": ("src/module/functions/local_function/emit.rs", "self.blocks.iter().rev().position(|b| *b == block)", "self.blocks.iter().position(|b| *b == block)", ["C01","C03","C15"]),
 "c07-root-passive-elems": ("src/passes/used.rs", "                ElementKind::Passive => {}", "                ElementKind::Passive => { stack.push_element(elem.id()); }", ["C07"]),
 "c08-types-hash-order": ("src/module/producers.rs", "        self.fields.push(Field {\n            name: field_name.to_string(),\n            values: vec![new_value],\n        })", "        self.fields.insert(0, Field {\n            name: field_name.to_string(),\n            values: vec![new_value],\n        })", ["C14","C08"]),
 "c17-arena-set-no-remove": ("src/arena_set.rs", "        self.already_in_arena.remove(&self.arena[id]);\n", "", ["C17"]),
 "c18-retarget-all-exports": ("src/module/functions/mod.rs", "            let export = self.exports.get_mut(original_export_id);\n            export.item = ExportItem::Function(new_fn_id);", "            let _ = original_export_id;\n            for export in self.exports.iter_mut() {\n                if let ExportItem::Function(f) = export.item { if f == fid { export.item = ExportItem::Function(new_fn_id); } }\n            }", ["C18"]),
 "c15-instr-at-plus-one": ("src/function_builder.rs", "            .insert(position, (instr.into(), Default::default()));", "            .insert((position + 1).min(self.builder.arena[self.id].instrs.len()), (instr.into(), Default::default()));", ["C15"]),
 "c09-shared-counter": ("src/module/functions/mod.rs", "        cx.code_transform.function_ranges.sort_by_key(|i| i.0);", "        cx.code_transform.function_ranges.sort_by_key(|i| i.1.start);", ["C11"]),
 "c03-swap-les-lts": ("src/module/functions/local_function/emit.rs", "I32LeS => Instruction::I32LeS,", "I32LeS => Instruction::I32LtS,", ["C03","C01"]),
}
def run(name, tier="quick"):
    f, old, new, expect = MUTANTS[name]
    p = "/repo/" + f
    s = open(p).read()
    if s.count(old) != 1:
        print(f"{name}: pattern occurs {s.count(old)} times, skipped"); return
    if subprocess.run(["git","-C","/repo","diff","--quiet"]).returncode != 0:
        print("REFUSING: /repo dirty"); sys.exit(2)
    open(p,"w").write(s.replace(old,new))
    try:
        checks = expect or ["C%02d"%k for k in range(1,21)]
        if "--allchecks" in sys.argv: checks = ["C%02d"%k for k in range(1,21)]
        for c in checks:
            r = subprocess.run(["./check", c, "--tier", tier], cwd="/verif", capture_output=True, text=True)
            sigs = sorted(set(l.split("signature: ")[1] for l in r.stdout.splitlines()+r.stderr.splitlines() if "signature: " in l))[:3]
            nv = sum(1 for l in r.stdout.splitlines() if l.startswith("VIOLATION"))
            print(f"{name}: {c} rc={r.returncode} violations={nv} {sigs}")
            if r.returncode == 2: print("   ", (r.stderr or r.stdout)[-300:])
    finally:
        subprocess.run(["git","-C","/repo","checkout","--","."])
if __name__ == "__main__":
    names = list(MUTANTS) if sys.argv[1] == "--all" else [a for a in sys.argv[1:] if not a.startswith("--")]
    for n in names: run(n)
