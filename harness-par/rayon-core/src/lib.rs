//! Scheduler-controlled stand-in for rayon-core (spike).
use std::marker::PhantomData;
use std::sync::{Condvar, Mutex};

#[derive(Clone, Copy, PartialEq, Debug)]
enum St { Runnable, Running, Blocked(usize), Done }

pub struct Sched {
    prefix: Vec<usize>,
    /// (choice taken, number of alternatives, index of the top-level fan-out it belongs to)
    pub trace: Vec<(usize, usize, usize)>,
    pub fanout: usize,
    pub divergence: bool,
    tasks: Vec<(St, Option<usize>)>, // state, parent
    current: usize,
    pub threads: usize,
    pub migrated: bool,
    pub order: Vec<usize>, // task start order (observation)
}
static SCHED: Mutex<Option<Sched>> = Mutex::new(None);
static CV: Condvar = Condvar::new();

fn pick_next(s: &mut Sched) {
    let runnable: Vec<usize> = s.tasks.iter().enumerate().filter(|(_, t)| t.0 == St::Runnable).map(|(i, _)| i).collect();
    if runnable.is_empty() { return; }
    let idx = if runnable.len() == 1 { 0 } else {
        let pos = s.trace.len();
        let c = if pos < s.prefix.len() { s.prefix[pos] } else { 0 };
        // a prefix choice that is out of range means the replay diverged: hard machinery error
        let c = if c < runnable.len() { c } else { s.divergence = true; 0 };
        s.trace.push((c, runnable.len(), s.fanout));
        c
    };
    s.current = runnable[idx];
}
fn wait_turn(id: usize) {
    let mut g = SCHED.lock().unwrap();
    loop {
        let s = g.as_mut().unwrap();
        if s.current == id && s.tasks[id].0 == St::Runnable { s.tasks[id].0 = St::Running; s.order.push(id); return; }
        g = CV.wait(g).unwrap();
    }
}
fn finish(id: usize) {
    let mut g = SCHED.lock().unwrap();
    let s = g.as_mut().unwrap();
    s.tasks[id].0 = St::Done;
    if let Some(p) = s.tasks[id].1 {
        if let St::Blocked(n) = s.tasks[p].0 { s.tasks[p].0 = if n == 1 { St::Runnable } else { St::Blocked(n - 1) }; }
    }
    pick_next(s);
    CV.notify_all();
}

/// Run `f` under the scheduler with the given choice prefix; returns (result, trace, order).
pub struct Run<R> {
    pub result: R,
    pub trace: Vec<(usize, usize, usize)>,
    pub order: Vec<usize>,
    pub tasks: usize,
    pub fanouts: usize,
    pub divergence: bool,
}
pub fn run_controlled<R>(prefix: Vec<usize>, threads: usize, migrated: bool, f: impl FnOnce() -> R) -> Run<R> {
    *SCHED.lock().unwrap() = Some(Sched { prefix, trace: vec![], fanout: 0, divergence: false, tasks: vec![(St::Running, None)], current: 0, threads, migrated, order: vec![] });
    let r = f();
    let s = SCHED.lock().unwrap().take().unwrap();
    Run { result: r, trace: s.trace, order: s.order, tasks: s.tasks.len(), fanouts: s.fanout, divergence: s.divergence }
}

pub struct FnContext { migrated: bool, _p: PhantomData<*mut ()> }
impl FnContext { pub fn migrated(&self) -> bool { self.migrated } }

pub fn join<A, B, RA, RB>(a: A, b: B) -> (RA, RB)
where A: FnOnce() -> RA + Send, B: FnOnce() -> RB + Send, RA: Send, RB: Send {
    join_context(|_| a(), |_| b())
}

pub fn join_context<A, B, RA, RB>(a: A, b: B) -> (RA, RB)
where A: FnOnce(FnContext) -> RA + Send, B: FnOnce(FnContext) -> RB + Send, RA: Send, RB: Send {
    touch_global();
    let ids = {
        let mut g = SCHED.lock().unwrap();
        match g.as_mut() {
            None => None,
            Some(s) => {
                let p = s.current;
                if p == 0 { s.fanout += 1; }
                let ia = s.tasks.len(); s.tasks.push((St::Runnable, Some(p)));
                let ib = s.tasks.len(); s.tasks.push((St::Runnable, Some(p)));
                s.tasks[p].0 = St::Blocked(2);
                let mig = s.migrated;
                pick_next(s);
                CV.notify_all();
                Some((p, ia, ib, mig))
            }
        }
    };
    match ids {
        None => { let ra = a(FnContext { migrated: false, _p: PhantomData }); let rb = b(FnContext { migrated: false, _p: PhantomData }); (ra, rb) }
        Some((p, ia, ib, mig)) => {
            // a task that panics must still give its turn back (the real rayon-core runs both
            // closures to completion and re-raises the panic in the caller of join)
            let (ra, rb) = std::thread::scope(|sc| {
                let hb = sc.spawn(move || {
                    wait_turn(ib);
                    let r = std::panic::catch_unwind(std::panic::AssertUnwindSafe(|| b(FnContext { migrated: mig, _p: PhantomData })));
                    finish(ib);
                    r
                });
                wait_turn(ia);
                let ra = std::panic::catch_unwind(std::panic::AssertUnwindSafe(|| a(FnContext { migrated: false, _p: PhantomData })));
                finish(ia);
                // parent continuation must wait for its turn
                wait_turn(p);
                (ra, hb.join().unwrap())
            });
            let (ra, rb) = match (ra, rb) {
                (Ok(x), Ok(y)) => (x, y),
                (Err(e), _) | (_, Err(e)) => std::panic::resume_unwind(e),
            };
            (ra, rb)
        }
    }
}

pub fn current_num_threads() -> usize { touch_global(); SCHED.lock().unwrap().as_ref().map(|s| s.threads).unwrap_or(1) }
pub fn current_thread_index() -> Option<usize> { Some(0) }
pub fn max_num_threads() -> usize { 1 << 16 }
pub fn current_thread_has_pending_tasks() -> Option<bool> { Some(false) }

pub struct Scope<'scope> { _p: PhantomData<&'scope mut &'scope ()> }
impl<'scope> Scope<'scope> {
    pub fn spawn<BODY>(&self, body: BODY) where BODY: FnOnce(&Scope<'scope>) + Send + 'scope { body(self) }
    pub fn spawn_broadcast<BODY>(&self, body: BODY) where BODY: Fn(&Scope<'scope>, BroadcastContext<'_>) + Send + Sync + 'scope { body(self, BroadcastContext { _p: PhantomData }) }
}
pub fn scope<'scope, OP, R>(op: OP) -> R where OP: FnOnce(&Scope<'scope>) -> R + Send, R: Send { op(&Scope { _p: PhantomData }) }
pub fn in_place_scope<'scope, OP, R>(op: OP) -> R where OP: FnOnce(&Scope<'scope>) -> R { op(&Scope { _p: PhantomData }) }
pub struct ScopeFifo<'scope> { _p: PhantomData<&'scope mut &'scope ()> }
impl<'scope> ScopeFifo<'scope> {
    pub fn spawn_fifo<BODY>(&self, body: BODY) where BODY: FnOnce(&ScopeFifo<'scope>) + Send + 'scope { body(self) }
    pub fn spawn_broadcast<BODY>(&self, body: BODY) where BODY: Fn(&ScopeFifo<'scope>, BroadcastContext<'_>) + Send + Sync + 'scope { body(self, BroadcastContext { _p: PhantomData }) }
}
pub fn scope_fifo<'scope, OP, R>(op: OP) -> R where OP: FnOnce(&ScopeFifo<'scope>) -> R + Send, R: Send { op(&ScopeFifo { _p: PhantomData }) }
pub fn in_place_scope_fifo<'scope, OP, R>(op: OP) -> R where OP: FnOnce(&ScopeFifo<'scope>) -> R { op(&ScopeFifo { _p: PhantomData }) }
pub fn spawn<F>(f: F) where F: FnOnce() + Send + 'static { f() }
pub fn spawn_fifo<F>(f: F) where F: FnOnce() + Send + 'static { f() }
pub struct BroadcastContext<'a> { _p: PhantomData<&'a ()> }
impl<'a> BroadcastContext<'a> { pub fn index(&self) -> usize { 0 } pub fn num_threads(&self) -> usize { 1 } }
pub fn broadcast<OP, R>(op: OP) -> Vec<R> where OP: Fn(BroadcastContext<'_>) -> R + Sync, R: Send { vec![op(BroadcastContext { _p: PhantomData })] }
pub fn spawn_broadcast<OP>(op: OP) where OP: Fn(BroadcastContext<'_>) + Send + Sync + 'static { op(BroadcastContext { _p: PhantomData }) }
#[derive(Debug, Clone, Copy, PartialEq, Eq)]
pub enum Yield { Executed, Idle }
pub fn yield_now() -> Option<Yield> { Some(Yield::Idle) }
pub fn yield_local() -> Option<Yield> { Some(Yield::Idle) }
/// rayon-core's global registry is created by the first operation that needs it (a `join` outside of
/// a pool, `current_num_threads`, ...) or by `build_global`, whichever comes first; `build_global`
/// afterwards fails. The shim keeps that bit of process history.
static GLOBAL_INIT: std::sync::atomic::AtomicBool = std::sync::atomic::AtomicBool::new(false);
fn touch_global() { GLOBAL_INIT.store(true, std::sync::atomic::Ordering::SeqCst); }
#[derive(Debug)] pub struct ThreadPoolBuildError;
impl std::fmt::Display for ThreadPoolBuildError { fn fmt(&self, f: &mut std::fmt::Formatter<'_>) -> std::fmt::Result { write!(f, "The global thread pool has already been initialized.") } }
impl std::error::Error for ThreadPoolBuildError {}
#[derive(Debug)] pub struct ThreadPool;
impl ThreadPool { pub fn install<OP, R>(&self, op: OP) -> R where OP: FnOnce() -> R + Send, R: Send { op() } pub fn current_num_threads(&self) -> usize { current_num_threads() } }
#[derive(Debug, Default)] pub struct ThreadPoolBuilder;
impl ThreadPoolBuilder {
    pub fn new() -> Self { ThreadPoolBuilder }
    pub fn num_threads(self, _n: usize) -> Self { self }
    pub fn stack_size(self, _n: usize) -> Self { self }
    pub fn thread_name<F>(self, _f: F) -> Self where F: FnMut(usize) -> String + 'static { self }
    pub fn panic_handler<H>(self, _h: H) -> Self where H: Fn(Box<dyn std::any::Any + Send>) + Send + Sync + 'static { self }
    pub fn start_handler<H>(self, _h: H) -> Self where H: Fn(usize) + Send + Sync + 'static { self }
    pub fn exit_handler<H>(self, _h: H) -> Self where H: Fn(usize) + Send + Sync + 'static { self }
    pub fn use_current_thread(self) -> Self { self }
    #[deprecated] pub fn breadth_first(self) -> Self { self }
    pub fn build(self) -> Result<ThreadPool, ThreadPoolBuildError> { Ok(ThreadPool) }
    pub fn build_global(self) -> Result<(), ThreadPoolBuildError> {
        if GLOBAL_INIT.swap(true, std::sync::atomic::Ordering::SeqCst) { Err(ThreadPoolBuildError) } else { Ok(()) }
    }
}
#[derive(Debug)] pub struct ThreadBuilder;
