fn main() {}
