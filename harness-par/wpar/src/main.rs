//! C09 schedule explorer: runs walrus (built with `--features parallel`) on the controlled
//! `rayon-core` and enumerates fork-join schedules by stateless DFS over choice sequences.
//!
//! usage: wpar <cases.bin> <items.json> <proc> <nprocs>
//! cases.bin: repeated  u32 len | wasm | u8 flags(bit0 preserve_ct) | u8 expected_ok | u32 len | expected bytes
//! items.json: [{"case":k,"threads":T,"migrated":bool,"mode":"full"|"dev"|"fanout"|"replay","bound":n,"fanout":f,"schedule":[..],"cap":n}]
//! output: one JSON line per item.

use serde_json::{json, Value};
use std::collections::BTreeSet;

struct CaseIn {
    wasm: Vec<u8>,
    preserve_ct: bool,
    loc_mod: bool,
    shared_locals: bool,
    gc: bool,
    expected: Result<Vec<u8>, ()>,
}

fn read_cases(p: &str) -> Vec<CaseIn> {
    let b = std::fs::read(p).expect("cases file");
    let mut v = vec![];
    let mut i = 0;
    let rd = |i: &mut usize| -> Vec<u8> {
        let n = u32::from_le_bytes(b[*i..*i + 4].try_into().unwrap()) as usize;
        *i += 4;
        let r = b[*i..*i + n].to_vec();
        *i += n;
        r
    };
    while i < b.len() {
        let wasm = rd(&mut i);
        let flags = b[i];
        let ok = b[i + 1];
        i += 2;
        let exp = rd(&mut i);
        v.push(CaseIn { wasm, preserve_ct: flags & 1 != 0, gc: flags & 2 != 0, loc_mod: flags & 4 != 0, shared_locals: flags & 8 != 0, expected: if ok == 1 { Ok(exp) } else { Err(()) } });
    }
    v
}


/// a consumer of the code transform: its payload is the transform itself (code section start, every
/// function range, every (input location, output offset) pair), so the emitted bytes depend on it
#[derive(Debug, Default)]
pub struct CtDump(pub Vec<u8>);
impl walrus::CustomSection for CtDump {
    fn name(&self) -> &str {
        "ct-dump"
    }
    fn data(&self, _: &walrus::IdsToIndices) -> std::borrow::Cow<'_, [u8]> {
        std::borrow::Cow::Borrowed(&self.0)
    }
    fn apply_code_transform(&mut self, t: &walrus::CodeTransform) {
        let mut v = vec![];
        v.extend_from_slice(&(t.code_section_start as u32).to_le_bytes());
        for (id, r) in &t.function_ranges {
            v.extend_from_slice(&(id.index() as u32).to_le_bytes());
            v.extend_from_slice(&(r.start as u32).to_le_bytes());
            v.extend_from_slice(&(r.end as u32).to_le_bytes());
        }
        for (loc, off) in &t.instruction_map {
            v.extend_from_slice(&loc.data().to_le_bytes());
            v.extend_from_slice(&(*off as u32).to_le_bytes());
        }
        self.0 = v;
    }
}


/// two pairs of builder-made functions that share a `LocalId`: a parameter of the first, a plain
/// local of the second (module-level locals can be used that way); each pair is adjacent in the
/// size order walrus emits functions in, the parameter user first
fn add_functions_sharing_locals(m: &mut walrus::Module) {
    use walrus::{FunctionBuilder, ValType};
    for (k, pairs) in [6i32, 2].iter().enumerate() {
        let l = m.locals.add(ValType::I32);
        let mut b1 = FunctionBuilder::new(&mut m.types, &[ValType::I32], &[ValType::I32]);
        {
            let mut body = b1.func_body();
            for j in 0..*pairs {
                body.i32_const(9000 + j).drop();
            }
            body.local_get(l);
        }
        let f1 = b1.finish(vec![l], &mut m.funcs);
        let mut b2 = FunctionBuilder::new(&mut m.types, &[], &[ValType::I32]);
        {
            let mut body = b2.func_body();
            for j in 0..(*pairs - 2) {
                body.i32_const(9100 + j).drop();
            }
            body.i32_const(5).local_set(l).local_get(l);
        }
        let f2 = b2.finish(vec![], &mut m.funcs);
        m.exports.add(&format!("shared_param_{}", k), f1);
        m.exports.add(&format!("shared_local_{}", k), f2);
    }
}

fn walrus_run(c: &CaseIn) -> Result<Vec<u8>, String> {
    let mut cfg = walrus::ModuleConfig::new();
    cfg.preserve_code_transform(c.preserve_ct);
    if c.shared_locals {
        cfg.generate_name_section(false);
    }
    if c.loc_mod {
        cfg.on_instr_loc(|pos| walrus::InstrLocId::new((*pos % 7) as u32));
    }
    let r = std::panic::catch_unwind(std::panic::AssertUnwindSafe(|| -> Result<Vec<u8>, String> {
        let mut m = cfg.parse(&c.wasm).map_err(|e| format!("{:#}", e))?;
        if c.preserve_ct {
            m.customs.add(CtDump::default());
        }
        if c.shared_locals {
            add_functions_sharing_locals(&mut m);
        }
        if c.gc {
            walrus::passes::gc::run(&mut m);
        }
        Ok(m.emit_wasm())
    }));
    match r {
        Ok(x) => x,
        Err(_) => Err("PANIC".into()),
    }
}

fn judge(c: &CaseIn, r: &Result<Vec<u8>, String>) -> Option<String> {
    match (&c.expected, r) {
        (Ok(e), Ok(g)) => {
            if e == g {
                None
            } else {
                Some(format!("output-differs-from-serial: {} vs {} bytes", g.len(), e.len()))
            }
        }
        (Err(()), Err(m)) => {
            if m == "PANIC" {
                Some("panic-where-serial-returns-error".into())
            } else {
                None
            }
        }
        (Ok(_), Err(m)) => Some(format!("rejected-or-panicked-where-serial-accepts: {}", m)),
        (Err(()), Ok(_)) => Some("accepted-where-serial-rejects".into()),
    }
}

fn main() {
    std::panic::set_hook(Box::new(|_| {}));
    let av: Vec<String> = std::env::args().collect();
    // the process has used rayon before (a long-lived host; an earlier module): one small parallel
    // parse + emit outside of any exploration, so that every item below - and every replay - starts from
    // the same process history
    {
        let tiny: [u8; 30] = [0, 0x61, 0x73, 0x6d, 1, 0, 0, 0, 1, 4, 1, 0x60, 0, 0, 3, 3, 2, 0, 0, 0x0a, 7, 2, 2, 0, 0x0b, 2, 0, 0x0b, 0, 0];
        let _ = std::panic::catch_unwind(|| walrus::Module::from_buffer(&tiny[..28]).map(|mut m| m.emit_wasm()));
    }
    let cases = read_cases(&av[1]);
    let items: Vec<Value> = serde_json::from_str(&std::fs::read_to_string(&av[2]).unwrap()).unwrap();
    let (proc_i, nprocs): (usize, usize) = (av[3].parse().unwrap(), av[4].parse().unwrap());
    for (ii, it) in items.iter().enumerate() {
        if ii % nprocs != proc_i {
            continue;
        }
        let c = &cases[it["case"].as_u64().unwrap() as usize];
        let threads = it["threads"].as_u64().unwrap_or(2) as usize;
        let migrated = it["migrated"].as_bool().unwrap_or(false);
        let mode = it["mode"].as_str().unwrap_or("full");
        let bound = it["bound"].as_u64().unwrap_or(2) as usize;
        let only_fanout = it["fanout"].as_u64().unwrap_or(0) as usize;
        let cap = it["cap"].as_u64().unwrap_or(200_000) as usize;
        // wall cap per item: a cap that is hit is reported, what was explored below it is complete in DFS order
        let cap_ms = it["cap_ms"].as_u64().unwrap_or(30_000) as u128;
        let t0 = std::time::Instant::now();
        let mut stack: Vec<Vec<usize>> = vec![];
        if mode == "replay" {
            stack.push(it["schedule"].as_array().map(|a| a.iter().map(|x| x.as_u64().unwrap() as usize).collect()).unwrap_or_default());
        } else {
            stack.push(vec![]);
        }
        let mut n = 0usize;
        let mut outcomes: BTreeSet<u64> = BTreeSet::new();
        let mut orders: BTreeSet<Vec<usize>> = BTreeSet::new();
        let mut verdict = "ok";
        let mut detail = String::new();
        let mut bad_schedule: Vec<usize> = vec![];
        let mut capped = false;
        let mut max_tasks = 0;
        let mut fanouts = 0;
        let mut steps = 0u64;
        let mut first_last: Vec<Vec<usize>> = vec![];
        while let Some(prefix) = stack.pop() {
            if n >= cap || t0.elapsed().as_millis() > cap_ms {
                capped = true;
                break;
            }
            let plen = prefix.len();
            let run = rayon_core::run_controlled(prefix.clone(), threads, migrated, || walrus_run(c));
            n += 1;
            steps += run.tasks as u64;
            max_tasks = max_tasks.max(run.tasks);
            fanouts = fanouts.max(run.fanouts);
            if run.divergence {
                verdict = "machinery";
                detail = format!("replay divergence on prefix {:?}", prefix);
                break;
            }
            let choices: Vec<usize> = run.trace.iter().map(|t| t.0).collect();
            let h = {
                let mut x: u64 = 0xcbf29ce484222325;
                let bytes: &[u8] = match &run.result {
                    Ok(b) => b,
                    Err(e) => e.as_bytes(),
                };
                for b in bytes {
                    x ^= *b as u64;
                    x = x.wrapping_mul(0x100000001b3);
                }
                x
            };
            outcomes.insert(h);
            orders.insert(run.order.clone());
            if n == 1 {
                first_last.push(choices.clone());
            }
            if let Some(d) = judge(c, &run.result) {
                verdict = "diff";
                detail = d;
                bad_schedule = choices.clone();
                break;
            }
            if mode == "replay" {
                break;
            }
            for i in (plen..run.trace.len()).rev() {
                let (_, alts, fo) = run.trace[i];
                // deviation = a non-default choice
                let dev_before = choices[..i].iter().filter(|c| **c != 0).count();
                let allowed = match mode {
                    "full" => true,
                    "dev" => dev_before < bound,
                    "fanout" => fo == only_fanout,
                    _ => true,
                };
                if !allowed {
                    continue;
                }
                for alt in 1..alts {
                    if alt <= run.trace[i].0 {
                        continue;
                    }
                    let mut p: Vec<usize> = choices[..i].to_vec();
                    p.push(alt);
                    stack.push(p);
                }
            }
            if stack.is_empty() {
                first_last.push(choices);
            }
        }
        // determinism of the harness itself: the first and the last schedule run twice
        let mut nondet = false;
        if verdict == "ok" && mode != "replay" {
            for sch in &first_last {
                let a = rayon_core::run_controlled(sch.clone(), threads, migrated, || walrus_run(c));
                let b = rayon_core::run_controlled(sch.clone(), threads, migrated, || walrus_run(c));
                if a.result != b.result || a.order != b.order {
                    nondet = true;
                }
            }
        }
        if nondet {
            verdict = "machinery";
            detail = "the same schedule gave different observations when run twice".into();
        }
        println!(
            "{}",
            json!({"item": ii, "schedules": n, "task_steps": steps, "outcomes": outcomes.len(), "orders": orders.len(), "verdict": verdict, "detail": detail,
                   "schedule": bad_schedule, "capped": capped, "tasks": max_tasks, "fanouts": fanouts, "ms": t0.elapsed().as_millis() as u64})
        );
    }
}
