// Product exploration of two wasm binaries (input vs what walrus emitted) in V8.
// usage: node [flags] bisim.js <shard file>
// shard = repeated: u32le len | json spec | u32le len | a.wasm | u32le len | b.wasm
// prints one JSON line per case: {case, verdict: ok|diff|skip|error, states, transitions, detail}
'use strict';
const fs = require('fs');

function fnv(h, x) { h ^= x >>> 0; return Math.imul(h, 16777619) >>> 0; }
function hashBytes(buf) {
  // buf: ArrayBuffer (or SharedArrayBuffer)
  const w = new Uint32Array(buf, 0, buf.byteLength >>> 2);
  let h = 2166136261;
  // memories are mostly zero: skip zero words quickly but keep position sensitivity
  for (let i = 0; i < w.length; i++) { const v = w[i]; if (v !== 0) { h = fnv(h, i); h = fnv(h, v); } }
  h = fnv(h, buf.byteLength);
  return h >>> 0;
}
function showVal(v) {
  if (typeof v === 'bigint') return v.toString() + 'n';
  if (typeof v === 'number') { if (Object.is(v, -0)) return '-0'; return String(v); }
  if (v === null) return 'null';
  if (v === undefined) return 'undef';
  if (typeof v === 'function') return 'fn';
  if (Array.isArray(v)) return '[' + v.map(showVal).join(',') + ']';
  if (typeof v === 'object' && v.__host) return 'host:' + v.__host;
  return typeof v;
}
const HOSTOBJ = { __host: 'obj1' };
const VALUES = {
  i32: [0, 1, -1, 0x80000000 | 0],
  i64: [0n, 1n, -1n, -(2n ** 63n)],
  f32: [0, 1.5, -0, NaN],
  f64: [0, 1.5, -0, NaN],
  externref: [null, HOSTOBJ],
  funcref: [null],
};
function argVectors(params, full) {
  let vs = [[]];
  for (const p of params) {
    const dom = VALUES[p];
    if (!dom) return null; // v128 etc: not callable from JS
    const next = [];
    for (const v of vs) for (const d of dom) next.push(v.concat([d]));
    vs = next;
    if (vs.length > 256) vs = vs.slice(0, 256);
  }
  if (!full && vs.length > 16) {
    // reduced tier: an orthogonal array of strength 2 (16 rows, up to 5 four-level factors): every
    // pair of values of every two parameters occurs together, unlike a regular sub-sampling of
    // the product (which kept the last parameter constant)
    const rows = [];
    for (let a = 0; a < 4; a++) for (let b = 0; b < 4; b++) {
      rows.push(params.map((p, k) => { const dom = VALUES[p]; const lvl = k === 0 ? a : k === 1 ? b : (a + (((k - 2) % 3) + 1) * b + Math.floor((k - 2) / 3)) % 4; return dom[lvl % dom.length]; }));
    }
    vs = rows;
  }
  return vs;
}
function hostResult(results, args, salt) {
  let h = 2166136261; h = fnv(h, salt);
  for (const a of args) {
    if (typeof a === 'bigint') { h = fnv(h, Number(BigInt.asUintN(32, a))); h = fnv(h, Number(BigInt.asUintN(32, a >> 32n))); }
    else if (typeof a === 'number') { h = fnv(h, Object.is(a, NaN) ? 0x7fc00000 : (a * 65536) | 0); }
    else h = fnv(h, a === null ? 1 : 2);
  }
  const one = (t) => {
    switch (t) {
      case 'i32': return (h % 1000) | 0;
      case 'i64': return BigInt(h % 1000);
      case 'f32': case 'f64': return (h % 1000) / 4;
      case 'externref': return (h & 1) ? HOSTOBJ : null;
      case 'funcref': return null;
      default: return 0;
    }
  };
  if (results.length === 0) return undefined;
  if (results.length === 1) return one(results[0]);
  return results.map(one);
}
function strHash(s) { let h = 2166136261; for (let i = 0; i < s.length; i++) h = fnv(h, s.charCodeAt(i)); return h; }

// Build an import object for one side. Every side gets its own, identically initialised objects.
function makeImports(spec, trace) {
  const imp = {};
  for (const i of spec.imports) {
    imp[i.module] = imp[i.module] || {};
    let v;
    if (i.kind === 'func') {
      const salt = strHash(i.module + '\0' + i.name);
      const beh = i.impl || 'log';
      v = (...args) => {
        trace.push(i.module + '.' + i.name + '(' + args.map(showVal).join(',') + ')');
        if (beh === 'trap') throw new WebAssembly.RuntimeError('unreachable');
        if (beh.startsWith('const:')) {
          const k = Number(beh.slice(6));
          return i.results.length === 0 ? undefined : (i.results[0] === 'i64' ? BigInt(k) : k);
        }
        if (beh === 'arg0') return args[0];
        return hostResult(i.results, args, salt);
      };
    } else if (i.kind === 'memory') {
      const d = { initial: i.min };
      if (i.max !== null && i.max !== undefined) d.maximum = i.max;
      if (i.shared) d.shared = true;
      if (i.is64) d.index = 'i64';
      v = new WebAssembly.Memory(d);
    } else if (i.kind === 'table') {
      const d = { element: i.elem === 'externref' ? 'externref' : 'anyfunc', initial: i.min };
      if (i.max !== null && i.max !== undefined) d.maximum = i.max;
      v = new WebAssembly.Table(d);
    } else if (i.kind === 'global') {
      const init = { i32: 7, i64: 7n, f32: 1.5, f64: 2.5, externref: HOSTOBJ, funcref: null }[i.ty];
      if (init === undefined && i.ty !== 'funcref') throw new SkipError('global import of type ' + i.ty);
      v = new WebAssembly.Global({ value: i.ty === 'funcref' ? 'anyfunc' : i.ty, mutable: !!i.mutable }, init);
    }
    // duplicate (module,name) pairs resolve to the same object: inherent to the JS API
    if (!(i.name in imp[i.module])) imp[i.module][i.name] = v;
  }
  return imp;
}
class SkipError extends Error {}

function errClass(e) {
  if (e instanceof WebAssembly.RuntimeError) return 'trap:' + e.message;
  if (e instanceof RangeError) return 'range:' + e.message.slice(0, 40);
  if (e instanceof WebAssembly.LinkError) return 'link:' + e.message.replace(/#\d+/g, '#').replace(/function \d+/g, 'function').slice(0, 60);
  if (e instanceof WebAssembly.CompileError) return 'compile:' + e.message.slice(0, 80);
  return (e && e.constructor ? e.constructor.name : 'err') + ':' + String(e && e.message).slice(0, 60);
}

class Side {
  constructor(mod, spec) { this.mod = mod; this.spec = spec; this.trace = []; this.inst = null; this.instErr = null; }
  instantiate() {
    this.trace = [];
    this.imports = makeImports(this.spec, this.trace);
    try { this.inst = new WebAssembly.Instance(this.mod, this.imports); this.instErr = null; }
    catch (e) { if (e instanceof SkipError) throw e; this.inst = null; this.instErr = errClass(e); }
  }
  call(name, args) {
    const f = this.inst.exports[name];
    try { const r = f(...args); return 'ok:' + showVal(r); } catch (e) { return errClass(e); }
  }
  fnName(f) {
    if (f === null) return 'null';
    for (const e of this.spec.exports) if (e.kind === 'func' && this.inst.exports[e.name] === f) return 'x:' + e.name;
    return 'fn';
  }
  digest() {
    let parts = [];
    // imported state objects are part of the observable state too
    const look = [];
    for (const e of this.spec.exports) look.push([e.kind, 'x:' + e.name, this.inst.exports[e.name], e]);
    for (const i of this.spec.imports) if (i.kind !== 'func') look.push([i.kind, 'i:' + i.module + '.' + i.name, this.imports[i.module][i.name], i]);
    for (const [kind, name, obj, d] of look) {
      if (kind === 'memory') parts.push(name + '=' + hashBytes(obj.buffer));
      else if (kind === 'global') { if (d.ty !== 'v128') { let v; try { v = obj.value; } catch (e) { v = 'unreadable'; } parts.push(name + '=' + (typeof v === 'function' ? this.fnName(v) : showVal(v))); } }
      else if (kind === 'table') {
        const n = obj.length; const cells = [];
        for (let k = 0; k < Math.min(n, 64); k++) { const c = obj.get(k); cells.push(typeof c === 'function' ? this.fnName(c) : showVal(c)); }
        parts.push(name + '=' + n + ':' + cells.join(','));
      }
    }
    return parts.join(';');
  }
}

function compareInstantiate(A, B) {
  A.instantiate(); B.instantiate();
  if (A.instErr !== B.instErr) return 'instantiation differs: input ' + (A.instErr || 'ok') + ' / output ' + (B.instErr || 'ok');
  if (A.trace.join('|') !== B.trace.join('|')) return 'host-call trace during instantiation differs: [' + A.trace.join(' ') + '] vs [' + B.trace.join(' ') + ']';
  if (A.inst && A.digest() !== B.digest()) return 'state after instantiation differs: ' + A.digest() + ' vs ' + B.digest();
  return null;
}
function step(A, B, name, args) {
  const ta = A.trace.length, tb = B.trace.length;
  const ra = A.call(name, args), rb = B.call(name, args);
  if (ra !== rb) return 'call ' + name + '(' + args.map(showVal).join(',') + '): input ' + ra + ' / output ' + rb;
  const xa = A.trace.slice(ta).join('|'), xb = B.trace.slice(tb).join('|');
  if (xa !== xb) return 'call ' + name + '(' + args.map(showVal).join(',') + '): host-call trace [' + xa + '] vs [' + xb + ']';
  const da = A.digest(), db = B.digest();
  if (da !== db) return 'after ' + name + '(' + args.map(showVal).join(',') + '): state ' + da + ' vs ' + db;
  return null;
}

function runCase(spec, abuf, bbuf) {
  let ma, mb;
  try { ma = new WebAssembly.Module(abuf); } catch (e) { return { verdict: 'skip', detail: 'input does not compile in V8: ' + errClass(e) }; }
  try { mb = new WebAssembly.Module(bbuf); } catch (e) { return { verdict: 'diff', detail: 'output does not compile in V8 although the input does: ' + errClass(e) }; }
  // the export lists must agree (names and kinds, in order)
  // export order is not fixed by the properties: compare as sets
  const ea = WebAssembly.Module.exports(ma).map(e => e.name + ':' + e.kind).sort().join(','), eb = WebAssembly.Module.exports(mb).map(e => e.name + ':' + e.kind).sort().join(',');
  if (ea !== eb) return { verdict: 'diff', detail: 'export lists differ: ' + ea + ' vs ' + eb };
  // both sides get objects for *all* of the input's imports (a pass may have dropped some from
  // the output; extra entries in an import object are ignored by instantiation), so that state
  // the input can reach through an import is compared even if the output no longer imports it
  const A = new Side(ma, spec), B = new Side(mb, spec);
  let states = 0, transitions = 0;
  let d = compareInstantiate(A, B); transitions++;
  if (spec.skip_if_input_fails && A.instErr) return { verdict: 'skip', detail: 'input does not instantiate: ' + A.instErr, states: 0, transitions };
  if (d) return { verdict: 'diff', detail: d, states, transitions };
  if (!A.inst) return { verdict: spec.require_instantiation ? 'skip' : 'ok', detail: 'both fail to instantiate: ' + A.instErr, states: 1, transitions };
  states = 1;
  const funcs = spec.exports.filter(e => e.kind === 'func');
  const alphabet = [];
  let uncallable = 0;
  for (const f of funcs) {
    const vs = argVectors(f.params, !!spec.full_values);
    if (vs === null || f.results.some(r => !(r in VALUES))) { uncallable++; continue; }
    for (const v of vs) alphabet.push([f.name, v]);
  }
  if (spec.mode === 'batch') {
    // one long deterministic history on a single instance pair
    const seen = new Set([A.digest()]);
    for (const [name, args] of alphabet) {
      d = step(A, B, name, args); transitions++;
      if (d) return { verdict: 'diff', detail: d, states: seen.size, transitions };
      seen.add(A.digest() + '#' + A.trace.length);
    }
    return { verdict: 'ok', states: seen.size, transitions, uncallable };
  }
  // BFS over call sequences with re-instantiation + replay; dedupe on the product digest
  const depth = spec.depth || 2;
  const key = (s) => s.digest() + '#' + strHash(s.trace.join('|'));
  const seen = new Set([key(A)]);
  let frontier = [[]];
  for (let level = 0; level < depth; level++) {
    const next = [];
    for (const hist of frontier) {
      for (const [name, args] of alphabet) {
        A.instantiate(); B.instantiate();
        let bad = null;
        for (const [n2, a2] of hist) { A.call(n2, a2); B.call(n2, a2); }
        bad = step(A, B, name, args); transitions++;
        if (bad) return { verdict: 'diff', detail: 'after ' + JSON.stringify(hist.map(h => h[0] + '(' + h[1].map(showVal).join(',') + ')')) + ': ' + bad, states: seen.size, transitions };
        const k = key(A);
        if (!seen.has(k)) { seen.add(k); next.push(hist.concat([[name, args]])); }
        if (transitions > (spec.max_transitions || 20000)) return { verdict: 'ok', states: seen.size, transitions, capped: true, uncallable };
      }
    }
    frontier = next;
    if (frontier.length === 0) break;
  }
  return { verdict: 'ok', states: seen.size, transitions, uncallable };
}

const buf = fs.readFileSync(process.argv[2]);
const FROM = process.argv[3] ? Number(process.argv[3]) : 0;
let p = 0, idx = 0;
const out = [];
while (p < buf.length) {
  const l1 = buf.readUInt32LE(p); p += 4; const spec = JSON.parse(buf.slice(p, p + l1).toString('utf8')); p += l1;
  const l2 = buf.readUInt32LE(p); p += 4; const a = new Uint8Array(buf.buffer, buf.byteOffset + p, l2).slice(); p += l2;
  const l3 = buf.readUInt32LE(p); p += 4; const b = new Uint8Array(buf.buffer, buf.byteOffset + p, l3).slice(); p += l3;
  if (idx < FROM) { idx++; continue; }
  // announce the case before running it, so that a watchdog can attribute a hang
  fs.writeSync(1, 'B ' + (spec.id !== undefined ? spec.id : idx) + '\n');
  let r;
  try { r = runCase(spec, a, b); }
  catch (e) { r = (e instanceof SkipError) ? { verdict: 'skip', detail: e.message } : { verdict: 'error', detail: String(e && e.stack || e).slice(0, 300) }; }
  r.case = spec.id !== undefined ? spec.id : idx;
  fs.writeSync(1, JSON.stringify(r) + '\n');
  idx++;
}
